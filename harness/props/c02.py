"""C02 — literal values parse to exactly what Python evaluates them to."""
import ast

from harness import common as C
from harness import parsing as P
from harness.common import T
from harness.main import Engine

PID = 'C02'
LEVEL = 'proof'
RULE = ('parser/value: generator A renders random literal trees (depth <= 5: ints in all bases / underscores / huge, '
        'floats incl. exponents, 1., .5, overflow to inf, complex, str/bytes with every prefix, both quotes, triple '
        'quotes, escapes, 1-4 adjacent pieces, booleans, None, lists, tuples, one-tuples, parenthesised values, '
        'dicts -- also with keys that are equal in Python under different spellings (1 / True / 1.0, 0 / False / -0.0 / 0j, equal '
        'strings and tuples: one entry), and, now and then, keys that are gin references / macros (repeated) or cannot be hashed '
        '(TypeError) --, trailing commas) to text in random layouts (blanks, line breaks and comments inside brackets, '
        'backslash continuations); generator B applies single-character edits to A texts and adds a fixed list of '
        'near misses. Each text is parsed as the statement "x.p = <text>". non-trivial = nesting depth >= 2 with '
        'trivia inside a bracket, or >= 2 adjacent string pieces, or a near miss.')
TRUSTED_BASE = [
    'Coq 8.16.1 kernel; vm_compute in Examples and in the correspondence run; no native_compute',
    'axioms: none expected (see print_assumptions)',
    'hand-written model coq/Model/Parser.v of gin/config_parser.py:199-596; tied to /repo by harness/parsing.py + harness/props/c02.py',
    'NOT modelled: CPython tokenizer (the model starts from the token list the real tokenizer produced, including the '
    'point where it raised) and ast.literal_eval on one atom text (an oracle table computed by the harness with the real '
    'ast.literal_eval is part of the model input; the model reports OracleMiss if it needs a text the table lacks)',
]
ASSUMPTIONS = ['texts containing NUL or CR are not sent to the model']

FIXED_NEAR_MISSES = [
    '1 + 2', '1+2j', '+1', '--1', '- -1', 'abc', 'a.b', '[x for x in y]', '{1, 2}', '{1}', '[1, 2', '1, 2', '(1, 2',
    '[1 2]', "{'a' 1}", "{'a': }", '[1,,2]', '[,]', '(,)', '1 2', "'a' 1", "1 'a'", '[1] 2', '[1]]', "f'a'", "f'a{1}'",
    '1__0', '0x', "'abc", '"""abc', '1 if 2 else 3', 'lambda: 1', '...', '1.2.3', '1_', '[1;2]', '$', '`1`', '-', '-[1]',
    "-'a'", '-None', '-True', '-False', '[-True]', '{-True: 1}', '{1: -False}', '- True', '-(True)', '(-False,)', '- 1', '-(1)', "b'a' 'b'", "'a' b'b'", '*1', '1 *', '~1', 'not True', '1 == 1', '[*a]', '{**a}',
    '1 # c', '(1 # c\n)', '[1\n', "'a'\n'b'", '(\n)', '[\n]', '{\n}', "''", "'' 'a'", '"" "a"', "'a' '' 'b'", "''''a'''",
    "'a''b'", "'a'\"b\"", "r'\\'", "'\\", "u'a' 'b'", "rb'a' b'b'", '0o17', '0b101', '1e5', '1E-5', '1.', '.5', '1e999',
    '-1e999', '1j', '-1j', '1_000', '0xFF', '10**2', 'True', 'False', 'None', 'true', 'nan', 'inf', '((1))', '((1),)',
    '(((1,),),)', '{1: {2: {3: [4, (5,)]}}}', "{'a': 1, 'a': 2}", "{'a': 1, 'b': 2, 'a': 3}", '[1, 2, 3,]', '(1, 2,)',
    "{'a': 1,}", '[[], (), {}]',
    # dict(values): keys that are equal in Python are ONE entry (the earlier key and place, the later value); a key that
    # cannot be hashed raises TypeError once the closing bracket has been passed
    "{1: 'a', True: 'b'}", "{True: 'a', 1: 'b', 1.0: 'c'}", "{0: 1, -0.0: 2, False: 3, 0j: 4, '': 5}", "{(1, 'a'): 1, (True, 'a'): 2, (1.0, 'a',): 3}",
    "{'k' '1': 1, 'k1': 2, u'k1': 3, b'k1': 4}", "{1e999: 1, 1e400: 2, -1e999: 3}", '{10000000000000000000000: 1, 1e22: 2, 10000000000000000000001: 3}',
    "{0.1: 1, 1e-1: 2, 0.10000000000000002: 3}", '{0x10: 1, 16.0: 2, 0o20: 3, 1_6: 4}', '{None: 1, None: 2}', "{1: {2: 'a', 2.0: 'b'}}",
    '{1j: 1, 1.0j: 2, -1j: 3, 0j: 4, 0: 5}', '{2.5: 1, 5e-1: 2, 0.5: 3}', '{[1]: 2}', '{1: 2, {}: 3}', '{(1, [2]): 3}', '[{[1]: 2}]', '{[1]: 2} x', '{[1]: [}',
    '{(): 1, (): 2, ((),): 3}', '{@f: 1, @f: 2}', '{@f: 1, @f(): 2}', '{%m: 1, %m: 2, %n: 3}', '{@s/f: 1, @f: 2, @s/f: 3}', '{@f: 1, [@f]: 2}',
    '9' * 60, '-' + '9' * 60, '0' * 3, '007', '1 \\\n', '[1, \\\n 2]',
    # inside a string literal these are ordinary characters for the tokenizer (str.splitlines would cut there)
    "'a\x0bb'", "'a\x0cb'", '"""a\x0cb"""', "'x\u2028y'", "r'a\x1cb'", "b'a\x0cb'", "['a\x85b', 1]", "'a\x1d' 'b\x1e'", "'\u2029'",
]


# ------------------------------------------------------------------ generator A
def gen_int(rng):
  r = rng.random()
  n = rng.choice([0, 1, 2, 7, 10, 255, 1000, 123456789, 10 ** 30 + 7])
  if r < 0.5:
    return str(n)
  if r < 0.6:
    return hex(n)
  if r < 0.7:
    return oct(n)
  if r < 0.8:
    return bin(n)
  if r < 0.9 and n >= 1000:
    s = str(n)
    return s[:-3] + '_' + s[-3:]
  return rng.choice(['0X1f', '0O7', '0B1', '00', '0_0', '1_0'])


def gen_float(rng):
  return rng.choice(['1.5', '0.1', '1.', '.5', '1e10', '1E-3', '2.5e+3', '1e999', '1_0.0_1', '0.0', '1e0', '3.14159',
                     '1j', '2.5j', '1e2j', '0j'])


ESC = ['\\n', '\\t', '\\\\', "\\'", '\\"', '\\x41', '\\u00e9', '\\N{EM DASH}', '\\101', '\\0', '\\\n']


def gen_strpiece(rng, kind):
  """one string/bytes token text"""
  prefix = rng.choice(['', '', '', 'r', 'u', 'R', 'U'] if kind == 'str' else ['b', 'B', 'br', 'rb', 'Rb', 'bR'])
  raw = 'r' in prefix.lower()
  q = rng.choice(["'", '"', "'''", '"""'])
  body = ''
  for _ in range(rng.choice([0, 0, 1, 2, 3, 5])):
    r = rng.random()
    if r < 0.6:
      body += rng.choice('abcxyz 019_#@%,[]{}():=')
    elif r < 0.75 and not raw:
      e = rng.choice(ESC)
      if kind == 'bytes' and e.startswith(('\\u', '\\N')):
        e = '\\x42'
      if e == '\\\n' and len(q) == 1 and False:
        e = 'z'
      body += e
    elif r < 0.85:
      body += "'" if q[0] == '"' else '"'
    elif r < 0.92 and len(q) == 3:
      body += '\n'
    elif kind == 'str' and r < 0.96:
      body += rng.choice('é☃')
    elif r < 0.985:
      # characters that str.splitlines() treats as line ends but the tokenizer does not: part of the string
      body += rng.choice('\x0b\x0c\x1c\x1d\x1e' + ('\x85\u2028\u2029' if kind == 'str' else ''))
    else:
      body += 'q'
  if len(q) == 3 and body.endswith(q[0]):
    body += ' '
  if raw and body.endswith('\\'):
    body += 'x'
  return prefix + q + body + q


def gen_atom(rng):
  r = rng.random()
  if r < 0.3:
    s = gen_int(rng)
    return ('-' + rng.choice(['', ' ']) if rng.random() < 0.25 else '') + s
  if r < 0.45:
    s = gen_float(rng)
    return ('-' + rng.choice(['', ' ']) if rng.random() < 0.25 else '') + s
  if r < 0.6:
    return rng.choice(['True', 'False', 'None'])
  kind = 'str' if rng.random() < 0.75 else 'bytes'
  n = rng.choice([1, 1, 1, 2, 2, 3, 4])
  return ('STR', [gen_strpiece(rng, kind) for _ in range(n)])


def gen_tree(rng, depth, special=False):
  """special: dict keys may be gin references / macros or unhashable (no Python literal then)"""
  r = rng.random()
  if depth <= 0 or r < 0.4:
    return ('atom', gen_atom(rng))
  if r < 0.6:
    return ('list', [gen_tree(rng, depth - 1, special) for _ in range(rng.choice([0, 1, 2, 3]))])
  if r < 0.78:
    return ('tuple', [gen_tree(rng, depth - 1, special) for _ in range(rng.choice([0, 1, 1, 2, 3]))])
  if r < 0.86:
    return ('paren', gen_tree(rng, depth - 1, special))
  # keys: also different spellings of Python-equal keys (1 / True / 1.0 / 1e0, 0 / False / -0.0 / 0j, equal strings, equal
  # tuples): dict(values) makes them ONE entry; now and then gin's own syntax, and a key that cannot be hashed (TypeError)
  pool = ["'k1'", '"k2"', '2', '3', "b'k'", '(1, 2)', 'None', "'k1' 'x'", '1', 'True', '1.0', '1e0', '0', 'False', '-0.0', '0j', '2.0',
          "'k' '1'", "u'k1'", "'k1x'", '(True, 2.0)', '(1, 2,)', '0x2', '-0', '(1)', '()', '1e999']
  if special and rng.random() < 0.6:
    pool = pool[:12] + ['@f', '@f()', '%m', '@s/f', '%m', '@f', '%n']
  elif special:
    pool = pool[:12] + ['[1]', '{}', '(1, [2])', '[]']
  keys = [rng.choice(pool) for _ in range(rng.choice([0, 1, 2, 3, 4]))]
  items = [(('atom', k), gen_tree(rng, depth - 1, special)) for k in keys]
  if items and rng.random() < 0.2:
    items.append((items[0][0], gen_tree(rng, 0)))       # duplicate key: the later value wins
  return ('dict', items)


def trivia(rng, inside, p=0.35):
  """blank / line break / comment: only legal inside brackets"""
  if not inside:
    return rng.choice(['', '', ' ', '  ', ' \\\n  ' if rng.random() < 0.15 else ' '])
  r = rng.random()
  if r > p:
    return rng.choice(['', ' '])
  return rng.choice(['\n', ' \n  ', '  # c\n', '#x,]\n ', '\n\n', ' \\\n ', '\t'])


def render(rng, t, inside=False):
  k = t[0]
  if k == 'atom':
    a = t[1]
    if isinstance(a, tuple):
      out = a[1][0]
      for piece in a[1][1:]:
        sep = trivia(rng, inside, 0.5)
        out += (sep if sep else ' ') + piece
      return out
    return a
  if k == 'paren':
    return '(' + trivia(rng, True) + render(rng, t[1], True) + trivia(rng, True) + ')'
  if k in ('list', 'tuple'):
    op, cl = ('[', ']') if k == 'list' else ('(', ')')
    items = [render(rng, x, True) for x in t[1]]
    s = op + trivia(rng, True)
    for i, it in enumerate(items):
      s += it + trivia(rng, True)
      last = i == len(items) - 1
      if not last or rng.random() < 0.3 or (k == 'tuple' and len(items) == 1):
        s += ',' + trivia(rng, True)
    return s + cl
  if k == 'dict':
    s = '{' + trivia(rng, True)
    for i, (kk, v) in enumerate(t[1]):
      s += render(rng, kk, True) + trivia(rng, True, 0.15) + ':' + trivia(rng, True, 0.15) + render(rng, v, True) + trivia(rng, True)
      if i < len(t[1]) - 1 or rng.random() < 0.3:
        s += ',' + trivia(rng, True)
    return s + '}'
  raise AssertionError(t)


def depth_of(t):
  if t[0] == 'atom':
    return 0
  if t[0] == 'paren':
    return 1 + depth_of(t[1])
  if t[0] == 'dict':
    return 1 + max([depth_of(v) for _, v in t[1]] + [0])
  return 1 + max([depth_of(x) for x in t[1]] + [0])


def has_multi(t):
  if t[0] == 'atom':
    return isinstance(t[1], tuple) and len(t[1][1]) >= 2
  if t[0] == 'paren':
    return has_multi(t[1])
  if t[0] == 'dict':
    return any(has_multi(v) or has_multi(k) for k, v in t[1])
  return any(has_multi(x) for x in t[1])


def has_tag(c, tags):
  if isinstance(c, T):
    return c.tag in tags or any(has_tag(a, tags) for a in c.args)
  if isinstance(c, list):
    return any(has_tag(a, tags) for a in c)
  return False


def has_gin_syntax(c):
  return has_tag(c, ('Ref', 'Macro'))


def text_has_gin_syntax(text):
  """a '@' or '%' operator token in the text: gin's own value syntax, even where the reference does not show in the value
  any more (an item of a dict literal that a later equal key replaced)"""
  return any(t[0] == 'OP' and t[1] in ('@', '%') for t in P.tokens_of(text))


class ValueEngine(Engine):
  name = 'parser-value'
  imports = 'Model.Parser'
  run_fn = 'run_stmts'

  def budget(self, tier):
    return 3000 if tier == 'quick' else 100000

  def corpus(self):
    return [{'kind': 'fixed', 'text': t} for t in FIXED_NEAR_MISSES]

  def gen(self, rng, tier):
    special = rng.random() < 0.08
    t = gen_tree(rng, rng.choice([1, 2, 3]) if special else rng.choice([0, 1, 2, 3, 4, 5]), special)
    text = render(rng, t)
    for _ in range(5):
      if special or P.lit_eval(text) is not None:
        break
      t = gen_tree(rng, 2)
      text = render(rng, t)
    nontriv = (depth_of(t) >= 2 and any(c in text for c in '\n#')) or has_multi(t)
    if rng.random() < 0.35:
      chars = "[](){},:'\"+-*1a. \\#\n_e%@/="
      i = rng.randrange(len(text) + 1)
      r = rng.random()
      if r < 0.4 and text:
        text2 = text[:i] + text[i + 1:]
      elif r < 0.8:
        text2 = text[:i] + rng.choice(chars) + text[i:]
      else:
        text2 = text[:i] + rng.choice(chars) + text[i + 1:]
      return {'kind': 'mutated', 'text': text2, 'nt': True}
    return {'kind': 'grammar', 'text': text, 'nt': nontriv}

  def to_coq(self, case):
    return P.coq_input('x.p = ' + case['text'])

  def shrink(self, case):
    t = case['text']
    for i in range(len(t)):
      yield {'kind': 'mutated' if case['kind'] != 'grammar' else 'shrunk-grammar', 'text': t[:i] + t[i + 1:], 'nt': True}

  def impl(self, case):
    gin = C.cached_gin()
    text = case['text']
    if not P.coq_safe(text):
      text = text.replace('\x00', '0').replace('\r', ' ')
      case['text'] = text
    obs = P.run_statements(gin, 'x.p = ' + text)
    fails, tags = [], [case['kind']]
    ref = P.lit_eval(text)
    accepted = len(obs) == 1 and obs[0].tag == 'Bind' and (obs[0].args[0], obs[0].args[1], obs[0].args[2]) == ('', 'x', 'p')
    if accepted and (has_gin_syntax(obs[0].args[3]) or text_has_gin_syntax(text)):
      tags.append('reference-or-macro')      # gin's own value syntax: outside the literal grammar, not judged
    elif accepted:
      v = obs[0].args[3]
      tags.append('accepted')
      if ref is None:
        fails.append(('accepted-non-literal', 'text %r parsed to %r but Python cannot evaluate it as a literal' % (text, C.jsonable(v))))
      elif v != ref:
        fails.append(('parsed-to-different-value', 'text %r parsed to %r, Python evaluates it to %r' %
                      (text, C.jsonable(v), C.jsonable(ref))))
    else:
      tags.append('rejected')
      if ref is not None and (case['kind'] == 'grammar' or (
          case['kind'] == 'shrunk-grammar' and '+' not in text and not has_tag(ref, ('set', 'ellipsis', 'complex')))):
        fails.append(('valid-literal-rejected', 'text %r (= %r in Python) was rejected: %r' %
                      (text, C.jsonable(ref), C.jsonable(obs))))
      last = obs[-1] if obs else None
      if isinstance(last, T) and last.tag == 'Err' and last.args[0] not in ('TokenError', 'TypeError'):
        fails.append(('wrong-rejection-class', 'text %r rejected with %s' % (text, last.args[0])))
      if len(obs) >= 2 or (obs and obs[0].tag == 'Bind' and not accepted):
        tags.append('split-into-statements')
    return {'obs': obs, 'fails': fails, 'nontrivial': bool(case.get('nt')), 'tags': tags}


EQUAL_FAMILIES = [['1', '1.0', 'True', '1e0', '(1)'], ['0', '0.0', '-0.0', 'False', '-0'], ['[1, 0]', '[True, 0.0]', '[1.0, False]'],
                  ['(1, 2)', '(1.0, 2)', '(True, 2.0)'], ["{'k': 1}", "{'k': True}", "{'k': 1.0}"], ['2', '2.0'], ["'a'", "u'a'", "'' 'a'"],
                  ['[]', '()', '{}'], ['None', '0', "''"]]


class ApiEngine(ValueEngine):
  """the single-value entry point gin.config.parse_value(text) (what _format_value uses to decide representability):
  the same generated literals / near misses, plus literals followed by trailing junk, WITHOUT a statement around them"""
  name = 'parse-value-api'
  run_fn = 'run_value_api'

  def budget(self, tier):
    return 1500 if tier == 'quick' else 40000

  def corpus(self):
    return [{'kind': 'fixed', 'text': t} for t in FIXED_NEAR_MISSES] + [
        {'kind': 'fixed', 'text': t} for t in ('1 + 2', '[1] * 3', "'a'.upper()", '1 if False else 2', '1, 2', '[1][0]', '1 2', "{'a': 1} x",
                                               '1\n', '1 # c\n', '[1,\n 2]\n\n# c\n', '1\n2', '(1)\n+ 2', '1;', 'None or 1', '1\n\n  \n')]

  def gen(self, rng, tier):
    case = super().gen(rng, tier)
    if rng.random() < 0.25:
      junk = rng.choice([' + 2', ' * 3', '.x', ' if 1 else 2', ', 2', '[0]', ' 2', ' x', '\n2', ';', ' or 1', '\n# c\n', '\n\n', ' # c', '\n  \n'])
      return {'kind': 'mutated', 'text': case['text'] + junk, 'nt': True}
    return case

  def to_coq(self, case):
    return P.coq_input(case['text'])

  def impl(self, case):
    gin = C.cached_gin()
    cfg = gin.config
    text = case['text']
    if not P.coq_safe(text):
      text = text.replace('\x00', '0').replace('\r', ' ')
      case['text'] = text
    cp = gin.config_parser

    class Delegate(cp.ParserDelegate):
      def configurable_reference(self, scoped_configurable_name, evaluate):
        return T('Ref', scoped_configurable_name, bool(evaluate))

      def macro(self, macro_name):
        return T('Macro', macro_name)

    def canon(v):
      if isinstance(v, T):
        return v
      if isinstance(v, list):
        return T('L', *[canon(x) for x in v])
      if isinstance(v, tuple):
        return T('T', *[canon(x) for x in v])
      if isinstance(v, dict):
        return T('D', *[[canon(k), canon(x)] for k, x in v.items()])
      return P.canon_lit(v)
    real = cfg.ParserDelegate
    cfg.ParserDelegate = lambda *a, **k: Delegate()
    import warnings
    warnings.simplefilter('ignore')
    try:
      try:
        obs = T('Value', canon(cfg.parse_value(text)))
      except SyntaxError as e:
        obs = T('SyntaxError', e.lineno or 0)
      except Exception as e:  # pylint: disable=broad-except
        obs = T('Err', type(e).__name__)
    finally:
      cfg.ParserDelegate = real
    fails, tags = [], [case['kind']]
    ref = P.lit_eval(text)
    if obs.tag == 'Value' and (has_gin_syntax(obs.args[0]) or text_has_gin_syntax(text)):
      tags.append('reference-or-macro')
    elif obs.tag == 'Value':
      tags.append('accepted')
      if ref is None:
        fails.append(('accepted-non-literal', 'parse_value(%r) returned %r but Python cannot evaluate that text as a literal' %
                      (text, C.jsonable(obs.args[0]))))
      elif obs.args[0] != ref:
        fails.append(('parsed-to-different-value', 'parse_value(%r) returned %r, Python evaluates the text to %r' %
                      (text, C.jsonable(obs.args[0]), C.jsonable(ref))))
    else:
      tags.append('rejected')
      if ref is not None and case['kind'] == 'grammar':
        fails.append(('valid-literal-rejected', 'parse_value(%r) (= %r in Python) was rejected: %r' % (text, C.jsonable(ref), C.jsonable(obs))))
      if obs.tag == 'Err' and obs.args[0] not in ('TokenError', 'TypeError'):
        fails.append(('wrong-rejection-class', 'parse_value(%r) rejected with %s' % (text, obs.args[0])))
    return {'obs': obs, 'fails': fails, 'nontrivial': bool(case.get('nt')), 'tags': tags}


class StoreEngine(Engine):
  """'is stored as the value, OF THE SAME TYPE, that Python evaluates that text to': a key bound several times (in one
  text or in successive parses) to literals that compare equal but differ in type or sign of zero; what the store
  holds afterwards is the LAST literal's value, type included."""
  name = 'literal-store'
  imports = 'Model.SelectorMap Model.Parser Model.Stmt'
  run_fn = 'Stmt.run'
  REGS = [{'sel': 'm.f', 'args': ['a', 'b'], 'varkw': False, 'allow': [], 'deny': []}]

  def budget(self, tier):
    return 120 if tier == 'quick' else 3000

  def corpus(self):
    return [{'calls': [[['a', '1'], ['a', '1.0']]]}, {'calls': [[['a', '0.0']], [['a', '-0.0']], [['b', 'True'], ['b', '1']]]}]

  def gen(self, rng, tier):
    calls = []
    for _ in range(rng.randint(1, 3)):
      fam = rng.choice(EQUAL_FAMILIES)
      calls.append([[rng.choice(['a', 'a', 'b']), rng.choice(fam)] for _ in range(rng.randint(1, 4))])
    return {'calls': calls}

  def case(self, c):
    return {'regs': self.REGS, 'consts': [], 'files': [{}], 'prefixes': [''], 'modules': [],
            'calls': [['text', ''.join('f.%s = %s\n' % (p, v) for p, v in call), None] for call in c['calls']]}

  def to_coq(self, c):
    from harness import textm
    return textm.case_coq(self.case(c))

  def shrink(self, c):
    for i in range(len(c['calls'])):
      yield {'calls': c['calls'][:i] + c['calls'][i + 1:]}
      for j in range(len(c['calls'][i])):
        yield {'calls': c['calls'][:i] + [c['calls'][i][:j] + c['calls'][i][j + 1:]] + c['calls'][i + 1:]}

  def impl(self, c):
    from harness import textm
    m = textm.TextMachine(self.case(c))
    fails = []
    try:
      obs, _ = m.run()
      got = {p: v for _, _, pd in obs[len(c['calls'])] for p, v in pd}
    finally:
      m.close()
    want = {}
    for call in c['calls']:
      for p, v in call:
        want[p] = P.lit_eval(v)
    for p in want:
      if C.jsonable(got.get(p)) != C.jsonable(want[p]):
        fails.append(('stored-value-differs-from-python', 'f.%s: the last literal evaluates to %r, the store holds %r (history %r)' %
                      (p, C.jsonable(want[p]), C.jsonable(got.get(p)), c['calls'])))
    rebinds = sum(len(call) for call in c['calls']) > len(want)
    return {'obs': obs, 'fails': fails[:2], 'nontrivial': rebinds, 'tags': ['calls%d' % len(c['calls'])]}


# Python's three physical line terminators (language reference 2.1.2: LF, CR LF, and a lone CR)
LINE_BREAKS = ['\n', '\r\n', '\r']
CR_LITERALS = ['[1,\r2]', '[\r]', '[1\r, 2]', '(1,\r)', '[1, # one\r 2]', '{1\r: 2}', "['a'\r 'b']", '(\r-\r1)', '{\r}', '[1,\r\n2\r\n]',
               '[\r\n]', "{'k':\r[1,\r\n 2],\n}", '[\r  [1, 2],\r  [3, 4],\r]', '["""a\rb""", \\\r 2]', '[1,\r\r2]', '((\r1,\r),\r)']
CR_NEAR_MISSES = ["'a\rb'", "['a\rb']", '[1\r', '[1\r2]', '[1,\r2]]', '[1 +\r2]', '(\r)\r1']


class LineBreakEngine(Engine):
  """'with comments and line breaks inside brackets ... in every layout': generator A's literals with every line break
  of the layout spelled in one of the three ways Python reads a line break (LF, CR LF, lone CR), given to the parser the
  three ways a text reaches it without a text-mode file translating the line ends first (a config string, a binary
  file-like, gin.config.parse_value).  Each must give what ast.literal_eval gives for that very text; texts Python
  rejects must be rejected.  Implementation only: texts containing CR are not sent to the Coq model (ASSUMPTIONS)."""
  name = 'line-break-forms'
  model = False
  rule = ('line-break-forms: generator A literals (depth 1-4) whose line breaks inside brackets (and inside triple-quoted '
          'pieces / continuations) are each spelled LF, CR LF or CR at random, at least one of them not LF; routes: '
          '"x.p = <text>" as a string, the same as a binary file-like, gin.config.parse_value(<text>); judged against '
          'ast.literal_eval(<text>). non-trivial = a CR or CR LF line break inside a bracket.')

  def budget(self, tier):
    return 400 if tier == 'quick' else 20000

  def corpus(self):
    return ([{'kind': 'grammar', 'text': t} for t in CR_LITERALS] + [{'kind': 'near-miss', 'text': t} for t in CR_NEAR_MISSES])

  def gen(self, rng, tier):
    for _ in range(40):
      t = gen_tree(rng, rng.choice([1, 2, 3, 4]))
      if t[0] == 'atom':
        t = (rng.choice(['list', 'tuple']), [t, gen_tree(rng, 1)])
      text = render(rng, t)
      n = text.count('\n')
      if not n:
        continue
      forced = rng.randrange(n)
      parts = text.split('\n')
      out = parts[0]
      for i, part in enumerate(parts[1:]):
        out += (rng.choice(LINE_BREAKS[1:]) if i == forced else rng.choice(LINE_BREAKS)) + part
      if P.lit_eval(out) is not None:
        return {'kind': 'grammar', 'text': out}
    return {'kind': 'grammar', 'text': '[1,\r2,\r\n3]'}

  def shrink(self, case):
    t = case['text']
    for i in range(len(t)):
      cand = t[:i] + t[i + 1:]
      if '\r' in cand and (P.lit_eval(cand) is not None) == (case['kind'] == 'grammar'):
        yield {'kind': case['kind'], 'text': cand}

  def routes(self, gin, text):
    import io
    import warnings
    warnings.simplefilter('ignore')

    def statement(source):
      obs = P.run_statements(gin, source)
      if len(obs) == 1 and obs[0].tag == 'Bind' and tuple(obs[0].args[:3]) == ('', 'x', 'p'):
        return T('Value', obs[0].args[3])
      return T('Rejected', obs)

    def api():
      try:
        return T('Value', P.canon_lit(gin.config.parse_value(text)))
      except SyntaxError as e:
        return T('Rejected', [T('SyntaxError', e.lineno or 0)])
      except Exception as e:  # pylint: disable=broad-except
        return T('Rejected', [T('Err', type(e).__name__)])
    return [('config-string', statement('x.p = ' + text)), ('binary-file', statement(io.BytesIO(('x.p = ' + text).encode('utf8')))),
            ('parse_value', api())]

  def impl(self, case):
    gin = C.cached_gin()
    text = case['text']
    ref = P.lit_eval(text)
    fails, obs = [], []
    for route, got in self.routes(gin, text):
      obs.append([route, got])
      if case['kind'] == 'grammar' and ref is not None:
        if got.tag != 'Value':
          lf = dict(self.routes(gin, text.replace('\r\n', '\n').replace('\r', '\n')))[route]
          fails.append(('line-break-form-rejected', '%s: %r (= %r in Python) was rejected: %r; with every line break written LF: %r' %
                        (route, text, C.jsonable(ref), C.jsonable(got), C.jsonable(lf))))
        elif got.args[0] != ref:
          fails.append(('line-break-form-different-value', '%s: %r gave %r, Python evaluates it to %r' %
                        (route, text, C.jsonable(got.args[0]), C.jsonable(ref))))
      elif ref is None:
        last = got.args[0][-1] if got.tag == 'Rejected' and got.args[0] else None
        if got.tag == 'Value':
          fails.append(('accepted-non-literal', '%s: %r gave %r but Python cannot evaluate it as a literal' %
                        (route, text, C.jsonable(got.args[0]))))
        elif isinstance(last, T) and last.tag == 'Err' and last.args[0] not in ('TokenError', 'TypeError'):
          fails.append(('wrong-rejection-class', '%s: %r rejected with %s' % (route, text, last.args[0])))
    depth, nontrivial = 0, False
    for ch in text:
      depth += (ch in '([{') - (ch in ')]}')
      nontrivial = nontrivial or (ch == '\r' and depth > 0)
    tags = [case['kind']] + (['CRLF'] if '\r\n' in text else []) + (['CR'] if '\r' in text.replace('\r\n', '') else [])
    return {'obs': obs, 'fails': fails[:3], 'nontrivial': nontrivial, 'tags': tags}


ENGINES = [ValueEngine(), ApiEngine(), StoreEngine(), LineBreakEngine()]
