"""C01 — injected arguments: caller's values over scope-layered bindings."""
from harness import common as C
from harness import ginm
from harness.common import T
from harness.main import Engine

PID = 'C01'
LEVEL = 'proof'
RULE = ('gin-machine/call: 1-4 probe configurables with generated signatures (positional, defaulted, '
        '*args, keyword-only, **kwargs), 0-12 bindings over scopes of depth 0-4 from 3 scope names '
        '(prefixes, non-prefixes, permutations), calls under nested config_scope blocks (string, a/b '
        'shorthand, list) with every parameter passed positionally / by keyword / omitted. '
        'non-trivial = active scope depth >= 2 with a binding at >= 2 different prefixes of it for the '
        'called configurable AND a caller-supplied parameter that also has an applicable binding. '
        'callable-shapes (implementation only): one probe whose signature Gin must look for (under 1-2 functools.wraps '
        'decorators; a configurable / registered class inheriting the __init__ of a configurable base class; bound method, '
        'class method, static method, callable object through external_configurable; metaclass-wrapped classes with '
        'constructor parameters named like parameters of Gin\'s own wrappers), 1-5 bindings over prefixes / non-prefixes '
        'of the active scope, every split positional / keyword / omitted; expectation from the property text. '
        'registered-methods (implementation only): 1-3 @gin.register methods (instance / static; positional, defaulted, *args, '
        'keyword-only, **kwargs) defined by the registered class or inherited from an unregistered base / grand-base class, '
        '0-7 bindings under the provisional selector over any number of scopes before the class is registered, 0-4 under '
        '<Class>.<method> after it, calls on an instance (direct / made by a @Class() reference), through the configurable '
        'class and through the method\'s own configurable before the class registration; expectation from the property text. '
        'call-histories (implementation only): one probe of 10 callable shapes with positional / defaulted / *args / keyword-only / '
        '**kwargs parameters (some defaulting to gin.REQUIRED), a history of 0-8 bindings (prefixes / non-prefixes of the active '
        'scopes) interleaved with 2-9 calls, some made before the configuration is complete and therefore refused (REQUIRED marker '
        'without binding, parameter without value, unknown keyword, surplus positional); caller\'s values are objects whose identity '
        'is observable (list, dict, object, own __deepcopy__, forwarded ConfigurableReference, lock, generator) passed positionally, '
        'into *args, by keyword, into **kwargs; for every call of the history the function must receive the very object the caller '
        'passed, else the longest-prefix binding, else the default, whatever earlier calls did. non-trivial = a served call with a '
        'caller value, a parameter supplied by a binding, and either an identity-observable keyword value or an earlier refused call.')
TRUSTED_BASE = [
    'Coq 8.16.1 kernel; vm_compute in Examples and in the correspondence run; no native_compute',
    'axioms: none expected (see print_assumptions)',
    'hand-written model coq/Model/{Values,Gin,GinEngine}.v of gin/config.py:1118-1250,1381-1398,1504-1607; tied to /repo by harness/ginm.py + harness/props/c01.py',
    'inspect.getfullargspec / functools.wraps are not modelled: the generated signature is given to the model and realised as a real def on the Python side',
]
ASSUMPTIONS = ['probe functions are plain defs; class/method shapes reduce to the function case (self occupies position 0)']


def canon_plain(v):
  t = v[0]
  if t == 'n':
    return None
  if t in ('b', 'i', 's'):
    return v[1]
  if t == 'l':
    return T('L', *[canon_plain(x) for x in v[1]])
  if t == 't':
    return T('T', *[canon_plain(x) for x in v[1]])
  if t == 'd':
    return T('D', *[[canon_plain(k), canon_plain(x)] for k, x in v[1]])
  if t == 'req':
    return T('REQUIRED')
  if t == 'obj':
    return T('Obj', v[1])
  return T('?')


def has_ref(c):
  if isinstance(c, T):
    return c.tag in ('Ref', 'Unk') or any(has_ref(a) for a in c.args)
  if isinstance(c, list):
    return any(has_ref(a) for a in c)
  return False


def overlay_spec(config_dump, scope, sel):
  """longest-prefix rule, written from the property text"""
  store = {(s, q): dict((p, v) for p, v in pd) for s, q, pd in config_dump}
  out = {}
  for i in range(len(scope) + 1):        # shorter prefixes first, longer ones override
    d = store.get(('/'.join(scope[:i]), sel), {})
    for p, v in d.items():
      out[p] = v
  return out


def check_call(ctx, regs_by_sel, own):
  """own: the probe record [sel, scope, env, n] of this call or None. returns list of fails"""
  c = regs_by_sel[ctx['sel']]
  sg = c['sig']
  args, kwargs = ctx['args'], dict((k, v) for k, v in ctx['kwargs'])
  if any(a == ['req'] for a in args) or any(v == ['req'] for v in kwargs.values()):
    return []   # REQUIRED handling is C10's
  names = sg['args']
  kwonly = [n for n, _ in sg['kwonly']]
  nd = len(sg['defaults'])
  dflt = {a: d for a, d in zip(names[len(names) - nd:], sg['defaults'])}
  dflt.update({n: d for n, d in sg['kwonly'] if d is not None})
  if any(d == ['req'] for d in dflt.values()):
    return []
  bound = overlay_spec(ctx['config'], ctx['scope'], ctx['sel'])
  exp, why = {}, {}
  ok = True
  npos = min(len(args), len(names))
  for i in range(npos):
    exp[names[i]] = canon_plain(args[i]); why[names[i]] = 'caller-positional'
  surplus = [canon_plain(a) for a in args[len(names):]]
  if surplus and not sg['varargs']:
    ok = False
  extra = {}
  for k, v in kwargs.items():
    if k in names or k in kwonly:
      if k in exp:
        ok = False        # the caller itself passes it twice
      exp[k] = canon_plain(v); why[k] = 'caller-keyword'
    elif sg['varkw']:
      extra[k] = canon_plain(v)
    else:
      ok = False
  for p, v in bound.items():
    if p in names or p in kwonly:
      if p not in exp:
        exp[p] = v; why[p] = 'binding'
    elif sg['varkw'] and p not in extra:
      extra[p] = v
  for p in names + kwonly:
    if p not in exp:
      if p in dflt:
        exp[p] = canon_plain(dflt[p]); why[p] = 'default'
      else:
        ok = False
  fails = []
  err = ctx.get('error')
  nested_ref = any(has_ref(v) for v in bound.values())
  if err is not None:
    if ok and err == 'TypeError' and not nested_ref:
      fails.append(('spurious-typeerror', 'call %s args=%r kwargs=%r in scope %r raised TypeError although every '
                    'parameter has a value (bindings %r)' % (ctx['sel'], args, ctx['kwargs'], ctx['scope'], bound)))
    if ok and err == 'ValueError' and not nested_ref:
      # nothing the caller passed is gin.REQUIRED and every parameter has a value: gin has no ground to refuse the call
      # (an argument's own __eq__ may answer True to anything: comparing it with a marker by == is gin's mistake)
      fails.append(('spurious-valueerror', 'call %s args=%r kwargs=%r in scope %r raised ValueError although no argument '
                    'is the REQUIRED marker and every parameter has a value (bindings %r)' %
                    (ctx['sel'], args, ctx['kwargs'], ctx['scope'], bound)))
    return fails
  if own is None or own[0] != ctx['sel']:
    return [('no-call-record', 'call to %s returned but the function body did not run' % ctx['sel'])]
  if not ok:
    return [('call-should-fail', 'call %s args=%r kwargs=%r succeeded although Python binding cannot' %
             (ctx['sel'], args, ctx['kwargs']))]
  env = {k: v for k, v in own[2]}
  if own[1] != ctx['scope']:
    fails.append(('scope-at-call', 'body ran under scope %r, caller scope %r' % (own[1], ctx['scope'])))
  for p, v in exp.items():
    if has_ref(v):
      continue
    if not C.strict_eq(env.get(p, '<absent>'), v):
      fails.append(('wrong-argument', 'parameter %r of %s under scope %r: function saw %r, expected %r (%s); '
                    'args=%r kwargs=%r store=%r' % (p, ctx['sel'], ctx['scope'], env.get(p, '<absent>'), v,
                                                   why[p], args, ctx['kwargs'], ctx['config'])))
      break
  if sg['varargs'] and env.get('*') != T('T', *surplus):
    fails.append(('wrong-varargs', 'saw %r expected %r' % (env.get('*'), surplus)))
  if sg['varkw']:
    got = {k: v for k, v in (env.get('**').args if isinstance(env.get('**'), T) else [])}
    want = {k: v for k, v in extra.items() if not has_ref(v)}
    if any(got.get(k, '<absent>') != v for k, v in want.items()) or set(got) != set(extra):
      fails.append(('wrong-varkw', 'saw %r expected %r' % (got, extra)))
  return fails


class CallEngine(Engine):
  name = 'gin-call'
  imports = 'Model.SelectorMap Model.Values Model.Gin Model.GinEngine'
  run_fn = 'run'
  allow_req = False

  def budget(self, tier):
    return 1200 if tier == 'quick' else 30000

  def corpus(self):
    f = {'sel': 'm.f', 'sig': {'args': ['a', 'b'], 'defaults': [['i', 7]], 'varargs': False,
                               'kwonly': [['k1', ['i', 1]]], 'varkw': False}, 'allow': [], 'deny': []}
    return [{'regs': [f], 'ops': [
        ['bind', 'f.a', ['i', 1]], ['bind', 's1/f.a', ['i', 2]], ['bind', 's1/s2/f.b', ['i', 3]],
        ['bind', 's2/f.a', ['i', 99]], ['bind', 's2/s1/f.b', ['i', 98]],
        ['with', 's1', [['with', 's2', [['call', 'm.f', [], []], ['call', 'm.f', [['i', 5]], []],
                                        ['call', 'm.f', [], [['b', ['i', 6]]]]]]]],
        ['with', 's1/s2', [['call', 'm.f', [], [['k1', ['i', 4]]]]]],
        ['with', ['s2'], [['call', 'm.f', [], []]]],
        ['call', 'm.f', [], []], ['dumpcalls'], ['dumpconfig'], ['dumpoper']]},
            {'regs': [{'sel': 'm.v', 'sig': {'args': ['a'], 'defaults': [], 'varargs': True, 'kwonly': [], 'varkw': True},
                       'allow': [], 'deny': []}],
             'ops': [['bind', 'v.a', ['i', 1]],
                     ['call', 'm.v', [['i', 0], ['obj', 'ANY']], []], ['call', 'm.v', [['obj', 'ANY'], ['i', 2], ['obj', 'ANY']], []],
                     ['call', 'm.v', [], [['z', ['obj', 'ANY']]]], ['call', 'm.v', [], [['a', ['obj', 'ANY']]]], ['dumpcalls']]}]

  def gen_value(self, rng, regs):
    if rng.random() < 0.04:
      return ['obj', 'ITER']       # an iterable only its consumer may walk (a generator, a 0-d array): bound and delivered untouched
    if rng.random() < 0.06:
      # a dict literal with keys that are equal in Python (one entry) or, rarely, cannot be hashed (TypeError at the parse)
      d = ginm.gen_pydict(rng)
      return d if rng.random() < 0.6 else ['l', [['i', 0], d]]
    return ginm.gen_plain(rng, 2)

  def gen_call(self, rng, c):
    sg = c['sig']
    args, kwargs = [], []
    positional = True
    for p in sg['args']:
      r = rng.random()
      if positional and r < 0.4:
        args.append(self.gen_arg(rng))
      else:
        positional = False
        if r < 0.65:
          kwargs.append([p, self.gen_arg(rng)])
    if sg['varargs'] and positional and rng.random() < 0.5:
      args += [self.gen_arg(rng) for _ in range(rng.randint(1, 2))]
    elif positional and rng.random() < 0.04:
      args.append(self.gen_arg(rng))   # too many positionals
    for n, _ in sg['kwonly']:
      if rng.random() < 0.4:
        kwargs.append([n, self.gen_arg(rng)])
    if rng.random() < (0.4 if sg['varkw'] else 0.03):
      kwargs.append([rng.choice(['z', 'y']), self.gen_arg(rng)])
    rng.shuffle(kwargs)
    return ['call', c['sel'], args, kwargs]

  def gen_arg(self, rng):
    if rng.random() < 0.06:
      return ['obj', 'ANY']       # an argument whose __eq__ answers True to everything (unittest.mock.ANY, symbolic objects)
    return ginm.gen_plain(rng, 1)

  def gen(self, rng, tier):
    regs = ginm.gen_regs(rng, lists=0.15, allow_req=self.allow_req, shapes=True, methods=0.3)
    ops = []
    active = ginm.gen_scope(rng, 3)
    for _ in range(rng.randint(0, 12)):
      c = rng.choice(regs)
      names = ginm.sig_names(c['sig']) + (['z', 'y'] if c['sig']['varkw'] else []) or ['a']
      p = rng.choice(names) if rng.random() < 0.95 else 'nope'
      r = rng.random()
      if r < 0.6 and active:
        sc = active[:rng.randint(0, len(active))]           # a prefix of the active scope
      elif r < 0.8:
        sc = ginm.gen_scope(rng, 3)
      else:
        sc = list(active)
        rng.shuffle(sc)                                     # a permutation: usually not a prefix
      sel = rng.choice(ginm.spellings(c['sel'], regs))
      key = '/'.join(sc + [sel + '.' + p])
      v = self.gen_value(rng, regs)
      kind = rng.random()
      if ginm.has_unhashable_key(v):
        kind = 0.6            # such a value exists as TEXT only: through the parser, which raises TypeError
      if kind < 0.5:
        ops.append(['bind', key, v])
      elif kind < 0.75 and ginm.textable(v):
        ops.append(['pbind', key, v])
      else:
        ops.append(['bindt', '/'.join(sc), sel, p, v])
    calls = [self.gen_call(rng, rng.choice(regs)) for _ in range(rng.randint(1, 4))]
    body = calls + [['curscope']]
    if rng.random() < 0.5:
      # re-bind under a prefix of the active scope AFTER the first calls, then call again
      for _ in range(rng.randint(1, 3)):
        c = rng.choice(regs)
        names = ginm.sig_names(c['sig']) or ['a']
        sc = active[:rng.randint(0, len(active))]
        body.append(['bind', '/'.join(sc + [rng.choice(ginm.spellings(c['sel'], regs)) + '.' + rng.choice(names)]),
                     self.gen_value(rng, regs)])
      if active and rng.random() < 0.3:
        # an attempt to open an invalid scope inside the block: rejected, and the enclosing scope stays active
        body.append(['with', rng.choice(['1x', 'a b', ['s1', 'b b'], 's1//s2', {}]), [['curscope']]])
      body += [self.gen_call(rng, rng.choice(regs)) for _ in range(rng.randint(1, 3))] + list(calls[:2])
    # enter `active` through a random mix of forms
    rest = list(active)
    chunks = []
    while rest:
      k = rng.randint(1, len(rest))
      chunks.append(rest[:k])
      rest = rest[k:]
    for i in range(len(chunks) - 1, -1, -1):
      ch = chunks[i]
      form = rng.random()
      if form < 0.2:
        arg = sum(chunks[:i + 1], [])          # list form replaces the scope with the full prefix
      else:
        arg = '/'.join(ch)
      body = [['with', arg, body]]
      if i > 0 and rng.random() < 0.2:
        body = body + [self.gen_call(rng, rng.choice(regs))]
    ops += body
    if rng.random() < 0.5:
      ops.append(self.gen_call(rng, rng.choice(regs)))
    ops += [['dumpcalls'], ['dumpconfig'], ['dumpoper']]
    return {'regs': regs, 'ops': ops}

  def to_coq(self, case):
    return ginm.case_coq(case)

  def shrink(self, case):
    return ginm.shrink_case(case)

  def impl(self, case):
    m = ginm.Machine()
    obs = m.run(case)
    regs_by_sel = {c['sel']: c for c in case['regs']}
    fails, nontrivial, tags = [], False, []
    for ctx in m.calls:
      own = m.log[ctx['log_end'] - 1] if ctx['log_end'] > ctx['log_start'] else None
      if ctx['sel'] in regs_by_sel:
        fails += self.check(ctx, regs_by_sel, own, m)
        nontrivial = nontrivial or self.nontrivial(ctx, regs_by_sel)
      tags.append('depth%d' % len(ctx['scope']))
      tags.append('err:' + ctx['error'].split(':')[0] if 'error' in ctx else 'ok')
    fails = m.readback_fails() + m.constant_fails() + fails
    return {'obs': obs, 'fails': fails[:3], 'nontrivial': nontrivial, 'tags': tags}

  def check(self, ctx, regs_by_sel, own, m):
    return check_call(ctx, regs_by_sel, own)

  def nontrivial(self, ctx, regs_by_sel):
    if len(ctx['scope']) < 2:
      return False
    levels = [i for i in range(len(ctx['scope']) + 1)
              if any(s == '/'.join(ctx['scope'][:i]) and q == ctx['sel'] for s, q, _ in ctx['config'])]
    bound = overlay_spec(ctx['config'], ctx['scope'], ctx['sel'])
    sg = regs_by_sel[ctx['sel']]['sig']
    supplied = set(sg['args'][:len(ctx['args'])]) | {k for k, _ in ctx['kwargs']}
    return len(levels) >= 2 and bool(supplied & set(bound))


class LateClassEngine(Engine):
  """a method registered on its own (@gin.register in the class body) whose class is registered LATER, possibly after the
  method's configurable has already been called: from then on the bindings made through <Class>.<method> (root and scoped,
  longest prefix wins) are what the method receives, the caller's own values still win.  Implementation only: the Gin-machine
  model registers everything up front."""
  name = 'late-class-registration'
  model = False

  def budget(self, tier):
    return 0

  def corpus(self):
    return [{'api': a, 'call_before': c, 'bind_before': b, 'static': st}
            for a in ('register', 'external') for c in (False, True) for b in (False, True) for st in (False, True)]

  def gen(self, rng, tier):
    return self.corpus()[0]

  def impl(self, case):
    gin = C.fresh_gin()
    fails = []
    ns = {'gin': gin, '__name__': 'c01mod'}
    deco = '  @staticmethod\n' if case['static'] else ''
    first = '' if case['static'] else 'self, '
    exec('class K:\n%s  @gin.register\n  def meth(%sx=1, y=2):\n    return (x, y)\n' % (deco, first), ns)  # pylint: disable=exec-used
    K = ns['K']
    call0 = (lambda **kw: gin.get_configurable(K.meth)(**kw)) if case['static'] else (lambda **kw: gin.get_configurable(K.meth)(K(), **kw))
    if case['bind_before']:
      gin.bind_parameter('c01mod.meth.x', 7)
    if case['call_before']:
      got = call0()
      if got != ((7 if case['bind_before'] else 1), 2):
        fails.append(('provisional-binding-not-injected', repr(got)))
    if case['api'] == 'register':
      gin.register(K, module='c01pkg')
    else:
      gin.external_configurable(K, module='c01pkg')
    if not case['bind_before']:
      gin.bind_parameter('K.meth.x', 7)
    gin.bind_parameter('s1/c01pkg.K.meth.x', 8)
    gin.bind_parameter('s1/s2/K.meth.y', 9)
    gin.bind_parameter('s2/K.meth.y', 99)
    inst = gin.get_configurable(K)()
    for scope, kw, want in (('', {}, (7, 2)), ('s1', {}, (8, 2)), ('s1/s2', {}, (8, 9)), ('s1/s2', {'x': 0}, (0, 9)),
                            ('s2/s1', {}, (7, 99)), ('s3/s2', {}, (7, 2)), ('s3', {'y': 5}, (7, 5))):
      try:
        with gin.config_scope(scope or None):
          got = inst.meth(**kw)
      except Exception as e:  # pylint: disable=broad-except
        got = 'raised %s: %s' % (type(e).__name__, str(e)[:100])
      if got != want:
        fails.append(('wrong-argument', 'K.meth%r under scope %r (class registered %s the first call of the method): received %r, '
                      'the bindings K.meth.x=7, s1/K.meth.x=8, s1/s2/K.meth.y=9, s2/K.meth.y=99 require %r' %
                      (kw, scope, 'after' if case['call_before'] else 'before', got, want)))
    return {'obs': T('Done'), 'fails': fails[:3], 'nontrivial': True, 'tags': [case['api']]}


# ----------------------------------------------------------------------------
# callable shapes whose signature Gin has to look for: behind a decorator, behind its own wrapper of a base class, behind an
# already bound self / cls; and constructor parameters named like a parameter of one of Gin's own wrappers

SHAPES = ['fn', 'cfg_class', 'ext_class', 'reg_class', 'sub_cfg', 'subsub_cfg', 'sub_ext', 'sub_reg', 'decorated1', 'decorated2',
          'bound_method', 'class_method', 'static_method', 'callable_instance']
CLASS_SHAPES = ('cfg_class', 'ext_class', 'reg_class', 'sub_cfg', 'subsub_cfg', 'sub_ext', 'sub_reg')
# ordinary names, and names Gin's own wrappers use for their parameters / locals (config.py: meta_call_wrapper, gin_wrapper)
PARAM_SETS = [['a', 'b', 'c'], ['a', 'b'], ['x'], ['new_cls', 'other'], ['a', 'new_cls'], ['fn', 'cls_meta', 'new_kwargs']]
SHAPE_MODULE = 'shapesmod'


def build_shape(gin, shape, params, required=0):
  """registers one probe configurable `shapesmod.probe` of the given shape whose parameters are `params` (the first `required`
  without default, the others defaulting to 'default:<p>').  returns call(*args, **kwargs) -> {param: value received}."""
  sig = ', '.join(p if i < required else "%s='default:%s'" % (p, p) for i, p in enumerate(params))
  env = 'dict(%s)' % ', '.join('%s=%s' % (p, p) for p in params)
  ns = {'gin': gin, '__name__': SHAPE_MODULE}
  src = ('import functools\n'
         'def logged(fn):\n'
         '  @functools.wraps(fn)\n'
         '  def wrapper(*args, **kwargs):\n'
         '    return fn(*args, **kwargs)\n'
         '  return wrapper\n')
  if shape in ('fn', 'decorated1', 'decorated2'):
    src += 'def probe(%s):\n  return %s\n' % (sig, env)
    exec(src, ns)  # pylint: disable=exec-used
    f = ns['probe']
    for _ in range({'fn': 0, 'decorated1': 1, 'decorated2': 2}[shape]):
      f = ns['logged'](f)
    return gin.configurable('probe', module=SHAPE_MODULE)(f)
  if shape in CLASS_SHAPES:
    src += 'class Base:\n  def __init__(self, %s):\n    self.env = %s\n' % (sig, env)
    src += 'class Sub(Base):\n  pass\nclass SubSub(Sub):\n  pass\n'
    exec(src, ns)  # pylint: disable=exec-used
    Base, Sub, SubSub = ns['Base'], ns['Sub'], ns['SubSub']
    if shape == 'cfg_class':
      cls = gin.configurable('probe', module=SHAPE_MODULE)(Base)
    elif shape == 'ext_class':
      cls = gin.external_configurable(Base, name='probe', module=SHAPE_MODULE)
    elif shape == 'reg_class':
      gin.register('probe', module=SHAPE_MODULE)(Base)
      cls = gin.get_configurable(Base)
    else:
      gin.configurable('probe_base', module=SHAPE_MODULE)(Base)       # the base class is itself configurable ...
      if shape == 'sub_cfg':
        cls = gin.configurable('probe', module=SHAPE_MODULE)(Sub)      # ... and so is the subclass, which inherits __init__
      elif shape == 'subsub_cfg':
        gin.configurable('probe_mid', module=SHAPE_MODULE)(Sub)
        cls = gin.configurable('probe', module=SHAPE_MODULE)(SubSub)
      elif shape == 'sub_ext':
        cls = gin.external_configurable(Sub, name='probe', module=SHAPE_MODULE)
      else:
        gin.register('probe', module=SHAPE_MODULE)(Sub)
        cls = gin.get_configurable(Sub)
    return lambda *a, **k: cls(*a, **k).env
  src += ('class K:\n'
          '  def meth(self, %s):\n    return %s\n'
          '  @classmethod\n  def cmeth(cls, %s):\n    return %s\n'
          '  @staticmethod\n  def smeth(%s):\n    return %s\n'
          '  def __call__(self, %s):\n    return %s\n') % ((sig, env) * 4)
  exec(src, ns)  # pylint: disable=exec-used
  K = ns['K']
  target = {'bound_method': K().meth, 'class_method': K.cmeth, 'static_method': K.smeth, 'callable_instance': K()}[shape]
  return gin.external_configurable(target, name='probe', module=SHAPE_MODULE)


def shape_expectation(case):
  """who supplies each parameter, from the property text alone: the caller's value; else the binding under the longest prefix
  of the active scope; else the function's own default.  returns ({param: value}, {param: source}) or None when some parameter
  would be left without any value (then Python itself refuses the call)."""
  active = case['active']
  exp, why = {}, {}
  for i, p in enumerate(case['params']):
    if i < case['npos']:
      exp[p], why[p] = 'pos:%d' % i, 'caller-positional'
    elif p in case['kw']:
      exp[p], why[p] = 'kw:' + p, 'caller-keyword'
    else:
      best = None
      for sc, q in case['binds']:
        scl = sc.split('/') if sc else []
        if q == p and scl == active[:len(scl)] and (best is None or len(scl) > len(best)):
          best = scl
      if best is not None:
        exp[p], why[p] = 'bound@%s:%s' % ('/'.join(best), p), 'binding'
      elif i >= case['required']:
        exp[p], why[p] = 'default:' + p, 'default'
      else:
        return None
  return exp, why


def gen_shape_case(rng, shapes=None, param_sets=None):
  shape = rng.choice(shapes or SHAPES)
  params = list(rng.choice(param_sets or PARAM_SETS))
  required = rng.choice([0, 0, 1]) if len(params) > 1 else 0
  active = ginm.gen_scope(rng, 3)
  binds = []
  for _ in range(rng.randint(1, 5)):
    r = rng.random()
    if r < 0.65:
      sc = active[:rng.randint(0, len(active))]
    elif r < 0.85:
      sc = ginm.gen_scope(rng, 2)
    else:
      sc = list(reversed(active))
    b = ['/'.join(sc), rng.choice(params)]
    if b not in binds:
      binds.append(b)
  npos = rng.randint(0, len(params))
  kw = [p for p in params[npos:] if rng.random() < 0.3]
  case = {'shape': shape, 'params': params, 'required': required, 'active': active, 'binds': binds, 'npos': npos, 'kw': kw}
  if shape_expectation(case) is None:
    case['binds'] = binds + [['', p] for p in params[:required] if ['', p] not in binds]
  return case


class CallableShapesEngine(Engine):
  """the rule of the property on callable shapes whose parameter names Gin has to look for: a function under one or two
  functools.wraps decorators; a configurable (or registered) class that inherits the __init__ of a configurable base class (that
  __init__ is Gin's own wrapper); bound methods, class methods, static methods and callable objects made configurable through
  external_configurable; classes reached through the metaclass wrapper (register / external_configurable) whose constructor
  parameters are named like parameters of Gin's own wrappers.  For every split of the arguments between positional, keyword
  and omitted: the caller's values arrive unchanged, the others come from the binding under the longest prefix of the active
  scope, else from the default.  Implementation only: the model is given the signature, it does not look for it."""
  name = 'callable-shapes'
  model = False
  shapes = SHAPES

  def budget(self, tier):
    return 160 if tier == 'quick' else 4000

  def corpus(self):
    out = []
    for shape in self.shapes:
      for npos, kw in ((0, []), (1, []), (2, []), (0, ['a']), (1, ['c'])):
        out.append({'shape': shape, 'params': ['a', 'b', 'c'], 'required': 0, 'active': ['s1', 's2'],
                    'binds': [['', 'a'], ['s1', 'a'], ['s1/s2', 'b'], ['s2', 'c'], ['s2/s1', 'b']], 'npos': npos, 'kw': kw})
    for shape in self.shapes:
      for params in (['new_cls', 'other'], ['other', 'new_cls']):
        for npos, kw, binds in ((0, ['new_cls'], [['', 'other']]), (0, [], [['', 'new_cls'], ['s1', 'other']]),
                                (1, [], [['', 'new_cls'], ['', 'other']])):
          out.append({'shape': shape, 'params': params, 'required': 0, 'active': ['s1'], 'binds': binds, 'npos': npos, 'kw': kw})
    return out

  def gen(self, rng, tier):
    return gen_shape_case(rng, self.shapes)

  def impl(self, case):
    spec = shape_expectation(case)
    if spec is None:
      return {'obs': T('Skipped'), 'fails': [], 'nontrivial': False, 'tags': ['unsatisfiable']}
    exp, why = spec
    gin = C.fresh_gin()
    call = build_shape(gin, case['shape'], case['params'], case['required'])
    for sc, p in case['binds']:
      gin.bind_parameter((sc + '/' if sc else '') + 'probe.' + p, 'bound@%s:%s' % (sc, p))
    args = ['pos:%d' % i for i in range(case['npos'])]
    kwargs = {p: 'kw:' + p for p in case['kw']}
    what = '%s probe(%s) called with args=%r kwargs=%r under scope %r, bindings %r' % (
        case['shape'], ', '.join(case['params']), args, kwargs, '/'.join(case['active']), case['binds'])
    fails = []
    try:
      with gin.config_scope(list(case['active']) or None):
        got = call(*args, **kwargs)
    except Exception as e:  # pylint: disable=broad-except
      # every parameter has a value and the caller passes none twice: nothing entitles Gin to refuse the call
      split = 'positional' if args else 'keyword' if kwargs else 'no'
      fails.append(('call-with-%s-arguments-raised' % split, '%s raised %s: %s; the property requires %r' %
                    (what, type(e).__name__, str(e).splitlines()[0][:160], exp)))
      got = None
    if got is not None:
      for p in case['params']:
        if got.get(p) != exp[p]:
          kind = {'caller-positional': 'caller-value-not-delivered', 'caller-keyword': 'caller-value-not-delivered',
                  'binding': 'binding-not-delivered', 'default': 'default-not-kept'}[why[p]]
          fails.append((kind, '%s: parameter %r received %r, the property requires %r (%s)' % (what, p, got.get(p), exp[p], why[p])))
          break
    supplied = set(case['params'][:case['npos']]) | set(case['kw'])
    bound = {p for p in case['params'] if any(q == p for _, q in case['binds'])}
    nontrivial = case['shape'] != 'fn' and bool(supplied & bound) and 'binding' in why.values()
    return {'obs': T('Done'), 'fails': fails[:3], 'nontrivial': nontrivial,
            'tags': [case['shape'], 'err' if got is None else 'ok']}


# ----------------------------------------------------------------------------
# methods registered in a class body (@gin.register), own or INHERITED, instance or STATIC, of a class that is registered
# later; bindings made under the provisional selector (before the class registration, in any number of scopes) and under
# <Class>.<method> (after it); calls on an instance / through the class / before the class registration

METH_MODULE = 'methmod'
METH_PKG = 'methpkg'
METH_WHERE = ('own', 'base', 'grandbase')      # class K(B), class B(G), class G: only K is registered
METH_CLASS = {'own': 'K', 'base': 'B', 'grandbase': 'G'}
METH_XKW = ['z', 'y']


def meth_source(methods):
  """python source of the hierarchy G <- B <- K; every method returns what it received."""
  bodies = {'own': [], 'base': [], 'grandbase': []}
  for m in methods:
    parts = [] if m['kind'] == 'static' else ['self']
    parts += [p if i < m['required'] else "%s='default:%s'" % (p, p) for i, p in enumerate(m['params'])]
    if m['varargs']:
      parts.append('*rest')
    elif m['kwonly']:
      parts.append('*')
    parts += ["%s='default:%s'" % (p, p) for p in m['kwonly']]
    if m['varkw']:
      parts.append('**opts')
    env = ['%r: %s' % (p, p) for p in m['params'] + m['kwonly']]
    env.append("'*': %s" % ('tuple(rest)' if m['varargs'] else 'None'))
    env.append("'**': %s" % ('dict(opts)' if m['varkw'] else 'None'))
    env.append("'self': %s" % ('None' if m['kind'] == 'static' else "type(self).__name__"))
    bodies[m['where']].append('%s  @gin.register\n  def %s(%s):\n    return {%s}\n' % (
        '  @staticmethod\n' if m['kind'] == 'static' else '', m['name'], ', '.join(parts), ', '.join(env)))
  src = "class G:\n  def __init__(self, label='l'):\n    self.label = label\n" + ''.join(bodies['grandbase'])
  src += 'class B(G):\n' + (''.join(bodies['base']) or '  pass\n')
  src += 'class K(B):\n' + (''.join(bodies['own']) or '  pass\n')
  return src


def meth_expectation(m, call, binds):
  """from the property text alone.  binds: [(scope string, param, tag)] of this method in the order they were made (a later
  binding of the same scope and parameter replaces the earlier one).  returns (exp, why) or None when Python itself has to
  refuse the call (a parameter left without value)."""
  active = call['active']

  def bound(p):
    best = None
    for sc, q, tag in binds:
      scl = sc.split('/') if sc else []
      if q == p and scl == active[:len(scl)] and (best is None or len(scl) >= len(best[0])):
        best = (scl, tag)
    return None if best is None else best[1]

  exp, why = {}, {}
  for i, p in enumerate(m['params'] + m['kwonly']):
    if i < min(call['npos'], len(m['params'])):
      exp[p], why[p] = 'pos:%d' % i, 'caller-positional'
    elif p in call['kw']:
      exp[p], why[p] = 'kw:' + p, 'caller-keyword'
    elif bound(p) is not None:
      exp[p], why[p] = bound(p), 'binding'
    elif p in m['kwonly'] or i >= m['required']:
      exp[p], why[p] = 'default:' + p, 'default'
    else:
      return None
  exp['*'] = tuple('pos:%d' % i for i in range(len(m['params']), call['npos'])) if m['varargs'] else None
  why['*'] = 'caller-positional'
  if m['varkw']:
    exp['**'] = {x: 'kw:' + x for x in call['kw'] if x in METH_XKW}
    for x in METH_XKW:
      if x not in exp['**'] and bound(x) is not None:
        exp['**'][x] = bound(x)
  else:
    exp['**'] = None
  why['**'] = 'caller-keyword / binding'
  exp['self'], why['self'] = (None if m['kind'] == 'static' else 'K'), 'the instance the method is called on'
  return exp, why


def gen_meth_case(rng):
  methods = []
  for i in range(rng.randint(1, 3)):
    params = list(rng.choice([['a', 'b', 'c'], ['a', 'b'], ['a'], ['step', 'warmup']]))
    varargs = rng.random() < 0.3
    methods.append({'name': 'm%d' % i, 'kind': rng.choice(['instance', 'static']), 'where': rng.choice(METH_WHERE),
                    'params': params, 'required': rng.choice([0, 0, 0, 1]), 'varargs': varargs,
                    'kwonly': ['k'] if rng.random() < 0.4 else [], 'varkw': rng.random() < 0.3})
  active = ginm.gen_scope(rng, 3) or [rng.choice(ginm.SCOPES)]
  pool = [active[:i] for i in range(len(active) + 1)] * 2 + [ginm.gen_scope(rng, 2), list(reversed(active)), active[1:]]

  def gen_binds(n):
    out = []
    for _ in range(n):
      m = rng.choice(methods)
      p = rng.choice(m['params'] + m['kwonly'] + (METH_XKW if m['varkw'] else []))
      b = ['/'.join(rng.choice(pool)), m['name'], p, rng.choice(['bind', 'parse']), rng.random() < 0.5]
      if not any(o[:3] == b[:3] for o in out):
        out.append(b)
    return out

  pre, post = gen_binds(rng.randint(0, 7)), gen_binds(rng.randint(0, 4))
  calls = []
  for _ in range(rng.randint(2, 6)):
    m = rng.choice(methods)
    npos = rng.randint(0, len(m['params']))
    if m['varargs'] and npos == len(m['params']) and rng.random() < 0.5:
      npos += rng.randint(1, 2)
    kw = [p for p in m['params'][npos:] + m['kwonly'] + (METH_XKW if m['varkw'] else []) if rng.random() < 0.3]
    if m['required'] and npos == 0 and m['params'][0] not in kw and rng.random() < 0.7:
      kw.append(m['params'][0])
    r = rng.random()
    scope = active if r < 0.5 else rng.choice(pool)
    calls.append({'method': m['name'], 'via': rng.choice(['instance', 'instance', 'reference', 'class']),
                  'when': 'early' if rng.random() < 0.15 else 'late', 'active': list(scope), 'npos': npos, 'kw': kw})
  return {'api': rng.choice(['register', 'external']), 'module': rng.choice([None, METH_PKG]), 'methods': methods,
          'pre': pre, 'post': post, 'calls': calls}


class RegisteredMethodsEngine(Engine):
  """methods registered with @gin.register in a class body -- instance and static, defined by the registered class itself or
  INHERITED from an (unregistered) base or grand-base class -- with positional, defaulted, *args, keyword-only and **kwargs
  parameters.  Bindings are made under the provisional selector (<method>, <module>.<method>) in any number of scopes BEFORE
  the class is registered (gin.register / gin.external_configurable) and under <Class>.<method> after it; the methods are
  called on an instance of the configurable class (made directly or by a @Class() reference), through the configurable class,
  and, before the class registration, through the method's own configurable, under active scopes that have the binding scopes
  as prefixes / non-prefixes, with every split positional / keyword / omitted.  Expectation from the property text: the
  caller's value, else the binding under the longest prefix of the active scope, else the default; a static method never
  receives the instance.  Implementation only: the model is given one flat signature per configurable and registers
  everything up front."""
  name = 'registered-methods'
  model = False

  def budget(self, tier):
    return 150 if tier == 'quick' else 4000

  def corpus(self):
    sched = {'name': 'at', 'kind': 'static', 'where': 'base', 'params': ['step', 'warmup', 'decay'], 'required': 0,
             'varargs': False, 'kwonly': ['floor'], 'varkw': False}
    own = dict(sched, name='scale', where='own', params=['a', 'b'], kwonly=[])
    step = {'name': 'step', 'kind': 'instance', 'where': 'own', 'params': ['lr', 'decay', 'clip'], 'required': 0,
            'varargs': True, 'kwonly': ['nesterov'], 'varkw': True}
    ev = {'name': 'evaluate', 'kind': 'instance', 'where': 'grandbase', 'params': ['batch', 'metric'], 'required': 0,
          'varargs': False, 'kwonly': [], 'varkw': False}

    def calls(name, splits, scopes, vias=('instance', 'reference', 'class')):
      return [{'method': name, 'via': via, 'when': 'late', 'active': sc, 'npos': npos, 'kw': kw}
              for via in vias for sc in scopes for npos, kw in splits]

    scopes = ([], ['s1'], ['s1', 's2'], ['s2'], ['s3', 's1'])
    out = []
    # inherited / own static methods, bound after the class registration, called on instances and on the class
    for api in ('register', 'external'):
      out.append({'api': api, 'module': None, 'methods': [sched, own], 'pre': [],
                  'post': [['', 'at', 'decay', 'parse', False], ['s1', 'at', 'warmup', 'parse', False],
                           ['s1/s2', 'at', 'floor', 'bind', True], ['s3', 'at', 'decay', 'bind', False],
                           ['', 'scale', 'b', 'bind', False]],
                  'calls': calls('at', ((1, []), (0, ['step']), (0, []), (2, ['decay'])), scopes) +
                           calls('scale', ((1, []), (0, [])), ([], ['s1']))})
    # bindings of one method in several scopes made before the class registration, in several insertion orders
    pre = [['s1', 'step', 'decay', 'parse', False], ['', 'step', 'lr', 'parse', False], ['s1/s2', 'step', 'clip', 'parse', False],
           ['s1/s2', 'step', 'lr', 'parse', True], ['s3', 'step', 'lr', 'bind', False], ['s1', 'step', 'z', 'bind', False],
           ['s1/s2', 'step', 'nesterov', 'bind', False], ['s1', 'evaluate', 'batch', 'bind', True]]
    for api, module, order in (('register', METH_PKG, pre), ('external', None, list(reversed(pre))),
                               ('register', None, pre[1:] + pre[:1])):
      out.append({'api': api, 'module': module, 'methods': [step, ev, dict(sched, where='grandbase')], 'pre': order,
                  'post': [['s2', 'step', 'lr', 'bind', False], ['s1', 'at', 'warmup', 'parse', False]],
                  'calls': calls('step', ((0, []), (1, ['z']), (4, ['nesterov'])), scopes + (['s3'], ['s3', 's1', 's2'])) +
                           calls('evaluate', ((0, []), (1, [])), ([], ['s1'])) + calls('at', ((1, []),), ([], ['s1']), ('instance',)) +
                           [{'method': 'step', 'via': 'instance', 'when': 'early', 'active': ['s1', 's2'], 'npos': 0, 'kw': []}]})
    return out

  def gen(self, rng, tier):
    return gen_meth_case(rng)

  def shrink(self, case):
    for i in range(len(case['calls'])):
      if len(case['calls']) > 1:
        yield dict(case, calls=case['calls'][:i] + case['calls'][i + 1:])
    for key in ('pre', 'post'):
      for i in range(len(case[key])):
        yield dict(case, **{key: case[key][:i] + case[key][i + 1:]})
    used = {c['method'] for c in case['calls']}
    for i, m in enumerate(case['methods']):
      if m['name'] not in used and len(case['methods']) > 1:
        yield dict(case, methods=case['methods'][:i] + case['methods'][i + 1:],
                   pre=[b for b in case['pre'] if b[1] != m['name']], post=[b for b in case['post'] if b[1] != m['name']])

  def impl(self, case):
    gin = C.fresh_gin()
    methods = {m['name']: m for m in case['methods']}
    ns = {'gin': gin, '__name__': METH_MODULE}
    exec(meth_source(case['methods']), ns)  # pylint: disable=exec-used
    K = ns['K']
    gin.configurable('holder', module=METH_MODULE)(ns.setdefault('holder', lambda obj=None: obj))
    class_module = case['module'] or METH_MODULE
    made = {}       # method -> [(scope, param, tag)]
    fails = []

    def bind(phase, b):
      sc, name, p, how, full = b
      if phase == 'pre':
        sel = (METH_MODULE + '.' if full else '') + name
      else:
        sel = (class_module + '.' if full else '') + 'K.' + name
      tag = '%s@%s:%s' % (phase, sc, p)
      key = (sc + '/' if sc else '') + sel + '.' + p
      try:
        if how == 'bind':
          gin.bind_parameter(key, tag)
        else:
          gin.parse_config('%s = %r\n' % (key, tag))
      except Exception as e:  # pylint: disable=broad-except
        fails.append(('binding-rejected', '%s = %r (%s, %s the class registration) raised %s: %s' % (
            key, tag, how, 'before' if phase == 'pre' else 'after', type(e).__name__, str(e).splitlines()[0][:160])))
        return
      made.setdefault(name, []).append((sc, p, tag))

    def run_call(call, registered):
      m = methods[call['method']]
      spec = meth_expectation(m, call, made.get(m['name'], []))
      if spec is None:
        return None
      exp, why = spec
      args = ['pos:%d' % i for i in range(call['npos'])]
      kwargs = {p: 'kw:' + p for p in call['kw']}
      what = '%s method %s(%s) %s, called %s with args=%r kwargs=%r under scope %r; bindings of the method so far %r' % (
          m['kind'], m['name'], ', '.join(m['params'] + ['*rest'] * m['varargs'] + m['kwonly'] + ['**opts'] * m['varkw']),
          'defined by the registered class' if m['where'] == 'own' else 'inherited from its %s class' % m['where'],
          {'instance': 'on an instance of the configurable class', 'reference': 'on the instance a @K() reference made',
           'class': 'through the configurable class',
           'early': "through the method's own configurable before the class registration"}[call['via'] if registered else 'early'],
          args, kwargs, '/'.join(call['active']), made.get(m['name'], []))
      try:
        if not registered:
          target = gin.get_configurable(getattr(K, m['name']))
          inst = None if m['kind'] == 'static' else K()
        else:
          Kc = gin.get_configurable(K)
          if call['via'] == 'class':
            target, inst = getattr(Kc, m['name']), (None if m['kind'] == 'static' else Kc())
          else:
            obj = Kc() if call['via'] == 'instance' else gin.get_configurable(ns['holder'])()
            target, inst = getattr(obj, m['name']), None
        with gin.config_scope(list(call['active']) or None):
          got = target(*([inst] if inst is not None else []) + args, **kwargs)
      except Exception as e:  # pylint: disable=broad-except
        return [('call-raised', '%s raised %s: %s; the property requires %r' % (
            what, type(e).__name__, str(e).splitlines()[0][:160], exp))]
      for p in m['params'] + m['kwonly'] + ['*', '**', 'self']:
        if got.get(p, '<absent>') != exp[p]:
          kind = {'caller-positional': 'caller-value-not-delivered', 'caller-keyword': 'caller-value-not-delivered',
                  'binding': 'binding-not-delivered', 'default': 'default-not-kept'}.get(why[p], 'wrong-' + p)
          return [(kind, '%s: %r received %r, the property requires %r (%s)' % (what, p, got.get(p, '<absent>'), exp[p], why[p]))]
      return []

    nontrivial, tags = False, []
    for b in case['pre']:
      bind('pre', b)
    for call in case['calls']:
      if call['when'] == 'early':
        fails += run_call(call, False) or []
    try:
      if case['api'] == 'register':
        gin.register(K, module=case['module'])
      else:
        gin.external_configurable(K, module=case['module'])
      gin.parse_config('%s.holder.obj = @%s.K()\n' % (METH_MODULE, class_module))
    except Exception as e:  # pylint: disable=broad-except
      fails.append(('class-registration-raised', '%s: %s' % (type(e).__name__, str(e)[:200])))
      return {'obs': T('Done'), 'fails': fails[:3], 'nontrivial': False, 'tags': ['registration-err']}
    for b in case['post']:
      bind('post', b)
    for call in case['calls']:
      if call['when'] != 'early':
        r = run_call(call, True)
        if r is None:
          tags.append('unsatisfiable')
          continue
        fails += r
        m = methods[call['method']]
        scopes = {sc for sc, _, _ in made.get(m['name'], [])}
        tags.append('%s-%s' % (m['where'], m['kind']))
        nontrivial = nontrivial or (len(scopes) >= 2 and call['npos'] + len(call['kw']) > 0)
    return {'obs': T('Done'), 'fails': fails[:3], 'nontrivial': nontrivial, 'tags': tags}


# ----------------------------------------------------------------------------
# HISTORIES of calls on one configurable, and caller's values whose IDENTITY can be observed.  The property quantifies over
# histories: what an earlier call did -- also one that was refused (a parameter marked gin.REQUIRED that the configuration does
# not bind yet, a parameter left without any value, an unknown keyword, too many positional values) -- must not change who
# supplies each parameter of a later call; and "reaches the function unchanged" is about the very object the caller passes
# (a list the function fills for its caller, an object with its own __deepcopy__, a reference the caller forwards, a lock, a
# generator), positionally, into *args, by keyword and into **kwargs.

HIST_MODULE = 'histmod'
HIST_SHAPES = ['fn', 'decorated', 'cfg_class', 'ext_class', 'reg_class', 'sub_cfg', 'bound_method', 'static_method',
               'callable_instance', 'reg_method']
HIST_XKW = ['z', 'y']
# kinds of values a caller passes.  'REQ' is the gin.REQUIRED marker: the caller passes NO value and asks for the binding.
HIST_KINDS = ['str', 'list', 'dict', 'obj', 'morph', 'ref', 'lock', 'gen', 'nested']
HIST_IDENTITY_KINDS = ('list', 'dict', 'obj', 'morph', 'ref', 'lock', 'gen', 'nested')


class Morph:
  """a value with its own idea of what a deep copy of it is (as Gin's references, proxies, lazily evaluated objects have)"""

  def __init__(self, tag):
    self.tag = tag

  def __deepcopy__(self, memo):
    return 'a deep copy of ' + self.tag

  def __repr__(self):
    return 'Morph(%s)' % self.tag


class Plain:
  def __init__(self, tag):
    self.tag = tag

  def __repr__(self):
    return 'Plain(%s)' % self.tag


def hist_value(gin, kind, tag):
  """-> (the object the caller passes, a description of its content that is taken again after the call)"""
  import threading  # pylint: disable=g-import-not-at-top
  if kind == 'str':
    return tag
  if kind == 'list':
    return [tag]
  if kind == 'dict':
    return {tag: [1, 2]}
  if kind == 'obj':
    return Plain(tag)
  if kind == 'morph':
    return Morph(tag)
  if kind == 'ref':
    return gin.query_parameter(HIST_MODULE + '.helper.x')      # the ConfigurableReference object itself, forwarded
  if kind == 'lock':
    return threading.Lock()
  if kind == 'gen':
    return (x for x in (tag,))
  if kind == 'nested':
    return [tag, threading.Lock()]
  raise ValueError(kind)


def hist_content(v):
  """what can be said about the content of a caller's value without consuming it"""
  if isinstance(v, (str, list, dict)):
    return repr(v)
  return '%s at %x' % (type(v).__name__, id(v))


def hist_sig(case):
  def one(n, d):
    return n if d == 'none' else '%s=gin.REQUIRED' % n if d == 'REQ' else "%s='default:%s'" % (n, n)
  parts = [one(n, d) for n, d in case['params']]
  if case['varargs']:
    parts.append('*rest')
  elif case['kwonly']:
    parts.append('*')
  parts += [one(n, d) for n, d in case['kwonly']]
  if case['varkw']:
    parts.append('**opts')
  env = ['%r: %s' % (n, n) for n, _ in case['params'] + case['kwonly']]
  env.append("'*': %s" % ('rest' if case['varargs'] else 'None'))
  env.append("'**': %s" % ('opts' if case['varkw'] else 'None'))
  return ', '.join(parts), '{%s}' % ', '.join(env)


def build_hist_shape(gin, case):
  """registers the probe; returns (call(*args, **kwargs) -> {param: the object received}, selector of the probe)"""
  sig, env = hist_sig(case)
  shape = case['shape']
  ns = {'gin': gin, '__name__': HIST_MODULE}
  src = ('import functools\n'
         'def logged(fn):\n'
         '  @functools.wraps(fn)\n'
         '  def wrapper(*args, **kwargs):\n'
         '    return fn(*args, **kwargs)\n'
         '  return wrapper\n'
         'def token():\n  return "TOKEN"\n'
         'def helper(x=None):\n  return x\n')
  selfsig = 'self, ' + sig if sig else 'self'
  if shape in ('fn', 'decorated'):
    src += 'def probe(%s):\n  return %s\n' % (sig, env)
  elif shape in ('cfg_class', 'ext_class', 'reg_class', 'sub_cfg'):
    src += 'class Base:\n  def __init__(%s):\n    self.env = %s\nclass Sub(Base):\n  pass\n' % (selfsig, env)
  elif shape == 'reg_method':
    src += 'class R:\n  @gin.register\n  def meth(%s):\n    return %s\n' % (selfsig, env)
  else:
    src += ('class K:\n'
            '  def meth(%s):\n    return %s\n'
            '  @staticmethod\n  def smeth(%s):\n    return %s\n'
            '  def __call__(%s):\n    return %s\n') % (selfsig, env, sig, env, selfsig, env)
  exec(src, ns)  # pylint: disable=exec-used
  gin.configurable('token', module=HIST_MODULE)(ns['token'])
  gin.configurable('helper', module=HIST_MODULE)(ns['helper'])
  gin.parse_config('%s.helper.x = @%s.token()\n' % (HIST_MODULE, HIST_MODULE))
  if shape == 'fn':
    return gin.configurable('probe', module=HIST_MODULE)(ns['probe']), 'probe'
  if shape == 'decorated':
    return gin.configurable('probe', module=HIST_MODULE)(ns['logged'](ns['probe'])), 'probe'
  if shape == 'reg_method':
    gin.register('R', module=HIST_MODULE)(ns['R'])
    inst = gin.get_configurable(ns['R'])()
    return inst.meth, 'R.meth'
  if shape in ('bound_method', 'static_method', 'callable_instance'):
    K = ns['K']
    target = {'bound_method': K().meth, 'static_method': K.smeth, 'callable_instance': K()}[shape]
    return gin.external_configurable(target, name='probe', module=HIST_MODULE), 'probe'
  Base, Sub = ns['Base'], ns['Sub']
  if shape == 'cfg_class':
    cls = gin.configurable('probe', module=HIST_MODULE)(Base)
  elif shape == 'ext_class':
    cls = gin.external_configurable(Base, name='probe', module=HIST_MODULE)
  elif shape == 'reg_class':
    gin.register('probe', module=HIST_MODULE)(Base)
    cls = gin.get_configurable(Base)
  else:
    gin.configurable('probe_base', module=HIST_MODULE)(Base)
    cls = gin.configurable('probe', module=HIST_MODULE)(Sub)
  return (lambda *a, **k: cls(*a, **k).env), 'probe'


def hist_expectation(case, call, binds):
  """who supplies each parameter of this call, from the property text alone.  binds: [(scope list, param, value)] in the
  order they were made so far (a later binding of the same scope and parameter replaces the earlier one).
  returns (exp, None) with exp = {param: (source, what)} -- source 'caller' (what = ('pos', i) / ('kw', name)), 'binding'
  (what = the bound value), 'default' -- plus '*' -> positions of the surplus positional values and '**' -> {name: (source,
  what)}; or (None, reason) when the call cannot be made (then it has to be refused)."""
  active = call['active']
  names = [n for n, _ in case['params']]
  kwn = [n for n, _ in case['kwonly']]
  dflt = dict((n, d) for n, d in case['params'] + case['kwonly'])

  def bound(p):
    best = None
    for scl, q, v in binds:
      if q == p and scl == active[:len(scl)] and (best is None or len(scl) >= len(best[0])):
        best = (scl, v)
    return best

  pos = call['pos']
  if len(pos) > len(names) and not case['varargs']:
    return None, 'more positional values than positional parameters'
  if 'REQ' in pos[len(names):]:
    return None, 'the REQUIRED marker among the values for *args'
  exp, asked, extra = {}, set(), {}
  for i, k in enumerate(pos[:len(names)]):
    if k == 'REQ':
      asked.add(names[i])
    else:
      exp[names[i]] = ('caller', ('pos', i))
  for name, k in call['kw']:
    if name in names or name in kwn:
      if name in exp or name in asked:
        return None, 'the caller passes %r twice' % name
      if k == 'REQ':
        asked.add(name)
      else:
        exp[name] = ('caller', ('kw', name))
    elif case['varkw']:
      if k == 'REQ':
        asked.add(name)
      else:
        extra[name] = ('caller', ('kw', name))
    else:
      return None, 'unknown keyword %r' % name
  for p in names + kwn:
    if p in exp:
      continue
    b = bound(p)
    if b is not None:
      exp[p] = ('binding', b[1])
    elif p in asked:
      return None, 'REQUIRED marker for %r which has no applicable binding' % p
    elif dflt[p] == 'plain':
      exp[p] = ('default', 'default:' + p)
    else:
      return None, 'no value for %r' % p
  if case['varkw']:
    for x in HIST_XKW:
      if x not in extra:
        b = bound(x)
        if b is not None:
          extra[x] = ('binding', b[1])
        elif x in asked:
          return None, 'REQUIRED marker for %r which has no applicable binding' % x
  exp['*'] = list(range(len(names), len(pos))) if case['varargs'] else None
  exp['**'] = extra if case['varkw'] else None
  return exp, None


def gen_hist_case(rng):
  shape = rng.choice(HIST_SHAPES)
  pnames = list(rng.choice([['a', 'b', 'c'], ['a', 'b'], ['a'], ['first'], ['sink', 'item'], []]))
  nreq = rng.choice([0, 0, 1, 1, 2])
  params = []
  for i, n in enumerate(pnames):
    params.append([n, 'none' if i < nreq else ('REQ' if rng.random() < 0.12 else 'plain')])
  varargs = rng.random() < 0.4
  kwonly = []
  for n in rng.choice([[], [], ['k'], ['tag', 'level'], ['k', 'tag']]):
    r = rng.random()
    kwonly.append([n, 'plain' if r < 0.75 else 'REQ' if r < 0.9 else 'none'])
  varkw = rng.random() < 0.3
  if not params and not kwonly:
    kwonly = [['k', 'plain']]
  case = {'shape': shape, 'params': params, 'varargs': varargs, 'kwonly': kwonly, 'varkw': varkw}
  names = [n for n, _ in params]
  kwn = [n for n, _ in kwonly]
  active = ginm.gen_scope(rng, 3)
  pool = [active[:i] for i in range(len(active) + 1)] * 3 + [ginm.gen_scope(rng, 2), list(reversed(active)), active[1:]]

  def gen_bind(must=None):
    p = must or rng.choice(names + kwn + (HIST_XKW if varkw else []))
    return ['bind', '/'.join(rng.choice(pool)) if must is None or rng.random() < 0.4 else '', p,
            rng.choice(['str', 'str', 'list']), rng.choice(['bind', 'parse'])]

  def kind():
    return 'str' if rng.random() < 0.3 else rng.choice(HIST_KINDS)

  def gen_call(early):
    npos = rng.randint(0, len(names))
    pos = [('REQ' if rng.random() < (0.25 if early else 0.06) else kind()) for _ in range(npos)]
    if varargs and npos == len(names) and rng.random() < 0.6:
      pos += [kind() for _ in range(rng.randint(1, 3))]
    elif not varargs and npos == len(names) and rng.random() < 0.04:
      pos.append(kind())
    kw = [[p, 'REQ' if rng.random() < (0.25 if early else 0.06) else kind()]
          for p in names[npos:] + kwn + (HIST_XKW if varkw else []) if rng.random() < 0.35]
    if not varkw and rng.random() < 0.03:
      kw.append(['z', kind()])
    if npos and rng.random() < 0.02:
      kw.append([names[0], kind()])
    r = rng.random()
    return ['call', list(active if r < 0.6 else rng.choice(pool)), pos, kw]

  steps = [gen_bind() for _ in range(rng.randint(0, 2))]
  # calls made before the configuration is complete (several of them have to be refused)
  steps += [gen_call(True) for _ in range(rng.randint(0, 3))]
  # the configuration arrives: every parameter without a default of its own gets a binding somewhere
  late = [gen_bind() for _ in range(rng.randint(1, 5))]
  late += [gen_bind(n) for n, d in params + kwonly if d != 'plain' and rng.random() < 0.85]
  rng.shuffle(late)
  steps += late
  steps += [gen_call(False) for _ in range(rng.randint(2, 5))]
  if rng.random() < 0.3:
    steps += [gen_bind(), gen_call(False)]
  case['steps'] = steps
  return case


class CallHistoriesEngine(Engine):
  """histories of calls on ONE configurable (function, function under a functools.wraps decorator, configurable / external /
  registered class, class inheriting a configurable constructor, bound / static method and callable object through
  external_configurable, @gin.register method of a registered class) whose signature mixes positional, defaulted, *args,
  keyword-only and **kwargs parameters, some of them defaulting to gin.REQUIRED: bindings (root, prefixes and non-prefixes
  of the active scopes; bind_parameter and parse_config) interleaved with calls, some made BEFORE the configuration is complete
  so that they are refused (REQUIRED marker without binding, parameter without value, unknown keyword, too many positional
  values).  The caller's values are objects whose identity is observable (lists, dicts, plain objects, objects with their own
  __deepcopy__, a ConfigurableReference got from gin.query_parameter and forwarded, locks, generators, lists holding a lock),
  passed positionally, into *args, by keyword and into **kwargs.  For EVERY call of the history, from the property text alone:
  the function receives the very object the caller passed; every other parameter receives the value bound under the longest
  prefix of the active scope, else its own default; a call the property cannot serve is refused; whatever happened in earlier
  calls of the history (refused or not) changes nothing.  Implementation only: the model has no object identity and no
  refused-call history."""
  name = 'call-histories'
  model = False

  def budget(self, tier):
    return 200 if tier == 'quick' else 6000

  def corpus(self):
    out = []
    # (1) a call refused for a missing REQUIRED binding, then the configuration, then calls with surplus positional values
    for shape in ('fn', 'cfg_class', 'reg_method', 'decorated'):
      for early in (['call', [], ['REQ'], []], ['call', ['s1'], [], [['first', 'REQ'], ['tag', 'REQ']]],
                    ['call', [], [], []]):
        out.append({'shape': shape, 'params': [['first', 'none']], 'varargs': True,
                    'kwonly': [['tag', 'plain'], ['level', 'plain']], 'varkw': False,
                    'steps': [early,
                              ['bind', '', 'tag', 'str', 'parse'], ['bind', '', 'level', 'str', 'parse'],
                              ['bind', 's1', 'tag', 'str', 'parse'], ['bind', 's1/s2', 'level', 'list', 'bind'],
                              ['bind', 's2', 'tag', 'str', 'bind'],
                              ['call', [], ['str'], []], ['call', [], ['str', 'str'], []],
                              ['call', [], ['str', 'list'], [['tag', 'str']]],
                              ['call', ['s1'], ['obj', 'str', 'str'], []],
                              ['call', ['s1', 's2'], ['str', 'str', 'gen', 'str'], []],
                              ['call', ['s3'], ['str', 'str', 'str'], []],
                              ['call', ['s2', 's1'], ['str', 'str'], [['level', 'dict']]]]})
    # (2) values whose identity is observable, by keyword / positionally / into *args and **kwargs, with competing bindings
    kw_kinds = ('list', 'dict', 'obj', 'morph', 'ref', 'lock', 'gen', 'nested')
    for shape in HIST_SHAPES:
      steps = [['bind', '', 'item', 'str', 'parse'], ['bind', '', 'sink', 'list', 'parse'], ['bind', 's1', 'item', 'str', 'bind'],
               ['bind', 's1/s2', 'sink', 'str', 'bind'], ['bind', 's2', 'item', 'str', 'bind'], ['bind', 's1', 'z', 'str', 'bind']]
      for i, k in enumerate(kw_kinds):
        sc = ([], ['s1'], ['s1', 's2'], ['s2', 's1'])[i % 4]
        steps.append(['call', sc, [], [['sink', k]]])
        steps.append(['call', sc, [k], [['y', kw_kinds[(i + 3) % len(kw_kinds)]]]])
      steps.append(['call', ['s1'], [], [['item', 'list'], ['z', 'morph']]])
      out.append({'shape': shape, 'params': [['sink', 'plain'], ['item', 'plain']], 'varargs': False, 'kwonly': [],
                  'varkw': True, 'steps': steps})
    # (3) refused calls of the other sorts first, a REQUIRED default in the signature, then ordinary calls
    for shape in ('fn', 'ext_class', 'bound_method', 'sub_cfg'):
      out.append({'shape': shape, 'params': [['a', 'none'], ['b', 'REQ']], 'varargs': True, 'kwonly': [['k', 'REQ'], ['tag', 'plain']],
                  'varkw': False,
                  'steps': [['call', [], ['str', 'str'], []], ['call', [], [], [['nope', 'str']]], ['call', ['s1'], ['REQ', 'REQ'], []],
                            ['bind', '', 'k', 'str', 'bind'], ['call', [], ['str'], []], ['bind', 's1', 'b', 'list', 'parse'],
                            ['bind', 's1', 'tag', 'str', 'parse'], ['bind', '', 'a', 'str', 'parse'],
                            ['call', ['s1'], ['str', 'REQ', 'list', 'obj'], []], ['call', ['s1', 's3'], ['REQ', 'list', 'str'], [['k', 'morph']]],
                            ['call', ['s1'], [], [['k', 'lock']]], ['call', [], ['str', 'str', 'str'], []],
                            ['call', ['s3'], [], [['b', 'ref'], ['a', 'REQ']]]]})
    return out

  def gen(self, rng, tier):
    return gen_hist_case(rng)

  def shrink(self, case):
    steps = case['steps']
    for i in range(len(steps)):
      if len(steps) > 1:
        yield dict(case, steps=steps[:i] + steps[i + 1:])
    for i, st in enumerate(steps):
      if st[0] != 'call':
        continue
      for j in range(len(st[3])):
        yield dict(case, steps=steps[:i] + [[st[0], st[1], st[2], st[3][:j] + st[3][j + 1:]]] + steps[i + 1:])
      if st[2] and len(st[2]) > len(case['params']):
        yield dict(case, steps=steps[:i] + [[st[0], st[1], st[2][:-1], st[3]]] + steps[i + 1:])
      if st[1]:
        yield dict(case, steps=steps[:i] + [[st[0], st[1][:-1], st[2], st[3]]] + steps[i + 1:])
    if case['shape'] != 'fn':
      yield dict(case, shape='fn')

  def impl(self, case):
    gin = C.fresh_gin()
    call_probe, selector = build_hist_shape(gin, case)
    sig = hist_sig(case)[0]
    fails, tags = [], [case['shape']]
    binds = []
    history = []            # one line per earlier step, for the report
    refused_before = False
    nontrivial = False
    for n, st in enumerate(case['steps']):
      if st[0] == 'bind':
        _, sc, p, kind, how = st
        tag = 'bound#%d@%s:%s' % (n, sc, p)
        value = tag if kind == 'str' else [tag, 1]
        key = (sc + '/' if sc else '') + selector + '.' + p
        try:
          if how == 'bind':
            gin.bind_parameter(key, value)
          else:
            gin.parse_config('%s = %r\n' % (key, value))
        except Exception as e:  # pylint: disable=broad-except
          fails.append(('binding-rejected', '%s = %r (%s) raised %s: %s' % (key, value, how, type(e).__name__,
                                                                          str(e).splitlines()[0][:160])))
          continue
        binds.append((sc.split('/') if sc else [], p, value))
        history.append('%s = %r' % (key, value))
        continue
      call = {'active': st[1], 'pos': st[2], 'kw': st[3]}
      exp, reason = hist_expectation(case, call, binds)
      args = [gin.REQUIRED if k == 'REQ' else hist_value(gin, k, 'pos:%d#%d' % (i, n)) for i, k in enumerate(call['pos'])]
      kwargs = {p: (gin.REQUIRED if k == 'REQ' else hist_value(gin, k, 'kw:%s#%d' % (p, n))) for p, k in call['kw']}
      before = ([hist_content(a) for a in args], {p: hist_content(v) for p, v in kwargs.items()})
      what = '%s probe(%s), step %d: call with args=%r kwargs=%r under scope %r after the history %r' % (
          case['shape'], sig, n, call['pos'], call['kw'], '/'.join(call['active']), history)
      try:
        with gin.config_scope(list(call['active']) or None):
          got = call_probe(*args, **kwargs)
        err = None
      except Exception as e:  # pylint: disable=broad-except
        got, err = None, '%s: %s' % (type(e).__name__, str(e).splitlines()[0][:200] if str(e) else '')
      history.append('call(args=%r, kwargs=%r) under %r -> %s' % (call['pos'], call['kw'], '/'.join(call['active']),
                                                                 'raised ' + err.split(':')[0] if err else 'returned'))
      if exp is None:
        tags.append('refused' if err else 'not-refused')
        if err is None:
          fails.append(('call-should-fail', '%s returned %r although the call cannot be served: %s' % (what, got, reason)))
        refused_before = refused_before or err is not None
        continue
      if err is not None:
        fails.append(('call-raised-after-refused-call' if refused_before else 'call-raised',
                      '%s raised %s; every parameter has a value: the property requires %r' % (what, err, exp)))
        continue
      tags.append('ok-after-refusal' if refused_before else 'ok')

      def caller_value(w):
        return args[w[1]] if w[0] == 'pos' else kwargs[w[1]]

      def judge(label, seen, source, w):
        """one received value against its expected source; returns a fail or None"""
        if source == 'caller':
          mine = caller_value(w)
          if seen is not mine:
            return ('caller-value-not-delivered', '%s: %s received %r, the caller passed the object %r (%s %r): it has to '
                    'arrive unchanged, i.e. be that very object' % (what, label, seen, mine, w[0], w[1]))
          now = hist_content(mine)
          was = before[0][w[1]] if w[0] == 'pos' else before[1][w[1]]
          if now != was:
            return ('caller-value-changed', '%s: the caller\'s value for %s was %s before the call and is %s after it' % (
                what, label, was, now))
          return None
        if seen != w or type(seen) is not type(w):
          kind = 'binding-not-delivered' if source == 'binding' else 'default-not-kept'
          return (kind + ('-after-refused-call' if refused_before else ''),
                  '%s: %s received %r, the property requires %r (%s)' % (what, label, seen, w, source))
        return None

      bad = None
      for p in [x for x, _ in case['params'] + case['kwonly']]:
        bad = bad or judge('parameter %r' % p, got.get(p, '<absent>'), *exp[p])
      if bad is None and case['varargs']:
        rest = got.get('*')
        if not isinstance(rest, tuple) or len(rest) != len(exp['*']):
          bad = ('wrong-varargs', '%s: *rest received %r, the caller passed %d surplus positional values' % (what, rest, len(exp['*'])))
        else:
          for seen, i in zip(rest, exp['*']):
            bad = bad or judge('*rest[%d]' % (i - len(case['params'])), seen, 'caller', ('pos', i))
      if bad is None and case['varkw']:
        opts = got.get('**')
        if not isinstance(opts, dict) or set(opts) != set(exp['**']):
          bad = ('wrong-varkw', '%s: **opts received %r, the property requires the names %r' % (what, opts, sorted(exp['**'])))
        else:
          for x, (source, w) in sorted(exp['**'].items()):
            bad = bad or judge('**opts[%r]' % x, opts[x], source, w)
      if bad is not None:
        fails.append(bad)
      by_kw = any(k in HIST_IDENTITY_KINDS for _, k in call['kw'])
      from_binding = any(isinstance(v, tuple) and v[0] == 'binding' for v in exp.values())
      nontrivial = nontrivial or (from_binding and (by_kw or refused_before) and len(call['pos']) + len(call['kw']) > 0)
    return {'obs': T('Done'), 'fails': fails[:3], 'nontrivial': nontrivial, 'tags': tags}


ENGINES = [CallEngine(), LateClassEngine(), CallableShapesEngine(), RegisteredMethodsEngine(), CallHistoriesEngine()]
