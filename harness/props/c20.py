"""C20 — clear_config returns the configuration to its pristine state."""
from harness import common as C
from harness import ginm
from harness.common import T
from harness.main import Engine
from harness.props import c01, c12

PID = 'C20'
LEVEL = 'proof'
RULE = ('gin-machine/clear: arbitrary op lists (bind through 3 paths, failing ops, calls, finalize, unlock, hooks, '
        'singleton use, constants in and out of interactive mode -- among them user constants whose value is the '
        'gin.REQUIRED sentinel and the name gin.REQUIRED given another value --, macro definitions) followed by clear_config(b) and '
        'an observation script (config_str, operative_config_str, lock flag, queries, a call of every configurable, '
        'constants); the same script is run on a second, freshly imported gin with the same registrations (and '
        'surviving constants) — the "fresh process" of the property. non-trivial = history containing a failed op, '
        'a finalize and a singleton or constant.  Engine clear-runs-finalizers (implementation only): handles kept alive '
        'by gin alone whose finalizers use gin inside clear_config.')
TRUSTED_BASE = c01.TRUSTED_BASE
ASSUMPTIONS = ['imports recorded by parse contexts are covered by the C14/C19 engines; here the history has no import statements']


def script(m, regs, keys, consts, clear_constants):
  gin = m.gin
  out = []

  def attempt(label, fn):
    try:
      out.append([label, fn()])
    except Exception as e:  # pylint: disable=broad-except
      out.append([label, T('Err', type(e).__name__)])
  attempt('locked', lambda: bool(gin.config_is_locked()))
  attempt('config_str', gin.config_str)
  attempt('operative_config_str', gin.operative_config_str)
  attempt('config_str+prov', lambda: gin.config_str(show_provenance=True))
  attempt('store', lambda: m.dump(gin.config._CONFIG))
  attempt('singletons', lambda: sorted(gin.config._SINGLETONS))
  attempt('imports', lambda: len(gin.config._IMPORTS))
  for k in keys:
    attempt('query ' + k, lambda k=k: m.canon(gin.query_parameter(k)))
  base = m.counter
  for c in regs:
    w = m.wrappers.get(c['sel'])
    if w is None:
      continue

    def call(w=w):
      r = w()
      return T('Ret', r.sel, r.n - base) if isinstance(r, ginm.Ret) else m.canon(r)
    attempt('call ' + c['sel'], call)
    base = m.counter
  attempt('operative_config_str2', lambda: gin.operative_config_str(show_provenance=True))
  attempt('singleton_value', lambda: [m.canon(gin.config.singleton_value(k)) for k in ('sing', 's2')])
  for name in consts:
    attempt('const ' + name, lambda name=name: m.canon(gin.query_parameter(name)))
  attempt('constants', lambda: sorted(k for k, _ in gin.config._CONSTANTS.items()))
  p0 = regs[0]['sel'] + '.' + (ginm.sig_names(regs[0]['sig']) or ['a'])[0]
  attempt('bind-after', lambda: gin.bind_parameter(p0, 1))
  # names that were (or still are) constants, used as ordinary macros in a config parsed now: what %NAME means must depend
  # on the constants that exist NOW, exactly as in a fresh process
  w0 = m.wrappers.get(regs[0]['sel'])
  for nm in sorted({n.split('.')[-1] for n in consts if n != 'gin.REQUIRED'} | {'mm'}):
    attempt('macro-def ' + nm, lambda nm=nm: gin.parse_config('%s = 41' % nm))
    attempt('macro-use ' + nm, lambda nm=nm: gin.parse_config('%s = %%%s' % (p0, nm)))
    attempt('macro-stored ' + nm, lambda: m.canon(gin.query_parameter(p0)))
    if w0 is not None and ginm.sig_names(regs[0]['sig']):
      base = m.counter

      def call0(base=base):
        r = w0()
        return [T('Ret', r.sel, r.n - base) if isinstance(r, ginm.Ret) else m.canon(r), m.log[-1][2]]
      attempt('macro-call ' + nm, call0)
  return out


class ClearEngine(c12.LockEngine):
  name = 'gin-clear'

  def budget(self, tier):
    return 700 if tier == 'quick' else 20000

  def corpus(self):
    f = {'sel': 'm.f', 'sig': {'args': ['a', 'b'], 'defaults': [['i', 1], ['i', 2]], 'varargs': False,
                               'kwonly': [], 'varkw': False}, 'allow': [], 'deny': []}
    return [
        {'regs': [f], 'ops': [['interactive', [['constant', 'a.b.X', ['i', 1]], ['constant', 'b.X', ['i', 2]]]],
                              ['clear', False], ['locked'], ['dumpconfig']]},
        {'regs': [f], 'ops': [['bind', 'f.a', ['i', 3]], ['bind', 'f.zz', ['i', 3]], ['pbind', 'mm', ['i', 1]],
                              ['pbind', 'f.b', ['macro', 'mm']], ['call', 'm.f', [], []],
                              ['constant', 'K.Y', ['obj', 'o1']], ['finalize'], ['bind', 'f.a', ['i', 4]],
                              ['clear', False], ['locked'], ['dumpconfig'], ['dumpoper'], ['call', 'm.f', [], []],
                              ['query', 'K.Y'], ['clear', True], ['query', 'K.Y'], ['query', 'gin.REQUIRED']]},
        {'regs': [f], 'ops': [['constant', 'a.K', ['i', 5]], ['pbind', 'f.a', ['macro', 'K']], ['pbind', 'f.b', ['macro', 'a.K']],
                              ['call', 'm.f', [], []], ['clear', True], ['locked'], ['dumpconfig']]},
        {'regs': [f], 'ops': [['constant', 'Y', ['i', 5]], ['constant', 'x.Z', ['i', 6]], ['pbind', 'f.a', ['macro', 'Y']],
                              ['pbind', 'f.b', ['macro', 'Z']], ['clear', False], ['pbind', 'f.a', ['macro', 'Y']], ['clear', True],
                              ['locked'], ['dumpconfig']]},
        # the REQUIRED sentinel as the VALUE of a user constant: it goes with clear_constants=True like any other constant
        {'regs': [f], 'ops': [['constant', 'MUST', ['req']], ['constant', 'p.ANS', ['i', 42]], ['pbind', 'f.a', ['macro', 'ANS']],
                              ['pbind', 'f.b', ['macro', 'MUST']], ['call', 'm.f', [], []], ['finalize'], ['clear', True], ['locked'],
                              ['dumpconfig'], ['query', 'MUST'], ['query', 'gin.REQUIRED']]},
        # the NAME gin.REQUIRED given another value (interactive mode): clear_constants=True brings the sentinel back
        {'regs': [f], 'ops': [['interactive', [['constant', 'gin.REQUIRED', ['s', 'x']]]], ['query', 'gin.REQUIRED'],
                              ['pbind', 'f.a', ['macro', 'gin.REQUIRED']], ['call', 'm.f', [], []], ['clear', True], ['locked'],
                              ['dumpconfig'], ['query', 'gin.REQUIRED'], ['pbind', 'f.a', ['macro', 'gin.REQUIRED']],
                              ['call', 'm.f', [], []], ['finalize']]},
        # both at once, first through the constants-preserving clear (everything survives), then through the other one
        {'regs': [f], 'ops': [['interactive', [['constant', 'gin.REQUIRED', ['s', 'x']], ['constant', 'REQUIRED', ['i', 1]],
                                               ['constant', 'q.MUST', ['req']]]], ['query', 'gin.REQUIRED'],
                              ['pbind', 'f.a', ['macro', 'REQUIRED']], ['call', 'm.f', [], []], ['clear', False], ['locked'],
                              ['dumpconfig'], ['query', 'gin.REQUIRED'], ['query', 'MUST'], ['clear', True], ['query', 'MUST'],
                              ['query', 'gin.REQUIRED']]},
    ]

  def gen(self, rng, tier):
    regs = ginm.gen_regs(rng, lists=0.1, allow_req=False, rich=False, sels=['f', 'm.g', 'n.m.g', 'pkg.h'])
    for c in regs:
      c['sig']['defaults'] = [ginm.gen_plain(rng, 0) for _ in c['sig']['args']]
    ops = []
    consts = ['K', 'a.K', 'b.a.K', 'x.Y', 'Y', 'c.Z']
    for _ in range(rng.randint(1, 10)):
      r = rng.random()
      if r < 0.45:
        ops += self.gen_ops(rng, regs, 0, 1)
      elif r < 0.6:
        c = rng.choice(regs)
        ops.append(['call', c['sel'], [], []])
      elif r < 0.75:
        body = [['constant', rng.choice(consts), ginm.gen_plain(rng, 0) if rng.random() < 0.7 else ['obj', 'o1']]
                for _ in range(rng.randint(1, 3))]
        sentinel = rng.random() < 0.3
        if sentinel:
          # the gin.REQUIRED sentinel as a constant like any other: a user constant whose VALUE is the sentinel (a project's
          # own alias for it), and the NAME 'gin.REQUIRED' (or a name it is a suffix-match of) given another value, which
          # only interactive mode accepts.  What clear_config keeps is decided by name, never by value.
          for _ in range(rng.randint(1, 2)):
            x = rng.random()
            if x < 0.45:
              c = ['constant', rng.choice(consts + ['MUST', 'p.MUST']), ['req']]
            elif x < 0.85:
              c = ['constant', 'gin.REQUIRED', ginm.gen_plain(rng, 0) if rng.random() < 0.8 else ['req']]
            else:
              c = ['constant', rng.choice(['REQUIRED', 'x.REQUIRED']), ginm.gen_plain(rng, 0)]
            body.insert(rng.randint(0, len(body)), c)
        ops += [['interactive', body]] if rng.random() < (0.7 if sentinel else 0.4) else body
        if rng.random() < 0.5:
          # a config that USES one of the constants (by any dotted suffix of its name) is parsed while it exists
          c = rng.choice(regs)
          parts = rng.choice(body)[1].split('.')
          if c['sig']['args']:
            ops.append(['pbind', c['sel'] + '.' + rng.choice(c['sig']['args']), ['macro', '.'.join(parts[rng.randrange(len(parts)):])]])
      elif r < 0.85:
        c = rng.choice(regs)
        others = [x for x in regs if x is not c] or [c]
        if others[0] is c or not c['sig']['args']:
          continue
        p = c['sig']['args'][0]
        ops.append(['pbind', 'sing/gin.singleton.constructor', ['ref', [], others[0]['sel'], False]])
        ops.append(['pbind', c['sel'] + '.' + p, ['ref', ['sing'], 'gin.singleton', True]])
        ops.append(['call', c['sel'], [], []])
      else:
        ops.append(['pbind', rng.choice(['mm', 'nn']), ginm.gen_plain(rng, 1)])
    has_sentinel = any(o[0] == 'constant' and (o[2] == ['req'] or o[1].endswith('REQUIRED')) for o in ginm.flatten_ops(ops))
    ops.append(['clear', rng.random() < (0.6 if has_sentinel else 0.3)])
    ops += [['locked'], ['dumpconfig'], ['dumpoper']]
    if has_sentinel:
      ops += [['query', 'gin.REQUIRED'], ['query', 'MUST']]
    for c in regs:
      ops.append(['call', c['sel'], [], []])
    ops.append(['dumpoper'])
    return {'regs': regs, 'ops': ops}

  def impl(self, case):
    m = ginm.Machine()
    obs = m.run(case)
    fails, tags = [], []
    regs = list(case['regs'])
    consts_defined, keys = [], []
    had_fail = had_final = had_const = False
    last_clear = None
    for t in m.trace:
      tags.append(t['kind'] + (':err' if t['exc'] else ':ok'))
      if t['depth'] == 0 and t['kind'] == 'clear':
        last_clear = t
      if t['exc'] and t['kind'] != 'clear':
        had_fail = True
      if t['kind'] == 'finalize' and not t['exc']:
        had_final = True
      if t['kind'] == 'register' and not t['exc']:
        regs.append(t['op'][1])
      if t['kind'] == 'constant' and not t['exc']:
        consts_defined.append((t['op'][1], t['op'][2]))
        had_const = True
      if t['kind'] in ('bind', 'pbind') and '.' in t['op'][1].rpartition('/')[2]:
        keys.append(t['op'][1])
      if t['kind'] == 'clear':
        consts_at_clear = list(consts_defined)
        if t['op'][1] and not t['exc']:
          consts_defined = []
    if last_clear is None:
      return {'obs': obs, 'fails': [], 'nontrivial': False, 'tags': tags}
    if last_clear['exc']:
      fails.append(('clear-raised', 'clear_config(clear_constants=%r) raised %s after history %r' %
                    (last_clear['op'][1], last_clear['exc'], [t['op'] for t in m.trace if t['kind'] == 'constant'])))
      return {'obs': obs, 'fails': fails, 'nontrivial': True, 'tags': tags}
    # a last clear at top level succeeded: compare with a fresh gin (only when nothing ran after the
    # post-clear dumps except calls, which the script repeats on both sides anyway)
    idx = max(i for i, o in enumerate(case['ops']) if o[0] == 'clear')
    # run the script on a machine that replays history+clear only
    a = ginm.Machine()
    a.run({'regs': case['regs'], 'ops': case['ops'][:idx + 1]})
    b = ginm.Machine()
    b.case_regs = regs
    with b.gin.config.interactive_mode():     # a later (interactive) registration of a taken name replaces the earlier one, as in the history
      for c in regs:
        try:
          b.register(c)
        except Exception:  # pylint: disable=broad-except
          pass
    surviving = {}
    if not case['ops'][idx][1]:
      for name, v in consts_at_clear:
        surviving[name] = v
      with b.gin.config.interactive_mode():
        for name, v in surviving.items():
          b.gin.constant(name, b.plain(v))
    names = sorted({n for n, _ in consts_at_clear} | {'gin.REQUIRED'})
    sa = script(a, regs, sorted(set(keys)), names, case['ops'][idx][1])
    sb = script(b, regs, sorted(set(keys)), names, case['ops'][idx][1])
    for (la, va), (lb, vb) in zip(sa, sb):
      if C.jsonable(va) != C.jsonable(vb):
        fails.append(('not-pristine-after-clear', '%s: after history+clear_config %r, a fresh gin gives %r' %
                      (la, C.jsonable(va), C.jsonable(vb))))
        break
    nontrivial = had_fail and had_final and (had_const or any('singleton' in str(o) for o in case['ops']))
    return {'obs': obs, 'fails': fails[:2], 'nontrivial': nontrivial, 'tags': tags}


class ClearDuringConstructionEngine(Engine):
  """clear_config() called while ANOTHER thread is inside a singleton constructor: when it returns, every singleton
  cached before is gone (the next use constructs anew), whatever the other thread is doing.  Real threads, fixed
  hand-over points (events); implementation only."""
  name = 'clear-during-construction'
  model = False

  def budget(self, tier):
    return 0

  def corpus(self):
    return [{'cached': n, 'constants': cc, 'rebind': rb} for n in (1, 3) for cc in (False, True) for rb in (False, True)]

  def gen(self, rng, tier):
    return self.corpus()[0]

  def impl(self, case):
    import threading
    gin = C.fresh_gin()
    built = []
    entered, release = threading.Event(), threading.Event()

    def make(tag):
      def ctor():
        built.append(tag)
        return object()
      return ctor

    def slow():
      built.append('slow')
      entered.set()
      release.wait(10)
      return object()
    fails = []
    first = [gin.config.singleton_value('s%d' % i, make('s%d' % i)) for i in range(case['cached'])]
    if case['rebind']:
      @gin.configurable
      def f(a=None):
        return a
      gin.bind_parameter('f.a', 1)
    t = threading.Thread(target=lambda: gin.config.singleton_value('slow', slow), daemon=True)
    t.start()
    ok = entered.wait(10)
    try:
      gin.clear_config(clear_constants=case['constants'])
      exc = None
    except Exception as e:  # pylint: disable=broad-except
      exc = type(e).__name__
    finally:
      release.set()
      t.join(10)
    if not ok:
      fails.append(('scenario-not-reached', ''))
    if exc is not None:
      fails.append(('clear-config-raised', exc))
    before = list(built)
    second = [gin.config.singleton_value('s%d' % i, make('s%d' % i)) for i in range(case['cached'])]
    survived = [i for i in range(case['cached']) if second[i] is first[i]]
    if survived:
      fails.append(('singleton-survived-clear', 'singletons %r cached before clear_config() were still served after it '
                    '(constructions %r, then %r)' % (survived, before, built[len(before):])))
    if case['rebind'] and gin.config_str().strip():
      fails.append(('store-not-empty-after-clear', gin.config_str()))
    return {'obs': T('Done'), 'fails': fails, 'nontrivial': True, 'tags': ['cached%d' % case['cached']]}


# ---------------------------------------------------------------------------------------------------------------------
# objects that only gin's own tables keep alive, whose finalizers use gin again

FIN_FNS = ('release', 'use', 'other', 'keep')
FIN_SCOPES = (None, 'fin', 'a/b')
FIN_KEYS = ('release.flush', 'release.name', 'fin/release.flush', 'a/b/release.name', 'use.repeat', 'other.x', 'fin/other.x',
            'keep.tag')


def _fin_canon(v):
  if v is None or isinstance(v, (bool, int, str)):
    return v
  if isinstance(v, (list, tuple)):
    return [_fin_canon(x) for x in v]
  return 'OBJ'


class _FinWorld:
  """One freshly imported gin with the registrations of a case: four configurables and one externally registered handle
  class per holder of the case.  A handle's finalizer (`__del__`, or a `weakref.finalize` callback) performs the holder's
  action -- an ordinary use of gin's public API -- and logs that it ran."""

  def __init__(self, case):
    import weakref
    self.weakref = weakref
    self.gin = gin = C.fresh_gin()
    self.off = False
    self.calls = []        # (configurable, scope, arguments) of every body that ran
    self.fin_log = []      # (holder id, outcome) of every finalizer that ran
    self.refs = {}         # holder id -> weak reference to the handle made for it
    self.finalizers = []
    w = self

    @gin.configurable
    def release(name='h', flush=True):
      w.calls.append(('release', list(gin.current_scope()), name, flush))
      return ['release', name, flush]

    @gin.configurable
    def use(handle=None, repeat=1):
      w.calls.append(('use', list(gin.current_scope()), _fin_canon(handle), repeat))
      return ['use', _fin_canon(handle), repeat]

    @gin.configurable
    def other(x=0, y=None):
      w.calls.append(('other', list(gin.current_scope()), x, _fin_canon(y)))
      return ['other', x, _fin_canon(y)]

    @gin.configurable
    def keep(handle=None, tag=''):      # never called before the clear: what is bound to it lives in the store only
      w.calls.append(('keep', list(gin.current_scope()), _fin_canon(handle), tag))
      return ['keep', _fin_canon(handle), tag]
    self.fns = {'release': release, 'use': use, 'other': other, 'keep': keep}
    self.classes = {}
    for h in case['holders']:
      self.classes[h['id']] = gin.external_configurable(self.make_class(h), 'Handle%d' % h['id'])

  def act(self, h):
    if self.off:
      return
    gin, a = self.gin, h['action']
    try:
      if a[0] == 'call':
        if a[2] is None:
          self.fns[a[1]]()
        else:
          with gin.config_scope(a[2]):
            self.fns[a[1]]()
      elif a[0] == 'constant':
        gin.constant(a[1], 1)
      elif a[0] == 'import':
        gin.parse_config('import ' + a[1])
      elif a[0] == 'read':
        gin.config_str()
        gin.operative_config_str()
        gin.config_is_locked()
      self.fin_log.append((h['id'], 'ran'))
    except Exception as e:  # pylint: disable=broad-except
      self.fin_log.append((h['id'], type(e).__name__))

  def make_class(self, h):
    w = self
    if h['fin'] == 'del':
      class Handle(object):
        def __del__(self):
          w.act(h)
    else:
      class Handle(object):
        def __init__(self):
          w.finalizers.append(w.weakref.finalize(self, w.act, h))      # the callback holds no reference to the handle
    Handle.__name__ = Handle.__qualname__ = 'Handle%d' % h['id']
    return Handle

  def hold(self, h):
    """hands a new handle to gin and keeps no strong reference to it"""
    gin = self.gin
    cls = self.classes[h['id']]
    where = h['where']
    if where == 'singleton_value':
      self.refs[h['id']] = self.weakref.ref(gin.config.singleton_value('hk%d' % h['id'], cls))
    elif where == 'config-singleton':
      gin.parse_config('hk%d/gin.singleton.constructor = @Handle%d\nuse.handle = @hk%d/gin.singleton()' % ((h['id'],) * 3))
      self.fns['use']()
      self.refs[h['id']] = self.weakref.ref(gin.config.singleton_value('hk%d' % h['id']))
    elif where == 'binding':
      o = cls()
      self.refs[h['id']] = self.weakref.ref(o)
      gin.bind_parameter(('%s/keep.handle' % h['scope']) if h.get('scope') else 'keep.handle', o)
    elif where == 'constant':
      o = cls()
      self.refs[h['id']] = self.weakref.ref(o)
      gin.constant('HK%d' % h['id'], o)
    else:
      raise AssertionError(h)

  def step(self, op, holders):
    gin, k = self.gin, op[0]
    if k == 'bind':
      gin.bind_parameter(op[1], op[2])
    elif k == 'unlock-bind':
      with gin.unlock_config():
        gin.bind_parameter(op[1], op[2])
    elif k == 'call':
      if op[2] is None:
        self.fns[op[1]]()
      else:
        with gin.config_scope(op[2]):
          self.fns[op[1]]()
    elif k == 'finalize':
      gin.finalize()
    elif k == 'constant':
      gin.constant(op[1], op[2])
    elif k == 'singleton':
      gin.config.singleton_value(op[1], lambda: ('plain', op[1]))
    elif k == 'import':
      gin.parse_config('import ' + op[1])
    elif k == 'hold':
      self.hold([h for h in holders if h['id'] == op[1]][0])
    else:
      raise AssertionError(op)

  def shut(self):
    self.off = True
    for f in self.finalizers:
      f.detach()


def fin_script(w, case, constants):
  """what the cleared gin is asked after clear_config returned; asked of a freshly imported gin as well"""
  gin = w.gin
  out = []

  def attempt(label, fn):
    try:
      out.append([label, _fin_canon(fn())])
    except Exception as e:  # pylint: disable=broad-except
      out.append([label, 'raised ' + type(e).__name__])
  attempt('config_is_locked()', lambda: bool(gin.config_is_locked()))
  attempt('config_str()', gin.config_str)
  attempt('operative_config_str()', gin.operative_config_str)
  for key in FIN_KEYS + ('keep.handle', 'fin/keep.handle', 'use.handle'):
    attempt('query_parameter(%r)' % key, lambda key=key: gin.query_parameter(key))
  for key in sorted({'hk%d' % h['id'] for h in case['holders']} | {'p1', 'p2'}):
    attempt('singleton_value(%r)' % key, lambda key=key: gin.config.singleton_value(key))
  for name in constants:
    attempt('constant %s' % name, lambda name=name: gin.query_parameter(name))
  for fn in FIN_FNS:
    for sc in FIN_SCOPES:
      def call(fn=fn, sc=sc):
        if sc is None:
          return w.fns[fn]()
        with gin.config_scope(sc):
          return w.fns[fn]()
      attempt('%s() in scope %r' % (fn, sc), call)
    attempt('operative_config_str() after %s' % fn, gin.operative_config_str)
  attempt('bind_parameter afterwards', lambda: gin.bind_parameter('release.flush', 7))
  attempt('config_str() afterwards', gin.config_str)
  for name in constants:
    if name != 'gin.REQUIRED':
      attempt('constant(%r, 1)' % name, lambda name=name: gin.constant(name, 1))
      attempt('%%%s in a config' % name, lambda name=name: (gin.parse_config('other.y = %%%s' % name), w.fns['other']())[1])
  return out


class ClearRunsFinalizersEngine(Engine):
  """clear_config() drops the last reference to objects that only gin's tables kept alive -- cached singletons (made
  through singleton_value or through a configured @scope/gin.singleton()), bound values, constants -- so their
  finalizers (`__del__` / `weakref.finalize`) run INSIDE clear_config, and a finalizer may use gin: call a configurable
  (scoped or not, with or without bindings for it), define a constant, parse an import statement, read the config.
  Whatever they do, when clear_config returns the state is the one of the property text: unlocked, no bindings, no
  operative record, no imports, no cached singletons, nothing retained, constants kept iff clear_constants=False
  (only gin.REQUIRED otherwise); and a script of queries and calls cannot tell it from a freshly imported gin with the
  same registrations.  Implementation only (the model has no object lifetimes).

  Not generated, because the UNCHANGED tree does not meet the property text there (findings/r5/C20-*.py): finalizers
  that bind a parameter, create a singleton or call finalize(); a constant-held handle that defines a constant; handles
  that the operative record references (clear_config then never returns)."""
  name = 'clear-runs-finalizers'
  model = False
  rule = ('histories of binds (root and scoped, failing ones, inside unlock_config), calls, finalize, constants, plain '
          'singletons and imports, in which 1-3 handles are handed to gin (singleton_value / configured gin.singleton / '
          'bound value / constant) and referenced from nowhere else; their finalizers (__del__ or weakref.finalize) call '
          'a configurable, define a constant, parse an import or read the config; then clear_config(b).  non-trivial = '
          'at least one finalizer ran inside clear_config and used gin successfully.')

  def budget(self, tier):
    return 160 if tier == 'quick' else 6000

  def corpus(self):
    def h(i, where, fin, action, **kw):
      return dict({'id': i, 'where': where, 'fin': fin, 'action': action}, **kw)
    return [
        # a shared resource handle, configured as a singleton, released (through a configurable) when dropped
        {'holders': [h(0, 'config-singleton', 'del', ['call', 'release', None])],
         'ops': [['bind', 'use.repeat', 2], ['hold', 0], ['call', 'use', None], ['finalize']], 'clear_constants': False},
        {'holders': [h(0, 'singleton_value', 'weakref', ['call', 'other', 'fin']), h(1, 'binding', 'del', ['call', 'release', 'a/b'])],
         'ops': [['bind', 'fin/other.x', 3], ['hold', 0], ['hold', 1], ['bind', 'release.nosuch', 1], ['call', 'release', None]],
         'clear_constants': False},
        {'holders': [h(0, 'singleton_value', 'del', ['constant', 'ZZ']), h(1, 'singleton_value', 'weakref', ['import', 'math']),
                     h(2, 'constant', 'del', ['call', 'release', None])],
         'ops': [['constant', 'p.K', 5], ['hold', 2], ['hold', 0], ['hold', 1], ['singleton', 'p1'], ['call', 'other', None],
                 ['finalize']], 'clear_constants': True},
    ]

  def gen(self, rng, tier):
    cc = rng.random() < 0.5
    holders = []
    for i in range(rng.randint(1, 3)):
      where = rng.choice(['singleton_value', 'singleton_value', 'config-singleton', 'binding', 'constant'])
      r = rng.random()
      if r < 0.6:
        action = ['call', rng.choice(['release', 'release', 'other', 'use']), rng.choice(FIN_SCOPES)]
      elif r < 0.75 and cc and where != 'constant':
        action = ['constant', rng.choice(['ZZ', 'z.ZZ', 'K'])]
      elif r < 0.9:
        action = ['import', rng.choice(['math', 'json'])]
      else:
        action = ['read']
      hd = {'id': i, 'where': where, 'fin': rng.choice(['del', 'weakref']), 'action': action}
      if where == 'binding' and rng.random() < 0.4:
        hd['scope'] = rng.choice(['fin', 'a/b'])
      holders.append(hd)
    ops = []
    for _ in range(rng.randint(0, 8)):
      r = rng.random()
      if r < 0.35:
        key = rng.choice(FIN_KEYS)
        v = rng.choice([True, False]) if key.endswith('flush') else rng.choice(['n', 't']) if key.endswith(('name', 'tag')) else rng.randint(2, 9)
        ops.append([rng.choice(['bind', 'bind', 'bind', 'unlock-bind']), key if rng.random() < 0.9 else 'release.nosuch', v])
      elif r < 0.6:
        ops.append(['call', rng.choice(['release', 'use', 'other']), rng.choice(FIN_SCOPES)])
      elif r < 0.7:
        ops.append(['finalize'])
      elif r < 0.82:
        ops.append(['constant', rng.choice(['K', 'p.K', 'q.L']), rng.randint(1, 5)])
      elif r < 0.92:
        ops.append(['singleton', rng.choice(['p1', 'p2'])])
      else:
        ops.append(['import', rng.choice(['math', 'json', 'string'])])
    for hd in holders:
      ops.insert(rng.randint(0, len(ops)), ['hold', hd['id']])
    return {'holders': holders, 'ops': ops, 'clear_constants': cc}

  def shrink(self, case):
    used = {o[1] for o in case['ops'] if o[0] == 'hold'}
    if any(h['id'] not in used for h in case['holders']):
      yield dict(case, holders=[h for h in case['holders'] if h['id'] in used])
    for i, o in enumerate(case['ops']):
      yield dict(case, ops=case['ops'][:i] + case['ops'][i + 1:])

  def impl(self, case):
    import threading
    cc = case['clear_constants']
    a = _FinWorld(case)
    gin = a.gin
    fails, tags = [], []
    held, consts = [], {}
    by_id = {h['id']: h for h in case['holders']}
    for op in case['ops']:
      try:
        a.step(op, case['holders'])
        tags.append(op[0] + ':ok')
        if op[0] == 'hold':
          held.append(by_id[op[1]])
        if op[0] == 'constant':
          consts[op[1]] = op[2]
      except Exception as e:  # pylint: disable=broad-except
        tags.append(op[0] + ':err')
    alive = [h for h in held if a.refs.get(h['id']) is not None and a.refs[h['id']]() is not None]
    ran_before = len(a.fin_log)
    res = {}

    def clear():
      try:
        gin.clear_config(clear_constants=cc)
        res['exc'] = None
      except BaseException as e:  # pylint: disable=broad-except
        res['exc'] = type(e).__name__
    t = threading.Thread(target=clear, daemon=True)
    t.start()
    t.join(15)
    what = 'history %r with handles %r, then clear_config(clear_constants=%r)' % (case['ops'], case['holders'], cc)
    if t.is_alive():
      a.shut()
      return {'obs': T('Hung'), 'fails': [('clear-config-did-not-return', what)], 'nontrivial': True, 'tags': tags}
    if res['exc'] is not None:
      fails.append(('clear-raised', '%s raised %s' % (what, res['exc'])))
    ran_inside = a.fin_log[ran_before:]
    # --- the state right after clear_config returned, item by item of the property text
    by_fin = sorted({h['action'][1] for h in case['holders'] if h['action'][0] == 'constant'})
    left = []
    try:
      if gin.config_is_locked():
        left.append('the configuration is locked')
      s = gin.operative_config_str()
      if s.strip():
        left.append('operative_config_str() = %r' % s)
      s = gin.config_str()
      if s.strip():
        left.append('config_str() = %r' % s)
      for key in sorted({'hk%d' % h['id'] for h in case['holders']} | {'p1', 'p2'}):
        try:
          gin.config.singleton_value(key)
          left.append('singleton %r is still cached' % key)
        except ValueError:
          pass
      dropped = [h for h in alive if cc or h['where'] != 'constant']
      for h in dropped:
        if a.refs[h['id']]() is not None:
          left.append('the handle of holder %d is still referenced' % h['id'])
      for h in alive:
        if not cc and h['where'] == 'constant':
          if a.refs[h['id']]() is None or gin.query_parameter('HK%d' % h['id']) is not a.refs[h['id']]():
            left.append('constant HK%d did not survive clear_constants=False' % h['id'])
      for name, v in sorted(consts.items()):
        try:
          got = gin.query_parameter(name)
          if cc:
            left.append('constant %r still exists after clear_constants=True' % name)
          elif got != v:
            left.append('constant %r changed from %r to %r' % (name, v, got))
        except ValueError:
          if not cc:
            left.append('constant %r did not survive clear_constants=False' % name)
      if cc:
        for name in by_fin + ['HK%d' % h['id'] for h in case['holders']]:
          try:
            gin.query_parameter(name)
            left.append('constant %r exists after clear_constants=True' % name)
          except ValueError:
            pass
      if gin.query_parameter('gin.REQUIRED') is not gin.REQUIRED:
        left.append('gin.REQUIRED is not the sentinel')
    except Exception as e:  # pylint: disable=broad-except
      left.append('an observer raised %r' % (e,))
    if left:
      fails.append(('not-pristine-after-clear-with-finalizers',
                    'after %s returned (finalizers that ran inside it: %r): %s' % (what, ran_inside, '; '.join(left))))
    # --- indistinguishable from a freshly imported gin with the same registrations (and the surviving constants)
    names = sorted(set(consts) | set(by_fin) | {'HK%d' % h['id'] for h in case['holders']} | {'gin.REQUIRED'})
    b = _FinWorld(case)
    if not cc:
      for name, v in consts.items():
        b.gin.constant(name, v)
      for h in alive:
        if h['where'] == 'constant':
          b.gin.constant('HK%d' % h['id'], object())
    sa = fin_script(a, case, names)
    sb = fin_script(b, case, names)
    for (la, va), (lb, vb) in zip(sa, sb):
      if va != vb:
        fails.append(('not-pristine-after-clear', '%s: after %s it gives %r, a fresh gin gives %r' % (la, what, va, vb)))
        break
    a.shut()
    b.shut()
    obs = T('Cleared', [list(x) for x in ran_inside])
    nontrivial = any(o == 'ran' and by_id[i]['action'][0] != 'read' for i, o in ran_inside)
    tags += ['fin:%s/%s/%s' % (h['where'], h['fin'], h['action'][0]) for h in held]
    tags.append('ran-inside-clear:%d' % len(ran_inside))
    return {'obs': obs, 'fails': fails[:2], 'nontrivial': nontrivial, 'tags': tags}


ENGINES = [ClearEngine(), ClearDuringConstructionEngine(), ClearRunsFinalizersEngine()]
