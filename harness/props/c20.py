"""C20 — clear_config returns the configuration to its pristine state."""
from harness import common as C
from harness import ginm
from harness.common import T
from harness.main import Engine
from harness.props import c01, c12

PID = 'C20'
LEVEL = 'proof'
RULE = ('gin-machine/clear: arbitrary op lists (bind through 3 paths, failing ops, calls, finalize, unlock, hooks, '
        'singleton use, constants in and out of interactive mode, macro definitions) followed by clear_config(b) and '
        'an observation script (config_str, operative_config_str, lock flag, queries, a call of every configurable, '
        'constants); the same script is run on a second, freshly imported gin with the same registrations (and '
        'surviving constants) — the "fresh process" of the property. non-trivial = history containing a failed op, '
        'a finalize and a singleton or constant.')
TRUSTED_BASE = c01.TRUSTED_BASE
ASSUMPTIONS = ['imports recorded by parse contexts are covered by the C14/C19 engines; here the history has no import statements']


def script(m, regs, keys, consts, clear_constants):
  gin = m.gin
  out = []

  def attempt(label, fn):
    try:
      out.append([label, fn()])
    except Exception as e:  # pylint: disable=broad-except
      out.append([label, T('Err', type(e).__name__)])
  attempt('locked', lambda: bool(gin.config_is_locked()))
  attempt('config_str', gin.config_str)
  attempt('operative_config_str', gin.operative_config_str)
  attempt('config_str+prov', lambda: gin.config_str(show_provenance=True))
  attempt('store', lambda: m.dump(gin.config._CONFIG))
  attempt('singletons', lambda: sorted(gin.config._SINGLETONS))
  attempt('imports', lambda: len(gin.config._IMPORTS))
  for k in keys:
    attempt('query ' + k, lambda k=k: m.canon(gin.query_parameter(k)))
  base = m.counter
  for c in regs:
    w = m.wrappers.get(c['sel'])
    if w is None:
      continue

    def call(w=w):
      r = w()
      return T('Ret', r.sel, r.n - base) if isinstance(r, ginm.Ret) else m.canon(r)
    attempt('call ' + c['sel'], call)
    base = m.counter
  attempt('operative_config_str2', lambda: gin.operative_config_str(show_provenance=True))
  attempt('singleton_value', lambda: [m.canon(gin.config.singleton_value(k)) for k in ('sing', 's2')])
  for name in consts:
    attempt('const ' + name, lambda name=name: m.canon(gin.query_parameter(name)))
  attempt('constants', lambda: sorted(k for k, _ in gin.config._CONSTANTS.items()))
  p0 = regs[0]['sel'] + '.' + (ginm.sig_names(regs[0]['sig']) or ['a'])[0]
  attempt('bind-after', lambda: gin.bind_parameter(p0, 1))
  # names that were (or still are) constants, used as ordinary macros in a config parsed now: what %NAME means must depend
  # on the constants that exist NOW, exactly as in a fresh process
  w0 = m.wrappers.get(regs[0]['sel'])
  for nm in sorted({n.split('.')[-1] for n in consts if n != 'gin.REQUIRED'} | {'mm'}):
    attempt('macro-def ' + nm, lambda nm=nm: gin.parse_config('%s = 41' % nm))
    attempt('macro-use ' + nm, lambda nm=nm: gin.parse_config('%s = %%%s' % (p0, nm)))
    attempt('macro-stored ' + nm, lambda: m.canon(gin.query_parameter(p0)))
    if w0 is not None and ginm.sig_names(regs[0]['sig']):
      base = m.counter

      def call0(base=base):
        r = w0()
        return [T('Ret', r.sel, r.n - base) if isinstance(r, ginm.Ret) else m.canon(r), m.log[-1][2]]
      attempt('macro-call ' + nm, call0)
  return out


class ClearEngine(c12.LockEngine):
  name = 'gin-clear'

  def budget(self, tier):
    return 700 if tier == 'quick' else 20000

  def corpus(self):
    f = {'sel': 'm.f', 'sig': {'args': ['a', 'b'], 'defaults': [['i', 1], ['i', 2]], 'varargs': False,
                               'kwonly': [], 'varkw': False}, 'allow': [], 'deny': []}
    return [
        {'regs': [f], 'ops': [['interactive', [['constant', 'a.b.X', ['i', 1]], ['constant', 'b.X', ['i', 2]]]],
                              ['clear', False], ['locked'], ['dumpconfig']]},
        {'regs': [f], 'ops': [['bind', 'f.a', ['i', 3]], ['bind', 'f.zz', ['i', 3]], ['pbind', 'mm', ['i', 1]],
                              ['pbind', 'f.b', ['macro', 'mm']], ['call', 'm.f', [], []],
                              ['constant', 'K.Y', ['obj', 'o1']], ['finalize'], ['bind', 'f.a', ['i', 4]],
                              ['clear', False], ['locked'], ['dumpconfig'], ['dumpoper'], ['call', 'm.f', [], []],
                              ['query', 'K.Y'], ['clear', True], ['query', 'K.Y'], ['query', 'gin.REQUIRED']]},
        {'regs': [f], 'ops': [['constant', 'a.K', ['i', 5]], ['pbind', 'f.a', ['macro', 'K']], ['pbind', 'f.b', ['macro', 'a.K']],
                              ['call', 'm.f', [], []], ['clear', True], ['locked'], ['dumpconfig']]},
        {'regs': [f], 'ops': [['constant', 'Y', ['i', 5]], ['constant', 'x.Z', ['i', 6]], ['pbind', 'f.a', ['macro', 'Y']],
                              ['pbind', 'f.b', ['macro', 'Z']], ['clear', False], ['pbind', 'f.a', ['macro', 'Y']], ['clear', True],
                              ['locked'], ['dumpconfig']]},
    ]

  def gen(self, rng, tier):
    regs = ginm.gen_regs(rng, lists=0.1, allow_req=False, rich=False, sels=['f', 'm.g', 'n.m.g', 'pkg.h'])
    for c in regs:
      c['sig']['defaults'] = [ginm.gen_plain(rng, 0) for _ in c['sig']['args']]
    ops = []
    consts = ['K', 'a.K', 'b.a.K', 'x.Y', 'Y', 'c.Z']
    for _ in range(rng.randint(1, 10)):
      r = rng.random()
      if r < 0.45:
        ops += self.gen_ops(rng, regs, 0, 1)
      elif r < 0.6:
        c = rng.choice(regs)
        ops.append(['call', c['sel'], [], []])
      elif r < 0.75:
        body = [['constant', rng.choice(consts), ginm.gen_plain(rng, 0) if rng.random() < 0.7 else ['obj', 'o1']]
                for _ in range(rng.randint(1, 3))]
        ops += [['interactive', body]] if rng.random() < 0.4 else body
        if rng.random() < 0.5:
          # a config that USES one of the constants (by any dotted suffix of its name) is parsed while it exists
          c = rng.choice(regs)
          parts = rng.choice(body)[1].split('.')
          if c['sig']['args']:
            ops.append(['pbind', c['sel'] + '.' + rng.choice(c['sig']['args']), ['macro', '.'.join(parts[rng.randrange(len(parts)):])]])
      elif r < 0.85:
        c = rng.choice(regs)
        others = [x for x in regs if x is not c] or [c]
        if others[0] is c or not c['sig']['args']:
          continue
        p = c['sig']['args'][0]
        ops.append(['pbind', 'sing/gin.singleton.constructor', ['ref', [], others[0]['sel'], False]])
        ops.append(['pbind', c['sel'] + '.' + p, ['ref', ['sing'], 'gin.singleton', True]])
        ops.append(['call', c['sel'], [], []])
      else:
        ops.append(['pbind', rng.choice(['mm', 'nn']), ginm.gen_plain(rng, 1)])
    ops.append(['clear', rng.random() < 0.3])
    ops += [['locked'], ['dumpconfig'], ['dumpoper']]
    for c in regs:
      ops.append(['call', c['sel'], [], []])
    ops.append(['dumpoper'])
    return {'regs': regs, 'ops': ops}

  def impl(self, case):
    m = ginm.Machine()
    obs = m.run(case)
    fails, tags = [], []
    regs = list(case['regs'])
    consts_defined, keys = [], []
    had_fail = had_final = had_const = False
    last_clear = None
    for t in m.trace:
      tags.append(t['kind'] + (':err' if t['exc'] else ':ok'))
      if t['depth'] == 0 and t['kind'] == 'clear':
        last_clear = t
      if t['exc'] and t['kind'] != 'clear':
        had_fail = True
      if t['kind'] == 'finalize' and not t['exc']:
        had_final = True
      if t['kind'] == 'register' and not t['exc']:
        regs.append(t['op'][1])
      if t['kind'] == 'constant' and not t['exc']:
        consts_defined.append((t['op'][1], t['op'][2]))
        had_const = True
      if t['kind'] in ('bind', 'pbind') and '.' in t['op'][1].rpartition('/')[2]:
        keys.append(t['op'][1])
      if t['kind'] == 'clear':
        consts_at_clear = list(consts_defined)
        if t['op'][1] and not t['exc']:
          consts_defined = []
    if last_clear is None:
      return {'obs': obs, 'fails': [], 'nontrivial': False, 'tags': tags}
    if last_clear['exc']:
      fails.append(('clear-raised', 'clear_config(clear_constants=%r) raised %s after history %r' %
                    (last_clear['op'][1], last_clear['exc'], [t['op'] for t in m.trace if t['kind'] == 'constant'])))
      return {'obs': obs, 'fails': fails, 'nontrivial': True, 'tags': tags}
    # a last clear at top level succeeded: compare with a fresh gin (only when nothing ran after the
    # post-clear dumps except calls, which the script repeats on both sides anyway)
    idx = max(i for i, o in enumerate(case['ops']) if o[0] == 'clear')
    # run the script on a machine that replays history+clear only
    a = ginm.Machine()
    a.run({'regs': case['regs'], 'ops': case['ops'][:idx + 1]})
    b = ginm.Machine()
    b.case_regs = regs
    with b.gin.config.interactive_mode():     # a later (interactive) registration of a taken name replaces the earlier one, as in the history
      for c in regs:
        try:
          b.register(c)
        except Exception:  # pylint: disable=broad-except
          pass
    surviving = {}
    if not case['ops'][idx][1]:
      for name, v in consts_at_clear:
        surviving[name] = v
      with b.gin.config.interactive_mode():
        for name, v in surviving.items():
          b.gin.constant(name, b.plain(v))
    names = sorted({n for n, _ in consts_at_clear} | {'gin.REQUIRED'})
    sa = script(a, regs, sorted(set(keys)), names, case['ops'][idx][1])
    sb = script(b, regs, sorted(set(keys)), names, case['ops'][idx][1])
    for (la, va), (lb, vb) in zip(sa, sb):
      if C.jsonable(va) != C.jsonable(vb):
        fails.append(('not-pristine-after-clear', '%s: after history+clear_config %r, a fresh gin gives %r' %
                      (la, C.jsonable(va), C.jsonable(vb))))
        break
    nontrivial = had_fail and had_final and (had_const or any('singleton' in str(o) for o in case['ops']))
    return {'obs': obs, 'fails': fails[:2], 'nontrivial': nontrivial, 'tags': tags}


class ClearDuringConstructionEngine(Engine):
  """clear_config() called while ANOTHER thread is inside a singleton constructor: when it returns, every singleton
  cached before is gone (the next use constructs anew), whatever the other thread is doing.  Real threads, fixed
  hand-over points (events); implementation only."""
  name = 'clear-during-construction'
  model = False

  def budget(self, tier):
    return 0

  def corpus(self):
    return [{'cached': n, 'constants': cc, 'rebind': rb} for n in (1, 3) for cc in (False, True) for rb in (False, True)]

  def gen(self, rng, tier):
    return self.corpus()[0]

  def impl(self, case):
    import threading
    gin = C.fresh_gin()
    built = []
    entered, release = threading.Event(), threading.Event()

    def make(tag):
      def ctor():
        built.append(tag)
        return object()
      return ctor

    def slow():
      built.append('slow')
      entered.set()
      release.wait(10)
      return object()
    fails = []
    first = [gin.config.singleton_value('s%d' % i, make('s%d' % i)) for i in range(case['cached'])]
    if case['rebind']:
      @gin.configurable
      def f(a=None):
        return a
      gin.bind_parameter('f.a', 1)
    t = threading.Thread(target=lambda: gin.config.singleton_value('slow', slow), daemon=True)
    t.start()
    ok = entered.wait(10)
    try:
      gin.clear_config(clear_constants=case['constants'])
      exc = None
    except Exception as e:  # pylint: disable=broad-except
      exc = type(e).__name__
    finally:
      release.set()
      t.join(10)
    if not ok:
      fails.append(('scenario-not-reached', ''))
    if exc is not None:
      fails.append(('clear-config-raised', exc))
    before = list(built)
    second = [gin.config.singleton_value('s%d' % i, make('s%d' % i)) for i in range(case['cached'])]
    survived = [i for i in range(case['cached']) if second[i] is first[i]]
    if survived:
      fails.append(('singleton-survived-clear', 'singletons %r cached before clear_config() were still served after it '
                    '(constructions %r, then %r)' % (survived, before, built[len(before):])))
    if case['rebind'] and gin.config_str().strip():
      fails.append(('store-not-empty-after-clear', gin.config_str()))
    return {'obs': T('Done'), 'fails': fails, 'nontrivial': True, 'tags': ['cached%d' % case['cached']]}


ENGINES = [ClearEngine(), ClearDuringConstructionEngine()]
