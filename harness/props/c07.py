"""C07 — the operative config records exactly what Gin supplied and suffices to replay."""
from harness import common as C
from harness import ginm
from harness.common import T
from harness.main import Engine
from harness.props import c01, c04

PID = 'C07'
LEVEL = 'proof'
RULE = ('gin-machine/operative: configurations with bindings over scopes 0-3, macros, references, allow/deny lists and '
        'non-representable defaults / bindings, then 1-8 calls in scopes 0-3 with mixed caller-supplied / omitted '
        'arguments; observed: the raw operative record after the calls, operative_config_str(), then a SECOND fresh gin '
        'parses that text and repeats the same calls. Independent predicate: key set = pairs called; per key the union '
        'over its calls of (literal configurable defaults + applicable bindings) minus caller-supplied names, value of the '
        'most recent such call; replay gives every call the same arguments and the same text. non-trivial = >= 2 calls '
        'of one configurable in different scopes with different caller-supplied sets.')
TRUSTED_BASE = c01.TRUSTED_BASE
ASSUMPTIONS = ['calls are generated so that they succeed; the text is compared through re-parsing (C06 covers formatting)']


def strip_ret(x):
  if isinstance(x, T):
    if x.tag == 'Ret':
      return T('Ret', x.args[0])
    if x.tag == 'D':      # dict equality ignores insertion order (pprint sorts keys)
      return T('D', *sorted([strip_ret(a) for a in x.args], key=repr))
    return T(x.tag, *[strip_ret(a) for a in x.args])
  if isinstance(x, list):
    return [strip_ret(a) for a in x]
  return x


def representable(v):
  t = v[0]
  if t in ('obj', 'req'):
    return False
  if t in ('l', 't'):
    return all(representable(x) for x in v[1])
  if t == 'd':
    return all(representable(k) and representable(x) for k, x in v[1])
  return True


class OperEngine(c01.CallEngine):
  name = 'gin-operative'

  def budget(self, tier):
    return 700 if tier == 'quick' else 20000

  def corpus(self):
    f = {'sel': 'm.f', 'sig': {'args': ['a', 'b', 'c'], 'defaults': [['i', 1], ['obj', 'o1'], ['l', [['i', 1]]]],
                               'varargs': False, 'kwonly': [['k1', ['s', 'x']]], 'varkw': False}, 'allow': [], 'deny': ['c']}
    g = {'sel': 'n.g', 'sig': {'args': ['a'], 'defaults': [['n']], 'varargs': False, 'kwonly': [], 'varkw': False},
         'allow': [], 'deny': []}
    return [{'regs': [f, g], 'ops': [
        ['bind', 'f.a', ['i', 5]], ['bind', 's1/f.b', ['i', 6]], ['pbind', 'mm', ['i', 7]], ['pbind', 's1/s2/f.k1', ['macro', 'mm']],
        ['pbind', 'g.a', ['ref', [], 'f', True]],
        ['call', 'm.f', [], []], ['with', 's1', [['call', 'm.f', [['i', 0]], []], ['with', 's2', [['call', 'm.f', [], [['b', ['i', 9]]]]]]]],
        ['call', 'n.g', [], []], ['call', 'm.f', [], [['k1', ['i', 3]]]], ['dumpoper'], ['dumpcalls']]}]

  def gen(self, rng, tier):
    regs = ginm.gen_regs(rng, n=rng.randint(1, 3), lists=0.4, allow_req=False, sels=['m.f', 'n.g', 'k', 'pkg.h'])
    for c in regs:      # every parameter defaulted so that any call succeeds
      sg = c['sig']
      sg['defaults'] = [ginm.gen_plain(rng, 1) if rng.random() < 0.8 else ['obj', rng.choice(['o1', 'inf', '-inf', 'nan'])] for _ in sg['args']]
      sg['kwonly'] = [[n, d if d is not None else ['i', 0]] for n, d in sg['kwonly']]
      sg['varargs'] = False
      sg['varkw'] = False
    ops = []
    for i, c in enumerate(regs):
      later = [x['sel'] for x in regs[i + 1:]]
      for _ in range(rng.randint(0, 4)):
        names = [n for n in ginm.sig_names(c['sig']) if n not in c['deny'] and (not c['allow'] or n in c['allow'])]
        if not names:
          continue
        p = rng.choice(names)
        sc = ginm.gen_scope(rng, 3)
        x = rng.random()
        if x < 0.55:
          v = ginm.gen_plain(rng, 1)
        elif x < 0.65:
          v = ['obj', 'o2']
        elif x < 0.8 and later:
          v = ['ref', [], rng.choice(later), rng.random() < 0.6]
        elif x < 0.95:
          v = ['macro', 'mm']
          ops.append(['pbind', 'mm', ginm.gen_plain(rng, 0)])
        else:
          v = ['macro', 'undef']        # never defined: the call that uses it fails, the record must stay printable
        key = '/'.join(sc + [c['sel'] + '.' + p])
        ops.append(['pbind', key, v] if ginm.textable(v) else ['bind', key, v])
    calls = []
    bound_names = {}
    for o in ops:
      if o[0] in ('bind', 'pbind') and '.' in o[1].rpartition('/')[2] and '/' not in o[1]:
        sel, _, p = o[1].rpartition('.')
        bound_names.setdefault(sel, set()).add(p)
    for _ in range(rng.randint(1, 8)):
      c = rng.choice(regs)
      call = self.gen_call(rng, c)
      for p in sorted(bound_names.get(c['sel'], ())):       # mark some root-bound parameters REQUIRED
        if rng.random() < 0.3 and p not in [k for k, _ in call[3]]:
          idx = c['sig']['args'].index(p) if p in c['sig']['args'] else None
          if idx is not None and idx < len(call[2]):
            call[2][idx] = ['req']
          elif idx is None or idx >= len(call[2]):
            call[3].append([p, ['req']])
      sc = ginm.gen_scope(rng, 3)
      for s in reversed(sc):
        call = ['with', s, [call]]
      calls.append(call)
    return {'regs': regs, 'ops': ops + calls + [['dumpoper'], ['dumpcalls']]}

  def gen_arg(self, rng):
    return ginm.gen_plain(rng, 0)

  def impl(self, case):
    m = ginm.Machine(mutate=False)
    obs = m.run(case)
    regs_by_sel = {c['sel']: c for c in case['regs']}
    fails, tags = [], []
    cfg = m.cfg
    oper = {(k[0], k[1]): {p: m.canon(v) for p, v in d.items()} for k, d in cfg._OPERATIVE_CONFIG.items()}  # pylint: disable=protected-access
    # expected record, from the calls that actually ran (every probe body execution, nested ones included)
    want = {}
    per_key_supplied = {}
    all_ok = all('error' not in ctx for ctx in m.calls)
    top = {id(ctx): ctx for ctx in m.calls}
    # reconstruct, for every body execution, what the caller supplied: top-level calls from ctx, nested ones supplied nothing
    own_of = {}
    for ctx in m.calls:
      if ctx['log_end'] > ctx['log_start'] and 'error' not in ctx:
        own_of[ctx['log_end'] - 1] = ctx
    for i, e in enumerate(m.log):
      sel, scope = e[0], e[1]
      c = regs_by_sel[sel]
      sg = c['sig']
      ctx = own_of.get(i)
      supplied = set()
      store = None
      if ctx is not None:
        supplied = {a for a, v in zip(sg['args'], ctx['args']) if v != ['req']} | {k for k, v in ctx['kwargs'] if v != ['req']}
        store = ctx['config']
      else:
        store = m.calls[-1]['config'] if m.calls else []
      names = sg['args']
      nd = len(sg['defaults'])
      dflt = {a: d for a, d in zip(names[len(names) - nd:], sg['defaults'])}
      dflt.update({n: d for n, d in sg['kwonly'] if d is not None})
      rec = {}
      for p, d in dflt.items():
        if representable(d) and p not in c['deny'] and (not c['allow'] or p in c['allow']):
          rec[p] = c01.canon_plain(d)
      rec.update(c01.overlay_spec(store, scope, sel))
      for p in supplied:
        rec.pop(p, None)
      key = ('/'.join(scope), sel)
      want.setdefault(key, {}).update(rec)
      per_key_supplied.setdefault(sel, set()).add(('/'.join(scope), frozenset(supplied)))
    probe_keys = {k for k in oper if k[1] in regs_by_sel}
    if all_ok:
      if probe_keys != set(want):
        fails.append(('operative-sections', 'record has sections %r; configurables were called as %r' %
                      (sorted(probe_keys), sorted(want))))
      else:
        for k in want:
          if oper[k] != want[k]:
            fails.append(('operative-parameters', 'section %r records %r; Gin supplied %r' % (k, oper[k], want[k])))
            break
    nontrivial = any(len({s for s, _ in v}) >= 2 and len({f for _, f in v}) >= 2 for v in per_key_supplied.values())
    # replay: parse the text into a fresh gin, repeat the same calls
    try:
      text = m.gin.operative_config_str()
    except Exception as e:  # pylint: disable=broad-except
      text = ''
      fails.append(('operative-config-str-raised', '%s: %s' % (type(e).__name__, str(e)[:200])))
    values_ok = all(representable(o[2]) for o in case['ops'] if o[0] in ('bind', 'pbind')) and all_ok
    if values_ok and not fails:
      b = ginm.Machine(mutate=False)
      for c in case['regs']:
        b.register(c)
      try:
        b.gin.parse_config(text)
        for op in case['ops']:
          if op[0] in ('call', 'with'):
            b.exec_op(op)
        text2 = b.gin.operative_config_str()
        envs_a = [strip_ret(e[:3]) for e in m.log]
        envs_b = [strip_ret(e[:3]) for e in b.log]
        if C.jsonable(envs_a) != C.jsonable(envs_b):
          fails.append(('replay-different-arguments', 'first run %r; replay from the operative config %r; text %r' %
                        (C.jsonable(envs_a), C.jsonable(envs_b), text)))
        elif text2 != text:
          fails.append(('replay-different-text', '%r vs %r' % (text, text2)))
        tags.append('replayed')
      except Exception as e:  # pylint: disable=broad-except
        fails.append(('operative-text-does-not-replay', '%s: %s; text %r' % (type(e).__name__, e, text)))
    fails = m.readback_fails() + fails
    return {'obs': obs, 'fails': fails[:3], 'nontrivial': nontrivial, 'tags': tags}


class OperDynEngine(Engine):
  """the replay clause under DYNAMIC registration: configs written against real module objects (the C19 universe:
  several files, every import form, aliases, colliding bound names, references to other configurables), every bound
  function called under its scope, operative_config_str() parsed into the cleared configuration, the same calls
  repeated: same arguments, same text.  Implementation only (the operative model has static registration; the header
  and selector spelling are modelled and proved in C19 / C06)."""
  name = 'operative-dynamic'
  model = False

  def budget(self, tier):
    return 150 if tier == 'quick' else 4000

  def corpus(self):
    from harness.props import c19
    return [[[c19.DYN, ['import', 'pkga.util', False, 'u'], ['bind', '', 'u.f', 'x', 3], ['bind', 's1', 'u.g', 'r', [[], 'u.f']]],
             [c19.DYN, ['import', 'pkgb.util', False, 'u'], ['bind', '', 'u.f', 'y', 4], ['bind', '', 'u.f', 'r', [[], 'u.f']]]]]

  def gen(self, rng, tier):
    from harness.props import c19
    g = c19.DynEngine()
    while True:
      case = g.gen(rng, tier)
      if isinstance(case, list):
        return case

  def shrink(self, case):
    for i in range(len(case)):
      if len(case) > 1:
        yield case[:i] + case[i + 1:]
      for j in range(len(case[i])):
        yield case[:i] + [case[i][:j] + case[i][j + 1:]] + case[i + 1:]

  def impl(self, case):
    import inspect
    from harness.props import c19
    gin = C.fresh_gin()
    cfg = gin.config
    w = c19.World()
    fails, tags = [], []
    try:
      try:
        for stmts in case:
          gin.parse_config(c19.render(stmts))
      except Exception as e:  # pylint: disable=broad-except
        return {'obs': T('ParseError', type(e).__name__), 'fails': [], 'nontrivial': False, 'tags': ['parse-error']}

      def canon(v):
        if isinstance(v, dict):
          return sorted((k, canon(x)) for k, x in v.items())
        if callable(v):
          c = cfg._inverse_lookup(v, allow_decorators=True)  # pylint: disable=protected-access
          return ('configurable of', id(c.wrapped)) if c is not None else ('callable', id(v))
        return v
      targets = [(s, q) for (s, q) in cfg._CONFIG  # pylint: disable=protected-access
                 if q in cfg._REGISTRY and inspect.isfunction(cfg._REGISTRY[q].wrapped) and not q.startswith('gin.')]  # pylint: disable=protected-access

      def run_calls():
        out = []
        for s, q in targets:
          try:
            with gin.config_scope(s):
              out.append(canon(gin.get_configurable(q)()))
          except Exception as e:  # pylint: disable=broad-except
            out.append('raised %s: %s' % (type(e).__name__, str(e)[:80]))
        return out
      first = run_calls()
      text = gin.operative_config_str()
      nrefs = sum(1 for d in cfg._CONFIG.values() for v in d.values() if isinstance(v, cfg.ConfigurableReference))  # pylint: disable=protected-access
      gin.clear_config()
      try:
        gin.parse_config(text)
      except Exception as e:  # pylint: disable=broad-except
        fails.append(('operative-text-does-not-parse', '%s: %s; text %r' % (type(e).__name__, str(e)[:160], text)))
      else:
        second = run_calls()
        if second != first:
          fails.append(('operative-replay-differs', 'calls %r received %r; after clearing and parsing the operative text %r they '
                        'receive %r' % (targets, first, text, second)))
        else:
          text2 = gin.operative_config_str()
          if text2 != text:
            fails.append(('operative-text-not-reproduced', 'first %r, after the replay %r' % (text, text2)))
      tags.append('targets%d' % min(len(targets), 3))
      return {'obs': T('Done'), 'fails': fails[:2], 'nontrivial': len(targets) >= 2 and nrefs >= 1 and len(case) >= 2, 'tags': tags}
    finally:
      w.close()


def plain_py(v):
  t = v[0]
  if t == 'n':
    return None
  if t == 'l':
    return [plain_py(x) for x in v[1]]
  if t == 't':
    return tuple(plain_py(x) for x in v[1])
  if t == 'd':
    return {plain_py(k): plain_py(x) for k, x in v[1]}
  return v[1]


class OperCornerEngine(Engine):
  """Two kinds of history the Gin machine does not build, judged from the property text (implementation only):
  bound  the configurable is a BOUND callable -- a bound method, a bound classmethod or a callable instance handed to
         external_configurable: its first parameter (self / cls) is already supplied, so the caller's positional
         arguments start at the next one.  After any calls the record lists exactly the parameters Gin supplied
         (defaults and bindings minus what the caller passed in that call), and the text replays.
  late   after the bindings were parsed, another configurable is registered under a name that makes a reference's
         spelling ambiguous (a module imported later): calls keep working, operative_config_str() is produced, parses
         into the cleared configuration and replays the same arguments and text."""
  name = 'operative-corners'
  model = False
  PARAMS = ['a', 'b', 'c']
  DEFAULTS = {'a': 1, 'b': 'x', 'c': [2]}

  def budget(self, tier):
    return 100 if tier == 'quick' else 3000

  def corpus(self):
    return [
        {'kind': 'bound', 'shape': 'method', 'binds': [], 'calls': [['', 1, []]]},
        {'kind': 'bound', 'shape': 'instance', 'binds': [], 'calls': [['', 1, []]]},
        {'kind': 'bound', 'shape': 'classmethod', 'binds': [['', 'a', ['i', 7]], ['s1', 'b', ['s', 'y']]], 'calls': [['', 1, []], ['s1', 0, ['c']], ['s1', 2, []]]},
        {'kind': 'bound', 'shape': 'function', 'binds': [['', 'a', ['i', 7]]], 'calls': [['', 1, []], ['', 0, []]]},       # control
        {'kind': 'late', 'refs': [['a.g', 'g', True]], 'late': ['b.g'], 'calls_after': True},
        {'kind': 'late', 'refs': [['a.g', 'g', False], ['pkg.sub.h', 'sub.h', True]], 'late': ['q.sub.h', 'b.g'], 'calls_after': False},
    ]

  def gen(self, rng, tier):
    if rng.random() < 0.6:
      binds = [[rng.choice(['', '', 's1']), p, ginm.gen_plain(rng, 0)] for p in rng.sample(self.PARAMS, rng.randint(0, 3))]
      calls = []
      for _ in range(rng.randint(1, 4)):
        npos = rng.choice([0, 1, 1, 2, 3])
        calls.append([rng.choice(['', '', 's1', 's1/s2']), npos, [p for p in self.PARAMS[npos:] if rng.random() < 0.3]])
      return {'kind': 'bound', 'shape': rng.choice(['method', 'classmethod', 'instance', 'function']), 'binds': binds, 'calls': calls}
    pool = [['a.g', 'g'], ['a.g', 'a.g'], ['pkg.sub.h', 'h'], ['pkg.sub.h', 'sub.h'], ['k', 'k']]
    refs = [x + [rng.random() < 0.6] for x in rng.sample(pool, rng.randint(1, 3))]
    return {'kind': 'late', 'refs': refs, 'late': rng.sample(['b.g', 'z.a.g', 'q.sub.h', 'w.h', 'late.k'], rng.randint(0, 3)),
            'calls_after': rng.random() < 0.5}

  def shrink(self, case):
    for f in ('binds', 'calls', 'refs', 'late'):
      if f in case:
        for i in range(len(case[f])):
          yield dict(case, **{f: case[f][:i] + case[f][i + 1:]})

  def make_bound(self, gin, shape, log):
    def body(a, b, c):
      log.append({'a': a, 'b': b, 'c': c})
      return (a, b, c)

    class Holder:
      def meth(self, a=1, b='x', c=[2]):  # pylint: disable=dangerous-default-value
        return body(a, b, c)

      @classmethod
      def cmeth(cls, a=1, b='x', c=[2]):  # pylint: disable=dangerous-default-value
        return body(a, b, c)

      def __call__(self, a=1, b='x', c=[2]):  # pylint: disable=dangerous-default-value
        return body(a, b, c)

    def fn(a=1, b='x', c=[2]):  # pylint: disable=dangerous-default-value
      return body(a, b, c)
    target = {'method': Holder().meth, 'classmethod': Holder.cmeth, 'instance': Holder(), 'function': fn}[shape]
    return gin.external_configurable(target, name='probe', module='c07m')

  def bound(self, case, fails):
    tags = [case['shape']]
    texts, logs = [], []
    want = {}
    for run in (0, 1):
      gin = C.fresh_gin()
      log = []
      probe = self.make_bound(gin, case['shape'], log)
      if run == 0:
        for sc, p, v in case['binds']:
          gin.bind_parameter((sc + '/' if sc else '') + 'c07m.probe.' + p, plain_py(v))
      else:
        try:
          gin.parse_config(texts[0])
        except Exception as e:  # pylint: disable=broad-except
          fails.append(('operative-text-does-not-replay', '%s: %s; text %r' % (type(e).__name__, str(e)[:160], texts[0])))
          return tags
      for sc, npos, kws in case['calls']:
        args = ['pos%d' % i for i in range(npos)]
        kwargs = {k: 'kw_' + k for k in kws}
        try:
          with gin.config_scope(sc or None):
            probe(*args, **kwargs)
        except Exception as e:  # pylint: disable=broad-except
          fails.append(('call-raised' if run == 0 else 'operative-text-does-not-replay',
                        'probe(*%r, **%r) in scope %r, a %s with parameters (a=1, b=\'x\', c=[2])%s: %s: %s' % (
                            args, kwargs, sc, case['shape'], '' if run == 0 else ', repeated after parsing the operative text %r' % texts[0],
                            type(e).__name__, str(e).splitlines()[0][:160])))
          return tags
        if run == 0:
          # from the property text: what Gin supplies in this call = signature defaults overlaid with the bindings that apply
          # in the call's scope, minus the parameters the caller passed
          supplied = dict(self.DEFAULTS)
          parts = sc.split('/') if sc else []
          for i in range(len(parts) + 1):
            for bsc, p, v in case['binds']:
              if bsc == '/'.join(parts[:i]):
                supplied[p] = plain_py(v)
          got = log[-1]
          for i, p in enumerate(self.PARAMS):
            exp = 'pos%d' % i if i < npos else ('kw_' + p if p in kws else supplied[p])
            if got[p] != exp:
              fails.append(('wrong-arguments', 'probe(*%r, **%r) in scope %r received %s = %r, expected %r' % (args, kwargs, sc, p, got[p], exp)))
              return tags
          for p in self.PARAMS[:npos] + kws:
            supplied.pop(p)
          want.setdefault(sc, {}).update(supplied)
      cfg = gin.config
      record = {k[0]: dict(d) for k, d in cfg._OPERATIVE_CONFIG.items() if k[1] == 'c07m.probe'}  # pylint: disable=protected-access
      if run == 0 and record != want:
        fails.append(('operative-parameters', 'a %s probe(a=1, b=\'x\', c=[2]) with bindings %r called as %r: the record holds %r; Gin supplied %r' % (
            case['shape'], case['binds'], case['calls'], record, want)))
        return tags
      try:
        texts.append(gin.operative_config_str())
      except Exception as e:  # pylint: disable=broad-except
        fails.append(('operative-config-str-raised', '%s: %s' % (type(e).__name__, str(e)[:200])))
        return tags
      logs.append(log)
    if logs[0] != logs[1]:
      fails.append(('replay-different-arguments', 'first run %r; replay from the operative config %r; text %r' % (logs[0], logs[1], texts[0])))
    elif texts[0] != texts[1]:
      fails.append(('replay-different-text', '%r vs %r' % (texts[0], texts[1])))
    tags.append('replayed')
    return tags

  def late(self, case, fails):
    gin = C.fresh_gin()
    log = []

    def register(sel):
      name = sel.split('.')[-1]

      def fn(x=0, _sel=sel):
        log.append(('in', _sel))
        return 'result of ' + _sel
      fn.__name__ = name
      fn.__module__ = None
      gin.external_configurable(fn, name=name, module='.'.join(sel.split('.')[:-1]) or None)
    for sel in ('a.g', 'pkg.sub.h', 'k'):
      register(sel)

    @gin.configurable('consumer', module='c07m')
    def consumer(r0=None, r1=None, r2=None):
      vals = []
      for r in (r0, r1, r2):
        vals.append(r() if callable(r) else r)
      log.append(('consumer', vals))
      return vals
    gin.parse_config(''.join('consumer.r%d = @%s%s\n' % (i, sp, '()' if ev else '') for i, (_, sp, ev) in enumerate(case['refs'])))
    first = consumer()
    for sel in case['late']:
      register(sel)
    if case['calls_after']:
      again = consumer()
      if again != first:
        fails.append(('wrong-arguments', 'after %r were registered the same call received %r instead of %r' % (case['late'], again, first)))
        return ['late%d' % len(case['late'])]
    try:
      text = gin.operative_config_str()
    except Exception as e:  # pylint: disable=broad-except
      fails.append(('operative-config-str-raised', '%s: %s; bindings %r, then %r registered' % (type(e).__name__, str(e).splitlines()[0][:160], case['refs'], case['late'])))
      return ['late%d' % len(case['late'])]
    listed = [l.split(' = ')[0].rsplit('.', 1)[-1] for l in text.splitlines() if ' = @' in l and l.split(' = ')[0].endswith(tuple('consumer.r%d' % i for i in range(3)))]
    if sorted(listed) != ['r%d' % i for i in range(len(case['refs']))]:
      fails.append(('operative-parameters', 'Gin supplied %d references to consumer (r0..); the text lists %r: %r' % (len(case['refs']), listed, text)))
    gin.clear_config()
    try:
      gin.parse_config(text)
      replay = consumer()
    except Exception as e:  # pylint: disable=broad-except
      fails.append(('operative-text-does-not-replay', '%s: %s; text %r' % (type(e).__name__, str(e).splitlines()[0][:160], text)))
      return ['late%d' % len(case['late'])]
    if replay != first:
      fails.append(('replay-different-arguments', 'first run %r; replay from the operative config %r; text %r' % (first, replay, text)))
    elif gin.operative_config_str() != text:
      fails.append(('replay-different-text', '%r vs %r' % (text, gin.operative_config_str())))
    return ['late%d' % len(case['late']), 'replayed']

  def impl(self, case):
    fails = []
    tags = getattr(self, case['kind'])(case, fails)
    return {'obs': T('Done'), 'fails': fails[:3], 'nontrivial': case['kind'] == 'late' or len(case['calls']) >= 2, 'tags': [case['kind']] + tags}


ENGINES = [OperEngine(), OperDynEngine(), OperCornerEngine()]
