"""C07 — the operative config records exactly what Gin supplied and suffices to replay."""
from harness import common as C
from harness import ginm
from harness.common import T
from harness.main import Engine
from harness.props import c01, c04

PID = 'C07'
LEVEL = 'proof'
RULE = ('gin-machine/operative: configurations with bindings over scopes 0-3, macros, references, allow/deny lists and '
        'non-representable defaults / bindings, then 1-8 calls in scopes 0-3 with mixed caller-supplied / omitted '
        'arguments; observed: the raw operative record after the calls, operative_config_str(), then a SECOND fresh gin '
        'parses that text and repeats the same calls. Independent predicate: key set = pairs called; per key the union '
        'over its calls of (literal configurable defaults + applicable bindings) minus caller-supplied names, value of the '
        'most recent such call; replay gives every call the same arguments and the same text. non-trivial = >= 2 calls '
        'of one configurable in different scopes with different caller-supplied sets.')
TRUSTED_BASE = c01.TRUSTED_BASE
ASSUMPTIONS = ['calls are generated so that they succeed; the text is compared through re-parsing (C06 covers formatting)']


def strip_ret(x):
  if isinstance(x, T):
    if x.tag == 'Ret':
      return T('Ret', x.args[0])
    if x.tag == 'D':      # dict equality ignores insertion order (pprint sorts keys)
      return T('D', *sorted([strip_ret(a) for a in x.args], key=repr))
    return T(x.tag, *[strip_ret(a) for a in x.args])
  if isinstance(x, list):
    return [strip_ret(a) for a in x]
  return x


def representable(v):
  t = v[0]
  if t in ('obj', 'req'):
    return False
  if t in ('l', 't'):
    return all(representable(x) for x in v[1])
  if t == 'd':
    return all(representable(k) and representable(x) for k, x in v[1])
  return True


class OperEngine(c01.CallEngine):
  name = 'gin-operative'

  def budget(self, tier):
    return 700 if tier == 'quick' else 20000

  def corpus(self):
    f = {'sel': 'm.f', 'sig': {'args': ['a', 'b', 'c'], 'defaults': [['i', 1], ['obj', 'o1'], ['l', [['i', 1]]]],
                               'varargs': False, 'kwonly': [['k1', ['s', 'x']]], 'varkw': False}, 'allow': [], 'deny': ['c']}
    g = {'sel': 'n.g', 'sig': {'args': ['a'], 'defaults': [['n']], 'varargs': False, 'kwonly': [], 'varkw': False},
         'allow': [], 'deny': []}
    return [{'regs': [f, g], 'ops': [
        ['bind', 'f.a', ['i', 5]], ['bind', 's1/f.b', ['i', 6]], ['pbind', 'mm', ['i', 7]], ['pbind', 's1/s2/f.k1', ['macro', 'mm']],
        ['pbind', 'g.a', ['ref', [], 'f', True]],
        ['call', 'm.f', [], []], ['with', 's1', [['call', 'm.f', [['i', 0]], []], ['with', 's2', [['call', 'm.f', [], [['b', ['i', 9]]]]]]]],
        ['call', 'n.g', [], []], ['call', 'm.f', [], [['k1', ['i', 3]]]], ['dumpoper'], ['dumpcalls']]}]

  def gen(self, rng, tier):
    regs = ginm.gen_regs(rng, n=rng.randint(1, 3), lists=0.4, allow_req=False, sels=['m.f', 'n.g', 'k', 'pkg.h'])
    for c in regs:      # every parameter defaulted so that any call succeeds
      sg = c['sig']
      sg['defaults'] = [ginm.gen_plain(rng, 1) if rng.random() < 0.8 else ['obj', rng.choice(['o1', 'inf', '-inf', 'nan'])] for _ in sg['args']]
      sg['kwonly'] = [[n, d if d is not None else ['i', 0]] for n, d in sg['kwonly']]
      sg['varargs'] = False
      sg['varkw'] = False
    ops = []
    for i, c in enumerate(regs):
      later = [x['sel'] for x in regs[i + 1:]]
      for _ in range(rng.randint(0, 4)):
        names = [n for n in ginm.sig_names(c['sig']) if n not in c['deny'] and (not c['allow'] or n in c['allow'])]
        if not names:
          continue
        p = rng.choice(names)
        sc = ginm.gen_scope(rng, 3)
        x = rng.random()
        if x < 0.55:
          v = ginm.gen_plain(rng, 1)
        elif x < 0.65:
          v = ['obj', 'o2']
        elif x < 0.8 and later:
          v = ['ref', [], rng.choice(later), rng.random() < 0.6]
        elif x < 0.95:
          v = ['macro', 'mm']
          ops.append(['pbind', 'mm', ginm.gen_plain(rng, 0)])
        else:
          v = ['macro', 'undef']        # never defined: the call that uses it fails, the record must stay printable
        key = '/'.join(sc + [c['sel'] + '.' + p])
        ops.append(['pbind', key, v] if ginm.textable(v) else ['bind', key, v])
    calls = []
    bound_names = {}
    for o in ops:
      if o[0] in ('bind', 'pbind') and '.' in o[1].rpartition('/')[2] and '/' not in o[1]:
        sel, _, p = o[1].rpartition('.')
        bound_names.setdefault(sel, set()).add(p)
    for _ in range(rng.randint(1, 8)):
      c = rng.choice(regs)
      call = self.gen_call(rng, c)
      for p in sorted(bound_names.get(c['sel'], ())):       # mark some root-bound parameters REQUIRED
        if rng.random() < 0.3 and p not in [k for k, _ in call[3]]:
          idx = c['sig']['args'].index(p) if p in c['sig']['args'] else None
          if idx is not None and idx < len(call[2]):
            call[2][idx] = ['req']
          elif idx is None or idx >= len(call[2]):
            call[3].append([p, ['req']])
      sc = ginm.gen_scope(rng, 3)
      for s in reversed(sc):
        call = ['with', s, [call]]
      calls.append(call)
    return {'regs': regs, 'ops': ops + calls + [['dumpoper'], ['dumpcalls']]}

  def gen_arg(self, rng):
    return ginm.gen_plain(rng, 0)

  def impl(self, case):
    m = ginm.Machine(mutate=False)
    obs = m.run(case)
    regs_by_sel = {c['sel']: c for c in case['regs']}
    fails, tags = [], []
    cfg = m.cfg
    oper = {(k[0], k[1]): {p: m.canon(v) for p, v in d.items()} for k, d in cfg._OPERATIVE_CONFIG.items()}  # pylint: disable=protected-access
    # expected record, from the calls that actually ran (every probe body execution, nested ones included)
    want = {}
    per_key_supplied = {}
    all_ok = all('error' not in ctx for ctx in m.calls)
    top = {id(ctx): ctx for ctx in m.calls}
    # reconstruct, for every body execution, what the caller supplied: top-level calls from ctx, nested ones supplied nothing
    own_of = {}
    for ctx in m.calls:
      if ctx['log_end'] > ctx['log_start'] and 'error' not in ctx:
        own_of[ctx['log_end'] - 1] = ctx
    for i, e in enumerate(m.log):
      sel, scope = e[0], e[1]
      c = regs_by_sel[sel]
      sg = c['sig']
      ctx = own_of.get(i)
      supplied = set()
      store = None
      if ctx is not None:
        supplied = {a for a, v in zip(sg['args'], ctx['args']) if v != ['req']} | {k for k, v in ctx['kwargs'] if v != ['req']}
        store = ctx['config']
      else:
        store = m.calls[-1]['config'] if m.calls else []
      names = sg['args']
      nd = len(sg['defaults'])
      dflt = {a: d for a, d in zip(names[len(names) - nd:], sg['defaults'])}
      dflt.update({n: d for n, d in sg['kwonly'] if d is not None})
      rec = {}
      for p, d in dflt.items():
        if representable(d) and p not in c['deny'] and (not c['allow'] or p in c['allow']):
          rec[p] = c01.canon_plain(d)
      rec.update(c01.overlay_spec(store, scope, sel))
      for p in supplied:
        rec.pop(p, None)
      key = ('/'.join(scope), sel)
      want.setdefault(key, {}).update(rec)
      per_key_supplied.setdefault(sel, set()).add(('/'.join(scope), frozenset(supplied)))
    probe_keys = {k for k in oper if k[1] in regs_by_sel}
    if all_ok:
      if probe_keys != set(want):
        fails.append(('operative-sections', 'record has sections %r; configurables were called as %r' %
                      (sorted(probe_keys), sorted(want))))
      else:
        for k in want:
          if oper[k] != want[k]:
            fails.append(('operative-parameters', 'section %r records %r; Gin supplied %r' % (k, oper[k], want[k])))
            break
    nontrivial = any(len({s for s, _ in v}) >= 2 and len({f for _, f in v}) >= 2 for v in per_key_supplied.values())
    # replay: parse the text into a fresh gin, repeat the same calls
    try:
      text = m.gin.operative_config_str()
    except Exception as e:  # pylint: disable=broad-except
      text = ''
      fails.append(('operative-config-str-raised', '%s: %s' % (type(e).__name__, str(e)[:200])))
    values_ok = all(representable(o[2]) for o in case['ops'] if o[0] in ('bind', 'pbind')) and all_ok
    if values_ok and not fails:
      b = ginm.Machine(mutate=False)
      for c in case['regs']:
        b.register(c)
      try:
        b.gin.parse_config(text)
        for op in case['ops']:
          if op[0] in ('call', 'with'):
            b.exec_op(op)
        text2 = b.gin.operative_config_str()
        envs_a = [strip_ret(e[:3]) for e in m.log]
        envs_b = [strip_ret(e[:3]) for e in b.log]
        if C.jsonable(envs_a) != C.jsonable(envs_b):
          fails.append(('replay-different-arguments', 'first run %r; replay from the operative config %r; text %r' %
                        (C.jsonable(envs_a), C.jsonable(envs_b), text)))
        elif text2 != text:
          fails.append(('replay-different-text', '%r vs %r' % (text, text2)))
        tags.append('replayed')
      except Exception as e:  # pylint: disable=broad-except
        fails.append(('operative-text-does-not-replay', '%s: %s; text %r' % (type(e).__name__, e, text)))
    fails = m.readback_fails() + fails
    return {'obs': obs, 'fails': fails[:3], 'nontrivial': nontrivial, 'tags': tags}


class OperDynEngine(Engine):
  """the replay clause under DYNAMIC registration: configs written against real module objects (the C19 universe:
  several files, every import form, aliases, colliding bound names, references to other configurables), every bound
  function called under its scope, operative_config_str() parsed into the cleared configuration, the same calls
  repeated: same arguments, same text.  Implementation only (the operative model has static registration; the header
  and selector spelling are modelled and proved in C19 / C06)."""
  name = 'operative-dynamic'
  model = False

  def budget(self, tier):
    return 150 if tier == 'quick' else 4000

  def corpus(self):
    from harness.props import c19
    return [[[c19.DYN, ['import', 'pkga.util', False, 'u'], ['bind', '', 'u.f', 'x', 3], ['bind', 's1', 'u.g', 'r', [[], 'u.f']]],
             [c19.DYN, ['import', 'pkgb.util', False, 'u'], ['bind', '', 'u.f', 'y', 4], ['bind', '', 'u.f', 'r', [[], 'u.f']]]]]

  def gen(self, rng, tier):
    from harness.props import c19
    g = c19.DynEngine()
    while True:
      case = g.gen(rng, tier)
      if isinstance(case, list):
        return case

  def shrink(self, case):
    for i in range(len(case)):
      if len(case) > 1:
        yield case[:i] + case[i + 1:]
      for j in range(len(case[i])):
        yield case[:i] + [case[i][:j] + case[i][j + 1:]] + case[i + 1:]

  def impl(self, case):
    import inspect
    from harness.props import c19
    gin = C.fresh_gin()
    cfg = gin.config
    w = c19.World()
    fails, tags = [], []
    try:
      try:
        for stmts in case:
          gin.parse_config(c19.render(stmts))
      except Exception as e:  # pylint: disable=broad-except
        return {'obs': T('ParseError', type(e).__name__), 'fails': [], 'nontrivial': False, 'tags': ['parse-error']}

      def canon(v):
        if isinstance(v, dict):
          return sorted((k, canon(x)) for k, x in v.items())
        if callable(v):
          c = cfg._inverse_lookup(v, allow_decorators=True)  # pylint: disable=protected-access
          return ('configurable of', id(c.wrapped)) if c is not None else ('callable', id(v))
        return v
      targets = [(s, q) for (s, q) in cfg._CONFIG  # pylint: disable=protected-access
                 if q in cfg._REGISTRY and inspect.isfunction(cfg._REGISTRY[q].wrapped) and not q.startswith('gin.')]  # pylint: disable=protected-access

      def run_calls():
        out = []
        for s, q in targets:
          try:
            with gin.config_scope(s):
              out.append(canon(gin.get_configurable(q)()))
          except Exception as e:  # pylint: disable=broad-except
            out.append('raised %s: %s' % (type(e).__name__, str(e)[:80]))
        return out
      first = run_calls()
      text = gin.operative_config_str()
      nrefs = sum(1 for d in cfg._CONFIG.values() for v in d.values() if isinstance(v, cfg.ConfigurableReference))  # pylint: disable=protected-access
      gin.clear_config()
      try:
        gin.parse_config(text)
      except Exception as e:  # pylint: disable=broad-except
        fails.append(('operative-text-does-not-parse', '%s: %s; text %r' % (type(e).__name__, str(e)[:160], text)))
      else:
        second = run_calls()
        if second != first:
          fails.append(('operative-replay-differs', 'calls %r received %r; after clearing and parsing the operative text %r they '
                        'receive %r' % (targets, first, text, second)))
        else:
          text2 = gin.operative_config_str()
          if text2 != text:
            fails.append(('operative-text-not-reproduced', 'first %r, after the replay %r' % (text, text2)))
      tags.append('targets%d' % min(len(targets), 3))
      return {'obs': T('Done'), 'fails': fails[:2], 'nontrivial': len(targets) >= 2 and nrefs >= 1 and len(case) >= 2, 'tags': tags}
    finally:
      w.close()


def plain_py(v):
  t = v[0]
  if t == 'n':
    return None
  if t == 'l':
    return [plain_py(x) for x in v[1]]
  if t == 't':
    return tuple(plain_py(x) for x in v[1])
  if t == 'd':
    return {plain_py(k): plain_py(x) for k, x in v[1]}
  return v[1]


class OperCornerEngine(Engine):
  """Two kinds of history the Gin machine does not build, judged from the property text (implementation only):
  bound  the configurable is a BOUND callable -- a bound method, a bound classmethod or a callable instance handed to
         external_configurable: its first parameter (self / cls) is already supplied, so the caller's positional
         arguments start at the next one.  After any calls the record lists exactly the parameters Gin supplied
         (defaults and bindings minus what the caller passed in that call), and the text replays.
  late   after the bindings were parsed, another configurable is registered under a name that makes a reference's
         spelling ambiguous (a module imported later): calls keep working, operative_config_str() is produced, parses
         into the cleared configuration and replays the same arguments and text."""
  name = 'operative-corners'
  model = False
  PARAMS = ['a', 'b', 'c']
  DEFAULTS = {'a': 1, 'b': 'x', 'c': [2]}

  def budget(self, tier):
    return 100 if tier == 'quick' else 3000

  def corpus(self):
    return [
        {'kind': 'bound', 'shape': 'method', 'binds': [], 'calls': [['', 1, []]]},
        {'kind': 'bound', 'shape': 'instance', 'binds': [], 'calls': [['', 1, []]]},
        {'kind': 'bound', 'shape': 'classmethod', 'binds': [['', 'a', ['i', 7]], ['s1', 'b', ['s', 'y']]], 'calls': [['', 1, []], ['s1', 0, ['c']], ['s1', 2, []]]},
        {'kind': 'bound', 'shape': 'function', 'binds': [['', 'a', ['i', 7]]], 'calls': [['', 1, []], ['', 0, []]]},       # control
        {'kind': 'late', 'refs': [['a.g', 'g', True]], 'late': ['b.g'], 'calls_after': True},
        {'kind': 'late', 'refs': [['a.g', 'g', False], ['pkg.sub.h', 'sub.h', True]], 'late': ['q.sub.h', 'b.g'], 'calls_after': False},
    ]

  def gen(self, rng, tier):
    if rng.random() < 0.6:
      binds = [[rng.choice(['', '', 's1']), p, ginm.gen_plain(rng, 0)] for p in rng.sample(self.PARAMS, rng.randint(0, 3))]
      calls = []
      for _ in range(rng.randint(1, 4)):
        npos = rng.choice([0, 1, 1, 2, 3])
        calls.append([rng.choice(['', '', 's1', 's1/s2']), npos, [p for p in self.PARAMS[npos:] if rng.random() < 0.3]])
      return {'kind': 'bound', 'shape': rng.choice(['method', 'classmethod', 'instance', 'function']), 'binds': binds, 'calls': calls}
    pool = [['a.g', 'g'], ['a.g', 'a.g'], ['pkg.sub.h', 'h'], ['pkg.sub.h', 'sub.h'], ['k', 'k']]
    refs = [x + [rng.random() < 0.6] for x in rng.sample(pool, rng.randint(1, 3))]
    return {'kind': 'late', 'refs': refs, 'late': rng.sample(['b.g', 'z.a.g', 'q.sub.h', 'w.h', 'late.k'], rng.randint(0, 3)),
            'calls_after': rng.random() < 0.5}

  def shrink(self, case):
    for f in ('binds', 'calls', 'refs', 'late'):
      if f in case:
        for i in range(len(case[f])):
          yield dict(case, **{f: case[f][:i] + case[f][i + 1:]})

  def make_bound(self, gin, shape, log):
    def body(a, b, c):
      log.append({'a': a, 'b': b, 'c': c})
      return (a, b, c)

    class Holder:
      def meth(self, a=1, b='x', c=[2]):  # pylint: disable=dangerous-default-value
        return body(a, b, c)

      @classmethod
      def cmeth(cls, a=1, b='x', c=[2]):  # pylint: disable=dangerous-default-value
        return body(a, b, c)

      def __call__(self, a=1, b='x', c=[2]):  # pylint: disable=dangerous-default-value
        return body(a, b, c)

    def fn(a=1, b='x', c=[2]):  # pylint: disable=dangerous-default-value
      return body(a, b, c)
    target = {'method': Holder().meth, 'classmethod': Holder.cmeth, 'instance': Holder(), 'function': fn}[shape]
    return gin.external_configurable(target, name='probe', module='c07m')

  def bound(self, case, fails):
    tags = [case['shape']]
    texts, logs = [], []
    want = {}
    for run in (0, 1):
      gin = C.fresh_gin()
      log = []
      probe = self.make_bound(gin, case['shape'], log)
      if run == 0:
        for sc, p, v in case['binds']:
          gin.bind_parameter((sc + '/' if sc else '') + 'c07m.probe.' + p, plain_py(v))
      else:
        try:
          gin.parse_config(texts[0])
        except Exception as e:  # pylint: disable=broad-except
          fails.append(('operative-text-does-not-replay', '%s: %s; text %r' % (type(e).__name__, str(e)[:160], texts[0])))
          return tags
      for sc, npos, kws in case['calls']:
        args = ['pos%d' % i for i in range(npos)]
        kwargs = {k: 'kw_' + k for k in kws}
        try:
          with gin.config_scope(sc or None):
            probe(*args, **kwargs)
        except Exception as e:  # pylint: disable=broad-except
          fails.append(('call-raised' if run == 0 else 'operative-text-does-not-replay',
                        'probe(*%r, **%r) in scope %r, a %s with parameters (a=1, b=\'x\', c=[2])%s: %s: %s' % (
                            args, kwargs, sc, case['shape'], '' if run == 0 else ', repeated after parsing the operative text %r' % texts[0],
                            type(e).__name__, str(e).splitlines()[0][:160])))
          return tags
        if run == 0:
          # from the property text: what Gin supplies in this call = signature defaults overlaid with the bindings that apply
          # in the call's scope, minus the parameters the caller passed
          supplied = dict(self.DEFAULTS)
          parts = sc.split('/') if sc else []
          for i in range(len(parts) + 1):
            for bsc, p, v in case['binds']:
              if bsc == '/'.join(parts[:i]):
                supplied[p] = plain_py(v)
          got = log[-1]
          for i, p in enumerate(self.PARAMS):
            exp = 'pos%d' % i if i < npos else ('kw_' + p if p in kws else supplied[p])
            if got[p] != exp:
              fails.append(('wrong-arguments', 'probe(*%r, **%r) in scope %r received %s = %r, expected %r' % (args, kwargs, sc, p, got[p], exp)))
              return tags
          for p in self.PARAMS[:npos] + kws:
            supplied.pop(p)
          want.setdefault(sc, {}).update(supplied)
      cfg = gin.config
      record = {k[0]: dict(d) for k, d in cfg._OPERATIVE_CONFIG.items() if k[1] == 'c07m.probe'}  # pylint: disable=protected-access
      if run == 0 and record != want:
        fails.append(('operative-parameters', 'a %s probe(a=1, b=\'x\', c=[2]) with bindings %r called as %r: the record holds %r; Gin supplied %r' % (
            case['shape'], case['binds'], case['calls'], record, want)))
        return tags
      try:
        texts.append(gin.operative_config_str())
      except Exception as e:  # pylint: disable=broad-except
        fails.append(('operative-config-str-raised', '%s: %s' % (type(e).__name__, str(e)[:200])))
        return tags
      logs.append(log)
    if logs[0] != logs[1]:
      fails.append(('replay-different-arguments', 'first run %r; replay from the operative config %r; text %r' % (logs[0], logs[1], texts[0])))
    elif texts[0] != texts[1]:
      fails.append(('replay-different-text', '%r vs %r' % (texts[0], texts[1])))
    tags.append('replayed')
    return tags

  def late(self, case, fails):
    gin = C.fresh_gin()
    log = []

    def register(sel):
      name = sel.split('.')[-1]

      def fn(x=0, _sel=sel):
        log.append(('in', _sel))
        return 'result of ' + _sel
      fn.__name__ = name
      fn.__module__ = None
      gin.external_configurable(fn, name=name, module='.'.join(sel.split('.')[:-1]) or None)
    for sel in ('a.g', 'pkg.sub.h', 'k'):
      register(sel)

    @gin.configurable('consumer', module='c07m')
    def consumer(r0=None, r1=None, r2=None):
      vals = []
      for r in (r0, r1, r2):
        vals.append(r() if callable(r) else r)
      log.append(('consumer', vals))
      return vals
    gin.parse_config(''.join('consumer.r%d = @%s%s\n' % (i, sp, '()' if ev else '') for i, (_, sp, ev) in enumerate(case['refs'])))
    first = consumer()
    for sel in case['late']:
      register(sel)
    if case['calls_after']:
      again = consumer()
      if again != first:
        fails.append(('wrong-arguments', 'after %r were registered the same call received %r instead of %r' % (case['late'], again, first)))
        return ['late%d' % len(case['late'])]
    try:
      text = gin.operative_config_str()
    except Exception as e:  # pylint: disable=broad-except
      fails.append(('operative-config-str-raised', '%s: %s; bindings %r, then %r registered' % (type(e).__name__, str(e).splitlines()[0][:160], case['refs'], case['late'])))
      return ['late%d' % len(case['late'])]
    listed = [l.split(' = ')[0].rsplit('.', 1)[-1] for l in text.splitlines() if ' = @' in l and l.split(' = ')[0].endswith(tuple('consumer.r%d' % i for i in range(3)))]
    if sorted(listed) != ['r%d' % i for i in range(len(case['refs']))]:
      fails.append(('operative-parameters', 'Gin supplied %d references to consumer (r0..); the text lists %r: %r' % (len(case['refs']), listed, text)))
    gin.clear_config()
    try:
      gin.parse_config(text)
      replay = consumer()
    except Exception as e:  # pylint: disable=broad-except
      fails.append(('operative-text-does-not-replay', '%s: %s; text %r' % (type(e).__name__, str(e).splitlines()[0][:160], text)))
      return ['late%d' % len(case['late'])]
    if replay != first:
      fails.append(('replay-different-arguments', 'first run %r; replay from the operative config %r; text %r' % (first, replay, text)))
    elif gin.operative_config_str() != text:
      fails.append(('replay-different-text', '%r vs %r' % (text, gin.operative_config_str())))
    return ['late%d' % len(case['late']), 'replayed']

  def impl(self, case):
    fails = []
    tags = getattr(self, case['kind'])(case, fails)
    return {'obs': T('Done'), 'fails': fails[:3], 'nontrivial': case['kind'] == 'late' or len(case['calls']) >= 2, 'tags': [case['kind']] + tags}


def _has_int(v):
  return v[0] == 'i' or (v[0] == 'l' and any(_has_int(x) for x in v[1]))


def _bump(v):
  if v[0] == 'i':
    return ['i', v[1] + 100]
  if v[0] == 'l':
    return ['l', [_bump(x) for x in v[1]]]
  return v


class OperClearEngine(Engine):
  """The replay clause carried out the way the property states it -- in the SAME process, through gin.clear_config()
  (plain, or clear_constants=True with the Python-side constants defined again) -- for configurations that use the
  built-in configurables that keep state outside the bindings: `@name/gin.singleton()` references (constructor = a
  configurable class or function, possibly scoped, with its own root / scoped bindings, shared by several consumers,
  inside lists, one singleton built from another), macros, Python constants, evaluated and plain references.  A history
  may have an earlier epoch (another configuration, calls, clear_config) that must leave no trace.  Judged from the
  property text (implementation only; the Gin machine model has no built-in configurables and replays in a second gin):
    * the text, parsed into a fresh gin, has a section for exactly the (scope, configurable) pairs whose body ran
      (probe bodies log the scope they ran in), plus one `name/gin.singleton` section per singleton reference that was
      evaluated and one macro definition per macro used, nothing for constants; each section lists exactly the
      parameters the caller did not supply in at least one call, plain values as used most recently;
    * after gin.clear_config(), parsing the text and repeating the calls, every body execution (constructors included)
      happens again in the same scope with the same arguments (objects compared by class, constructor arguments and
      sharing pattern) and the text is reproduced; the same holds in a fresh gin."""
  name = 'operative-cleared'
  model = False
  MOD = 'c07s'
  CTORS = {'Enc': {'width': 8, 'depth': 2}, 'Dec': {'width': 4, 'mode': 'm'}, 'make': {'n': 0, 'tag': 't'}}
  CONSUMERS = {'train': {'enc': None, 'steps': 10}, 'evalf': {'enc': None, 'split': 'dev'}, 'pair': {'x': None, 'y': None}}

  def budget(self, tier):
    return 120 if tier == 'quick' else 4000

  def corpus(self):
    sing = ['sing', 'shared']
    return [
        # one singleton built by a configurable class, shared by two consumers, three calls; plain clear_config()
        {'consts': [], 'pre': None, 'full': False,
         'stmts': [['bind', '', 'train.enc', sing], ['bind', '', 'evalf.enc', sing], ['bind', 'final', 'evalf.split', ['s', 'test']],
                   ['sing', 'shared', 'Enc', ''], ['bind', '', 'Enc.width', ['i', 128]]],
         'calls': [['', 'train', []], ['', 'evalf', []], ['final', 'evalf', []]]},
        # constructor = a scoped function reference, bindings in the constructor's scope, a macro, a constant, the
        # singleton inside a list; an earlier epoch built the same singleton from other bindings
        {'consts': [['c07s.K', ['i', 3]]], 'full': False,
         'pre': {'stmts': [['sing', 'grp/one', 'make', 'cs'], ['bind', 'cs', 'make.n', ['i', 100]], ['bind', '', 'pair.x', ['sing', 'grp/one']]],
                 'calls': [['', 'pair', []]]},
         'stmts': [['macro', 'mm', ['i', 7]], ['sing', 'grp/one', 'make', 'cs'], ['bind', 'cs', 'make.n', ['macro', 'mm']],
                   ['bind', '', 'pair.x', ['l', [['sing', 'grp/one'], ['i', 1]]]], ['bind', 's1', 'pair.y', ['const', 'c07s.K']],
                   ['bind', '', 'train.enc', ['ref', '', 'Dec', True]]],
         'calls': [['s1', 'pair', []], ['', 'pair', [['y', ['i', 0]]]], ['', 'train', [['steps', ['i', 1]]]]]},
        # one singleton built from another, clear_config(clear_constants=True)
        {'consts': [], 'pre': None, 'full': True,
         'stmts': [['sing', 'shared', 'Enc', ''], ['sing', 'aux', 'Dec', ''], ['bind', 'shared', 'Enc.depth', ['sing', 'aux']],
                   ['bind', '', 'Dec.mode', ['s', 'q']], ['bind', '', 'train.enc', sing], ['bind', '', 'evalf.enc', ['sing', 'aux']]],
         'calls': [['', 'train', []], ['s1', 'evalf', []]]},
    ]

  # ------------------------------------------------------------------ generator
  def gen_epoch(self, rng, consts):
    snames = rng.sample(['shared', 'aux', 'grp/one'], rng.randint(1, 2))
    ctor_of = {}
    stmts = []
    macros = []
    if rng.random() < 0.4:
      macros.append('mm')
      stmts.append(['macro', 'mm', ginm.gen_plain(rng, 0)])
    for sn in snames:
      ctor_of[sn] = rng.choice(sorted(self.CTORS))
      stmts.append(['sing', sn, ctor_of[sn], 'cs' if rng.random() < 0.25 else ''])

    def plainish():
      x = rng.random()
      if x < 0.15 and macros:
        return ['macro', 'mm']
      if x < 0.3 and consts:
        return ['const', rng.choice(consts)[0]]
      return rng.choice([['i', rng.randint(-3, 300)], ['s', rng.choice(['a', 'it\'s', 'x y'])], ['n'], ['l', [['i', rng.randint(0, 9)]]]])
    for sn in snames:
      ct = ctor_of[sn]
      for p in self.CTORS[ct]:
        if rng.random() < 0.5:
          stmts.append(['bind', rng.choice(['', sn, 'cs', sn.split('/')[0]]), ct + '.' + p, plainish()])
    if len(snames) == 2 and ctor_of[snames[0]] != ctor_of[snames[1]] and rng.random() < 0.4:
      ct = ctor_of[snames[0]]         # the first singleton is built from the second one (no cycle: the constructors differ)
      stmts.append(['bind', snames[0], ct + '.' + rng.choice(sorted(self.CTORS[ct])), ['sing', snames[1]]])
    for cn in sorted(self.CONSUMERS):
      for p in self.CONSUMERS[cn]:
        x = rng.random()
        if x < 0.35:
          v = ['sing', rng.choice(snames)]
        elif x < 0.45:
          v = ['ref', rng.choice(['', '', 'cs']), rng.choice(sorted(self.CTORS)), rng.random() < 0.6]
        elif x < 0.55:
          v = ['l', [['sing', rng.choice(snames)], plainish()]]
        elif x < 0.75:
          v = plainish()
        else:
          continue
        stmts.append(['bind', rng.choice(['', '', 's1', 'final']), cn + '.' + p, v])
    calls = []
    for _ in range(rng.randint(1, 5)):
      cn = rng.choice(sorted(self.CONSUMERS))
      calls.append([rng.choice(['', '', 's1', 'final', 's1/final']), cn,
                    [[p, ['i', rng.randint(0, 5)]] for p in self.CONSUMERS[cn] if rng.random() < 0.25]])
    return stmts, calls

  def gen(self, rng, tier):
    consts = [['c07s.K', ginm.gen_plain(rng, 0)]] if rng.random() < 0.4 else []
    stmts, calls = self.gen_epoch(rng, consts)
    pre = None
    x = rng.random()
    if x < 0.25:      # the same configuration with other numbers, the same calls
      pre = {'stmts': [[s[0], s[1], s[2], _bump(s[3])] if s[0] == 'bind' else s for s in stmts], 'calls': calls}
    elif x < 0.4:
      ps, pc = self.gen_epoch(rng, consts)
      pre = {'stmts': ps, 'calls': pc}
    return {'consts': consts, 'pre': pre, 'stmts': stmts, 'calls': calls, 'full': rng.random() < 0.3}

  def shrink(self, case):
    if case['pre'] is not None:
      yield dict(case, pre=None)
      for f in ('stmts', 'calls'):
        for i in range(len(case['pre'][f])):
          yield dict(case, pre=dict(case['pre'], **{f: case['pre'][f][:i] + case['pre'][f][i + 1:]}))
    for f in ('calls', 'stmts', 'consts'):
      for i in range(len(case[f])):
        yield dict(case, **{f: case[f][:i] + case[f][i + 1:]})

  # ------------------------------------------------------------------ rendering
  def rv(self, v):
    t = v[0]
    if t == 'l':
      return '[' + ', '.join(self.rv(x) for x in v[1]) + ']'
    if t == 'sing':
      return '@%s/gin.singleton()' % v[1]
    if t == 'ref':
      return '@%s%s%s' % (v[1] + '/' if v[1] else '', v[2], '()' if v[3] else '')
    if t in ('macro', 'const'):
      return '%' + v[1]
    return repr(plain_py(v))

  def render(self, stmts):
    out = []
    for s in stmts:
      if s[0] == 'macro':
        out.append('%s = %s' % (s[1], self.rv(s[2])))
      elif s[0] == 'sing':
        out.append('%s/gin.singleton.constructor = @%s%s' % (s[1], s[3] + '/' if s[3] else '', s[2]))
      else:
        out.append('%s%s = %s' % (s[1] + '/' if s[1] else '', s[2], self.rv(s[3])))
    return '\n'.join(out) + '\n'

  # ------------------------------------------------------------------ the probes
  def universe(self, gin, log):
    class Obj:
      kind = '?'

      def __init__(self, state):
        self.state = state
        log.append((gin.current_scope_str(), self.kind, state))

    class Enc(Obj):
      kind = 'Enc'

      def __init__(self, width=8, depth=2):
        Obj.__init__(self, {'width': width, 'depth': depth})

    class Dec(Obj):
      kind = 'Dec'

      def __init__(self, width=4, mode='m'):
        Obj.__init__(self, {'width': width, 'mode': mode})

    class Made(Obj):
      kind = 'make'

    def make(n=0, tag='t'):
      return Made({'n': n, 'tag': tag})

    def train(enc=None, steps=10):
      log.append((gin.current_scope_str(), 'train', {'enc': enc, 'steps': steps}))

    def evalf(enc=None, split='dev'):
      log.append((gin.current_scope_str(), 'evalf', {'enc': enc, 'split': split}))

    def pair(x=None, y=None):
      log.append((gin.current_scope_str(), 'pair', {'x': x, 'y': y}))
    probes = {}
    for name, f in (('Enc', Enc), ('Dec', Dec), ('make', make), ('train', train), ('evalf', evalf), ('pair', pair)):
      probes[name] = gin.external_configurable(f, name=name, module=self.MOD)
    return probes, Obj

  def canon_log(self, log, Obj):
    """per top-level call: the constructor bodies that ran during it (as a sorted list: in which order the references of
    one call are evaluated is not the property's business) and what the consumer body received; objects are numbered in
    the order in which the consumers see them (call order, parameters by name)"""
    seen = {}

    def canon(v):
      if isinstance(v, Obj):
        if id(v) not in seen:
          seen[id(v)] = len(seen)
        return ['object', v.kind, sorted((k, canon(x)) for k, x in v.state.items()), 'identity #%d' % seen[id(v)]]
      if isinstance(v, (list, tuple)):
        return [type(v).__name__] + [canon(x) for x in v]
      if isinstance(v, dict):
        return ['dict'] + sorted((repr(k), canon(x)) for k, x in v.items())
      if callable(v):
        return ['callable', getattr(v, '__name__', '?')]
      return repr(v)

    def entry(e):
      return [e[0], e[1], sorted((k, canon(x)) for k, x in e[2].items())]
    consumers = {i: entry(e) for i, e in enumerate(log) if e[1] in self.CONSUMERS}      # numbers the objects
    out, nested = [], []
    for i, e in enumerate(log):
      if i in consumers:
        out.append({'constructed during the call': sorted(nested, key=repr), 'call': consumers[i]})
        nested = []
      else:
        nested.append(entry(e))
    if nested:
      out.append({'constructed after the last call': sorted(nested, key=repr)})
    return out

  def run_calls(self, gin, probes, calls):
    for sc, cn, kws in calls:
      with gin.config_scope(sc or None):
        probes[cn](**{k: plain_py(v) for k, v in kws})

  def clear(self, gin, case):
    if case['full']:
      gin.clear_config(clear_constants=True)
      for n, v in case['consts']:       # Python-side definitions, made again like any program start would
        gin.constant(n, plain_py(v))
    else:
      gin.clear_config()

  # ------------------------------------------------------------------ what the property text expects
  def expected(self, case, log):
    """sections and parameters, from the statements, the calls made and the (scope, name) of every body that ran"""
    binds = {}
    for s in case['stmts']:
      if s[0] == 'bind':
        sel, _, p = s[2].rpartition('.')
        binds.setdefault((s[1], sel), {})[p] = s[3]
      elif s[0] == 'sing':
        binds.setdefault((s[1], 'gin.singleton'), {})['constructor'] = ['ref', s[3], s[2], False]
    sigs = dict(self.CTORS, **self.CONSUMERS)

    def applicable(scope, sel):
      parts = scope.split('/') if scope else []
      out = {}
      for i in range(len(parts) + 1):
        out.update(binds.get(('/'.join(parts[:i]), sel), {}))
      return out

    def uses(v, acc):
      if v[0] == 'l':
        for x in v[1]:
          uses(x, acc)
      elif v[0] in ('sing', 'macro'):
        acc.add((v[0], v[1]))
    # caller-supplied names: the consumer bodies ran once per call, in call order; constructors are never handed anything
    supplied_of = iter([{k for k, _ in kws} for _, _, kws in case['calls']])
    want, used = {}, set()
    for sc, name, _ in log:
      supplied = next(supplied_of) if name in self.CONSUMERS else set()
      rec = {p: ('plain', d) for p, d in sigs[name].items()}
      for p, v in applicable(sc, name).items():
        rec[p] = ('plain', plain_py(v)) if v[0] in ('i', 's', 'n') or (v[0] == 'l' and not any(x[0] in ('sing', 'ref', 'macro', 'const') for x in v[1])) else ('other', None)
        if p not in supplied:
          uses(v, used)
      for p in supplied:
        rec.pop(p)
      want.setdefault((sc, self.MOD + '.' + name), {}).update(rec)
    for kind, n in used:
      if kind == 'sing':
        want[(n, 'gin.singleton')] = {'constructor': ('other', None)}
      else:
        want[(n, 'gin.macro')] = {'value': ('other', None)}
    return {k: d for k, d in want.items() if d}

  def impl(self, case):
    fails, tags = [], []
    gin = C.fresh_gin()
    log = []
    probes, Obj = self.universe(gin, log)
    for n, v in case['consts']:
      gin.constant(n, plain_py(v))
    try:
      if case['pre'] is not None:
        gin.parse_config(self.render(case['pre']['stmts']))
        self.run_calls(gin, probes, case['pre']['calls'])
        self.clear(gin, case)
        del log[:]
        tags.append('earlier-epoch')
      gin.parse_config(self.render(case['stmts']))
      self.run_calls(gin, probes, case['calls'])
    except Exception as e:  # pylint: disable=broad-except
      return {'obs': T('CallError', type(e).__name__), 'fails': [], 'nontrivial': False, 'tags': ['call-error']}
    raw1 = list(log)
    first = self.canon_log(raw1, Obj)
    history = 'configuration %r, calls %r%s' % (self.render(case['stmts']), case['calls'],
                                               '' if case['pre'] is None else ' (after an earlier epoch: configuration %r, calls %r, clear_config)' % (
                                                   self.render(case['pre']['stmts']), case['pre']['calls']))
    try:
      text = gin.operative_config_str()
    except Exception as e:  # pylint: disable=broad-except
      fails.append(('operative-config-str-raised', '%s: %s; %s' % (type(e).__name__, str(e)[:200], history)))
      return {'obs': T('Done'), 'fails': fails, 'nontrivial': False, 'tags': tags}
    want = self.expected(case, raw1)
    nsing = sum(1 for k in want if k[1] == 'gin.singleton')
    tags.append('singletons%d' % min(nsing, 2))

    def replay(g, pr, lg, obj_cls, how):
      try:
        g.parse_config(text)
        if how == 'fresh':       # the sections of the text, as its own parser reads them
          got = {k: dict(d) for k, d in g.config._CONFIG.items()}  # pylint: disable=protected-access
          if set(got) != set(want):
            fails.append(('operative-sections', 'the text has sections %r; the bodies that ran / singletons and macros used give %r; '
                          'text %r; %s' % (sorted(got), sorted(want), text, history)))
          else:
            for k in sorted(want):
              if set(got[k]) != set(want[k]):
                fails.append(('operative-parameters', 'section %r lists %r; Gin supplied %r; text %r; %s' % (
                    k, sorted(got[k]), sorted(want[k]), text, history)))
                break
              bad = [p for p, (kind, v) in want[k].items() if kind == 'plain' and not C.strict_eq(got[k][p], v)]
              if bad:
                fails.append(('operative-parameters', 'section %r has %s = %r; the value Gin supplied most recently was %r; text %r; %s' % (
                    k, bad[0], got[k][bad[0]], want[k][bad[0]][1], text, history)))
                break
        self.run_calls(g, pr, case['calls'])
        text2 = g.operative_config_str()
      except Exception as e:  # pylint: disable=broad-except
        fails.append(('operative-text-does-not-replay', '%s: %s: %s; text %r; %s' % (how, type(e).__name__, str(e).splitlines()[0][:160], text, history)))
        return
      again = self.canon_log(lg, obj_cls)
      if again != first:
        fails.append(('replay-different-calls', '%s: the bodies that ran, with their scope and arguments, were %r; repeating the calls '
                      'after parsing the operative text gives %r; text %r; %s' % (how, first, again, text, history)))
      elif text2 != text:
        fails.append(('replay-different-text', '%s: %r vs %r; %s' % (how, text, text2, history)))

    # (1) in the same process, through clear_config
    self.clear(gin, case)
    del log[:]
    replay(gin, probes, log, Obj, 'after gin.clear_config(%s) in the same process' % ('clear_constants=True' if case['full'] else ''))
    # (2) in a fresh gin
    gin2 = C.fresh_gin()
    log2 = []
    probes2, Obj2 = self.universe(gin2, log2)
    for n, v in case['consts']:
      gin2.constant(n, plain_py(v))
    replay(gin2, probes2, log2, Obj2, 'fresh')
    tags.append('replayed')
    return {'obs': T('Done'), 'fails': fails[:3], 'nontrivial': nsing >= 1 and len(case['calls']) >= 2, 'tags': tags}


ENGINES = [OperEngine(), OperDynEngine(), OperCornerEngine(), OperClearEngine()]
