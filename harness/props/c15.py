"""C15 — skip_unknown drops exactly the statements that target unknown names."""
from harness import common as C
from harness import textm
from harness.common import T
from harness.main import Engine
from harness.props import c16

PID = 'C15'
LEVEL = 'proof'
RULE = ('gin-machine/skip: config texts mixing known / unknown / ambiguous targets, blocks, macro definitions, '
        'references to known and unknown configurables nested in containers, imports of present / missing modules, '
        'parsed with skip_unknown in {omitted, False, True, [], [names], (names), {names}}; independent oracle: a '
        'statement-level reference interpreter of the property text (delete covered unknown targets and missing imports, '
        'keep placeholders, anything else unknown is an error) + every placeholder must raise on use and at finalize. '
        'Whenever a statement was deleted (incl. imports of missing modules, static and dynamic registration, 6 spellings, also '
        'before the line enabling dynamic registration), config_str() / operative_config_str() after using every bound '
        'configurable must EQUAL those of a second fresh gin given the text with those statements deleted (an exception of '
        'either is an observation); finalize() on placeholders must raise the ValueError, nothing else. '
        'non-trivial = the text targets an unknown configurable AND (skip_unknown is list-valued OR an applied binding holds an unknown-reference placeholder).')
TRUSTED_BASE = c16.TRUSTED_BASE
ASSUMPTIONS = ['static registration (imports may register configurables: modelled); the dynamic-registration clause of the property is exercised by the C19 engine']

KNOWN = {'f': 'm.f', 'm.f': 'm.f', 'g': 'n.g', 'n.g': 'n.g', 'k': 'k', 'x.h': 'x.h', 'y.h': 'y.h'}
AMBIG = ['h']
UNKNOWN = ['u1', 'pkg.u2', 'nosuch']
PARAMS = {'m.f': ['a', 'b', 'c'], 'n.g': ['a'], 'k': ['a', 'zz'], 'x.h': ['a'], 'y.h': ['a']}
SKS = [None, False, True, ['list', []], ['list', ['u1']], ['tuple', ['u1', 'pkg.u2']], ['set', ['nosuch']],
       ['list', ['u1', 'pkg.u2', 'nosuch']], ['list', ['u2']]]


def gen_ref(rng):
  sel = rng.choice(list(KNOWN) + UNKNOWN + AMBIG)
  scope = rng.choice(['', '', 's1/', 's1/s2/', 's2/s1/s3/'])
  return ['ref', scope + sel, rng.random() < 0.5]


def gen_val(rng, depth=2):
  r = rng.random()
  if r < 0.45 or depth == 0:
    return ['lit', str(rng.randint(0, 9))]
  if r < 0.75:
    return gen_ref(rng)
  if r < 0.85:
    return ['macro', rng.choice(['mac', 'other'])]
  return ['list', [gen_val(rng, depth - 1) for _ in range(rng.randint(1, 3))]]


def val_text(v):
  if v[0] == 'lit':
    return v[1]
  if v[0] == 'ref':
    return '@' + v[1] + ('()' if v[2] else '')
  if v[0] == 'macro':
    return '%' + v[1]
  return '[' + ', '.join(val_text(x) for x in v[1]) + ']'


def covered(sel, sk):
  if sk is True:
    return True
  if sk in (None, False):
    return False
  return sel in sk[1]


class Stop(Exception):
  def __init__(self, cls):
    super().__init__(cls)
    self.cls = cls


def conv(v, sk, known=None):
  known = KNOWN if known is None else known
  """the value as the property describes it (references in parse order)"""
  if v[0] == 'lit':
    return T('int', v[1])
  if v[0] == 'macro':
    return T('Ref', v[1].split('/'), 'gin.macro', True)
  if v[0] == 'list':
    return T('L', *[conv(x, sk, known) for x in v[1]])
  scopes, _, sel = v[1].rpartition('/')
  if sel in known:
    return T('Ref', scopes.split('/') if scopes else [], known[sel], v[2])
  if sel in AMBIG:
    raise Stop('KeyError')
  if covered(sel, sk):
    return T('Unk', sel, v[2])
  raise Stop('ValueError')


def reference(stmts, sk, plugins=None, kept=None):
  """-> (store, error class or None); `kept` (a list) receives the statements that are NOT deleted, in order"""
  store, order = {}, []
  kept = [] if kept is None else kept
  known = dict(KNOWN)
  plugins = plugins or {}

  def put(scope, full, p, val):
    key = (scope, full)
    if key not in store:
      store[key] = {}
      order.append(key)
    store[key][p] = val
  try:
    for st in stmts:
      k = st[0]
      if k == 'import':
        if st[1] in plugins:
          for full in plugins[st[1]]:            # importing the module registers its configurables: known from here on
            known[full] = full
            known[full.split('.')[-1]] = full
        elif st[1] not in c16.MODULES:
          if not (sk is True or (isinstance(sk, list) and sk[1])):
            raise Stop('ModuleNotFoundError')
          continue                               # import of a missing module: deleted
        kept.append(st)
      elif k == 'macro':
        put(st[1], 'gin.macro', 'value', conv(st[2], sk, known))
        kept.append(st)
      elif k == 'bind':
        val = conv(st[4], sk, known)          # the value is parsed (references created) before the skip decision
        sel = st[2]
        if sel in known:
          put(st[1], known[sel], st[3], val)
          kept.append(st)
        elif sel in AMBIG:
          raise Stop('KeyError')
        elif not covered(sel, sk):
          raise Stop('ValueError')
      elif k == 'block':
        vals = [conv(v, sk, known) for _, v in st[3]]
        sel = st[2]
        if sel in known:
          for (p, _), val in zip(st[3], vals):
            put(st[1], known[sel], p, val)
          kept.append(st)
        elif sel in AMBIG:
          raise Stop('KeyError')
        elif not covered(sel, sk):
          raise Stop('ValueError')
    err = None
  except Stop as e:
    err = e.cls
  return [[k[0], k[1], [[p, v] for p, v in store[k].items()]] for k in order], err


def render(stmts):
  out = []
  for st in stmts:
    k = st[0]
    if k == 'import':
      out.append('import ' + st[1])
    elif k == 'macro':
      out.append('%s = %s' % (st[1], val_text(st[2])))
    elif k == 'bind':
      out.append('%s%s.%s = %s' % (st[1] + '/' if st[1] else '', st[2], st[3], val_text(st[4])))
    else:
      out.append('%s%s:' % (st[1] + '/' if st[1] else '', st[2]))
      for p, v in st[3]:
        out.append('  %s = %s' % (p, val_text(v)))
  return '\n'.join(out) + '\n'


def has_unk(c):
  if isinstance(c, T):
    return c.tag == 'Unk' or any(has_unk(a) for a in c.args)
  if isinstance(c, list):
    return any(has_unk(a) for a in c)
  return False


def shown(m, store_obs, first=()):
  """what gin's public API shows about the configuration a parse left behind: every configurable that has bindings is
  called once in each of its scopes (whatever that raises -- placeholders do), then config_str() and
  operative_config_str(); an exception of either is part of the observation, never a harness failure"""
  out = {}
  for s, q, _ in list(first) + list(store_obs):
    if q in m.wrappers:
      try:
        with m.gin.config_scope(s):
          m.wrappers[q]()
      except Exception:  # pylint: disable=broad-except
        pass
  for name in ('config_str', 'operative_config_str'):
    try:
      out[name] = getattr(m.gin, name)()
    except Exception as e:  # pylint: disable=broad-except
      out[name] = 'RAISED %s: %s' % (type(e).__name__, str(e)[:300])
  return out


def deletion_check(engine, c, kept, holders, got):
  """the property's own wording, observed at config_str(): the configuration after parsing with skip_unknown enabled is
  EXACTLY the one obtained from the text with the covered unknown statements and the imports of missing modules deleted
  (parsed by a second, fresh gin with the same skip_unknown: placeholders inside applied bindings stay)"""
  fails = []
  m2 = textm.TextMachine(engine.case({'stmts': kept, 'sk': c['sk']}))
  try:
    obs2, _ = m2.run()
    want = shown(m2, obs2[1], holders) if (isinstance(obs2[0], T) and obs2[0].tag == 'Ok') else {'parse': C.jsonable(obs2[0])}
  except Exception as e:  # pylint: disable=broad-except
    want = {'reduced text': 'RAISED %s: %s' % (type(e).__name__, e)}
  finally:
    m2.close()
  for name in sorted(set(got) | set(want)):
    if got.get(name) != want.get(name):
      fails.append(('skip-not-a-deletion', 'skip_unknown=%r: %s after parsing %r is %r; after parsing the text with the unknown '
                    'statements / missing imports deleted, %r, it is %r' %
                    (c['sk'], name, render(c['stmts']), got.get(name), render(kept) if kept else '', want.get(name))))
  return fails


class SkipEngine(Engine):
  name = 'skip-unknown'
  imports = 'Model.SelectorMap Model.Parser Model.Stmt'
  run_fn = 'Stmt.run'

  def budget(self, tier):
    return 700 if tier == 'quick' else 20000

  def corpus(self):
    st = [['bind', '', 'f', 'a', ['ref', 'u1', True]], ['block', 's1', 'u1', [['x', ['lit', '1']], ['y', ['ref', 'f', False]]]],
          ['bind', '', 'pkg.u2', 'q', ['lit', '2']], ['import', 'missing.mod'], ['macro', 'mac', ['ref', 'nosuch', False]],
          ['bind', '', 'g', 'a', ['list', [['ref', 'k', False], ['ref', 's1/u1', True]]]]]
    # imports of missing modules (first, between and after applied statements, next to an import of a present module)
    # in a text whose applied bindings hold no placeholder: what is left is observable through config_str() only
    st2 = [['import', 'nope'], ['bind', '', 'f', 'a', ['lit', '1']], ['import', 'pkg.mod'], ['bind', 's1', 'u1', 'q', ['lit', '2']],
           ['import', 'missing.mod'], ['bind', '', 'k', 'zz', ['list', [['lit', '3'], ['ref', 'g', False]]]]]
    st3 = [['bind', 's1', 'g', 'a', ['lit', '4']], ['import', 'missing.mod']]
    return ([{'stmts': st, 'sk': sk} for sk in SKS] +
            [{'stmts': st2, 'sk': sk} for sk in (True, ['list', ['u1']], ['set', ['u1', 'nosuch']], False)] +
            [{'stmts': st3, 'sk': ['tuple', ['u1', 'pkg.u2']]}])

  def gen(self, rng, tier):
    stmts = []
    for _ in range(rng.randint(1, 8)):
      r = rng.random()
      scope = rng.choice(['', '', 's1', 's1/s2'])
      if r < 0.5:
        sel = rng.choice(list(KNOWN) * 2 + UNKNOWN * 2 + AMBIG)
        p = rng.choice(PARAMS.get(KNOWN.get(sel, ''), ['a', 'q']))
        stmts.append(['bind', scope, sel, p, gen_val(rng)])
      elif r < 0.7:
        sel = rng.choice(list(KNOWN) + UNKNOWN * 2)
        ps = PARAMS.get(KNOWN.get(sel, ''), ['x', 'y'])
        stmts.append(['block', scope, sel, [[p, gen_val(rng, 1)] for p in rng.sample(ps, rng.randint(1, min(2, len(ps))))]])
      elif r < 0.85:
        stmts.append(['import', rng.choice(c16.MODULES + ['missing.mod', 'nope'])])
      else:
        stmts.append(['macro', rng.choice(['mac', 's1/mac']), gen_val(rng, 1)])
    return {'stmts': stmts, 'sk': rng.choice(SKS)}

  def case(self, c):
    return {'regs': c16.REGS, 'consts': [], 'files': [{}], 'prefixes': [''], 'modules': c16.MODULES,
            'calls': [['text', render(c['stmts']), c['sk']]]}

  def to_coq(self, c):
    return textm.case_coq(self.case(c))

  def shrink(self, c):
    for i in range(len(c['stmts'])):
      yield {'stmts': c['stmts'][:i] + c['stmts'][i + 1:], 'sk': c['sk']}

  plugins = None

  def impl(self, c):
    m = textm.TextMachine(self.case(c))
    fails, tags = [], []
    kept, got, holders = [], None, []
    try:
      obs, _ = m.run()
      want_store, want_err = reference(c['stmts'], c['sk'], self.plugins, kept)
      res = obs[0]
      got_err = None if (isinstance(res, T) and res.tag == 'Ok') else (res.args[0] if res.tag == 'Err' else 'SyntaxError')
      tags.append('sk:' + ('omitted' if c['sk'] is None else str(c['sk'])[:12]))
      tags.append('err:%s' % got_err)
      if got_err != want_err:
        fails.append(('skip-outcome', 'skip_unknown=%r on %r: outcome %r, the property requires %r' %
                      (c['sk'], render(c['stmts']), got_err, want_err)))
      elif C.jsonable(obs[1]) != C.jsonable(want_store):
        fails.append(('skip-configuration', 'skip_unknown=%r on %r: store %r, the property requires %r' %
                      (c['sk'], render(c['stmts']), C.jsonable(obs[1]), C.jsonable(want_store))))
      elif got_err is None:
        # placeholders raise on use and at finalize
        holders = [(s, q, p) for s, q, pd in obs[1] for p, v in pd if has_unk(v)]
        for s, q, p in holders:
          if q in m.wrappers and (s == '' or True):
            try:
              with m.gin.config_scope(s):
                m.wrappers[q]()
              fails.append(('placeholder-silently-used', '%s/%s.%s holds a placeholder but the call succeeded' % (s, q, p)))
            except ValueError:
              pass
            except RecursionError:
              pass     # the value also holds an evaluated reference to the configurable itself (`y.h.a = [@s1/y.h(), ...]`):
                       # unbounded recursion is Python's answer to that binding, with or without the placeholder
            except Exception as e:  # pylint: disable=broad-except
              if not (isinstance(e, TypeError) and 'macro()' in str(e)):   # an unbound macro evaluated first
                fails.append(('placeholder-wrong-error', '%s: %s' % (type(e).__name__, e)))
        if len(kept) != len(c['stmts']):
          got = shown(m, obs[1])               # something was deleted: observed before finalize locks the config
        if holders:
          try:
            m.gin.finalize()
            fails.append(('placeholder-passed-finalize', repr(holders)))
          except ValueError:
            pass
          except Exception as e:  # pylint: disable=broad-except
            fails.append(('placeholder-wrong-error', 'skip_unknown=%r on %r: finalize() raised %s: %s instead of the '
                          '"no configurable matching" ValueError' % (c['sk'], render(c['stmts']), type(e).__name__, e)))
    finally:
      m.close()
    if got is not None:
      fails += deletion_check(self, c, kept, holders, got)   # (same history in the second gin: the placeholder uses first)
    return {'obs': obs, 'fails': fails[:3], 'nontrivial': self.nontrivial(c, obs), 'tags': tags}

  def nontrivial(self, c, obs):
    dropped = any(st[0] in ('block', 'bind') and st[2] in UNKNOWN for st in c['stmts'])
    return dropped and (isinstance(c['sk'], list) or any(has_unk(v) for _, _, pd in obs[1] for _, v in pd))


PLUGINS = {'c15plug_one': ['late.lfn'], 'c15plug_two': ['late2.zfn', 'late2.wfn']}
PLUG_SKS = SKS + [['list', ['lfn']], ['set', ['lfn', 'zfn', 'u1']], ['tuple', ['late.lfn', 'wfn']]]


class SkipPluginEngine(SkipEngine):
  """modules whose import REGISTERS configurables (a real import with side effects through a meta-path finder): a name
  is unknown before the import statement and known after it, within one parse (Model/Stmt.v: register_mod)."""
  name = 'skip-unknown-plugins'

  def budget(self, tier):
    return 150 if tier == 'quick' else 4000

  def corpus(self):
    st = [['bind', '', 'lfn', 'a', ['lit', '1']], ['import', 'c15plug_one'], ['bind', '', 'lfn', 'b', ['lit', '2']],
          ['bind', '', 'f', 'a', ['ref', 'lfn', True]], ['bind', '', 'zfn', 'a', ['lit', '3']]]
    return [{'stmts': st, 'sk': sk} for sk in PLUG_SKS]

  def gen(self, rng, tier):
    c = super().gen(rng, tier)
    stmts = c['stmts']
    for _ in range(rng.randint(1, 4)):
      r = rng.random()
      pos = rng.randint(0, len(stmts))
      if r < 0.4:
        stmts.insert(pos, ['import', rng.choice(list(PLUGINS))])
      else:
        sel = rng.choice(['lfn', 'late.lfn', 'zfn', 'wfn', 'late2.wfn'])
        if rng.random() < 0.7:
          stmts.insert(pos, ['bind', rng.choice(['', 's1']), sel, rng.choice(['a', 'b']), gen_val(rng, 1)])
        else:
          stmts.insert(pos, ['bind', '', 'f', 'a', ['ref', sel, rng.random() < 0.5]])
    return {'stmts': stmts, 'sk': rng.choice(PLUG_SKS)}

  def case(self, c):
    d = super().case(c)
    d['plugins'] = PLUGINS
    return d

  plugins = PLUGINS                       # SkipEngine.impl with the registrations the imports make

  def nontrivial(self, c, obs):
    imported = [i for i, st in enumerate(c['stmts']) if st[0] == 'import' and st[1] in PLUGINS]
    late = [i for i, st in enumerate(c['stmts']) if st[0] == 'bind' and st[2].split('.')[-1] in ('lfn', 'zfn', 'wfn')]
    return bool(imported) and any(i > imported[0] for i in late) and isinstance(c['sk'], list)


# ---------------------------------------------------------------------------------------------------------------------
# dynamic registration: "known" = resolvable through the file's OWN imports, independent of what was parsed before
DYN_SKS = [None, False, True, ['list', []], ['list', ['@N']], ['tuple', ['@N', 'zz.other']], ['set', ['@N']], ['list', ['zz.other']]]
DYN_OWN = {'plain': ('import c15aux.other', 'c15aux.other.gn'), 'from-as': ('from c15aux import other as o', 'o.gn'),
           'as': ('import c15aux.other as o2', 'o2.gn')}
# names the text under test does NOT import, with the import line (of ANOTHER text) that provides that very spelling
DYN_NAMES = {'u.fn': 'import c15dyn.util as u', 'c15dyn.util.fn': 'import c15dyn.util', 'util.K': 'from c15dyn import util',
             'util.fn': 'from c15dyn import util', 'fn': None, 'sfn': None, 'smod.sfn': None}
DYN_PRELUDES = ['none', 'dyn-file', 'dyn-file-skipping', 'static', 'same-text']
# 'same-text': no earlier parse at all -- the text under test itself imports c15dyn.util (binding the name `c15dyn`) and
# configures c15dyn.util.<f> first, which registers it; the PARTIAL spelling N = util.<f> / <f> then matches that
# registration although the text's imports do not provide a symbol `util` / `<f>`
DYN_SAME_TEXT = ('util.K', 'util.fn', 'fn')
# imports of modules that do not exist (kind 'miss' in the body, 'miss_top' before the line that enables dynamic
# registration): all four spellings, a missing top-level module and a missing submodule of a package that exists
DYN_MISSING = ['import c15nomod', 'from c15nomod import thing', 'import c15nomod.sub as alias', 'from c15aux import nosub',
               'import c15aux.nosub', 'from c15nomod.sub import thing as th']


class DynKnownEngine(Engine):
  """Texts that enable dynamic registration and target / reference a name N their own imports do NOT provide, next to
  names they do provide, parsed with every form of skip_unknown -- once in a fresh process and once after a PRELUDE made
  the spelling N match a registration (another dynamic-registration text that imports the module under that alias and was
  parsed before, with or without skip_unknown; or a static gin.external_configurable under that name), followed by
  clear_config(); or the text itself registered the object under its full spelling two lines earlier ('same-text').  From the property text: 'known' means resolvable through the file's imports, independent of what was
  parsed before; so (1) the outcome and the store are those of the statement-level reading of the property (N covered by
  skip_unknown: statements targeting N are deleted, references to N are placeholders; not covered: an error) and (2) they
  are the same with and without the prelude; (3) placeholders raise 'No configurable matching' on use and at finalize.
  Implementation only (registrations made outside the parsed texts are not in DynReg's state)."""
  name = 'skip-dynamic-known'
  model = False

  def budget(self, tier):
    return 24 if tier == 'quick' else 600

  def corpus(self):
    out = []
    for n, pre, sk, kinds in [
        ('u.fn', 'dyn-file', True, ['bind']), ('u.fn', 'dyn-file', ['list', ['@N']], ['bind', 'own']),
        ('u.fn', 'dyn-file', ['set', ['@N']], ['block']), ('c15dyn.util.fn', 'dyn-file', True, ['own', 'sbind']),
        ('util.K', 'dyn-file-skipping', ['tuple', ['@N', 'zz.other']], ['bind', 'own']),
        ('sfn', 'static', True, ['ref']), ('smod.sfn', 'static', ['list', ['@N']], ['own', 'lref']),
        ('u.fn', 'static', True, ['ref', 'bind']), ('u.fn', 'dyn-file', False, ['own', 'bind']),
        ('u.fn', 'dyn-file', ['list', ['zz.other']], ['ref']), ('sfn', 'none', True, ['bind', 'ref']),
        ('u.fn', 'none', ['list', ['@N']], ['block', 'own']), ('util.fn', 'same-text', True, ['bind', 'own']),
        ('fn', 'same-text', ['set', ['@N']], ['ref']), ('util.K', 'same-text', ['list', ['@N']], ['block']),
        ('util.fn', 'same-text', ['list', ['zz.other']], ['bind'])]:
      out.append({'name': n, 'prelude': pre, 'sk': sk, 'own': 'plain', 'kinds': kinds})
    # imports of missing modules between applied statements (the text's own names only / next to deleted statements)
    out.append({'name': 'u.fn', 'prelude': 'none', 'sk': True, 'own': 'as', 'kinds': ['own', 'miss', 'own', 'miss'], 'miss_top': 0})
    out.append({'name': 'sfn', 'prelude': 'none', 'sk': ['list', ['@N']], 'own': 'from-as', 'kinds': ['miss', 'bind', 'own', 'miss', 'miss']})
    out.append({'name': 'u.fn', 'prelude': 'dyn-file', 'sk': ['set', ['zz.other']], 'own': 'plain', 'kinds': ['own', 'miss'], 'miss_top': 2})
    out.append({'name': 'fn', 'prelude': 'none', 'sk': False, 'own': 'plain', 'kinds': ['own', 'miss', 'own']})
    return out

  def gen(self, rng, tier):
    n = rng.choice(sorted(DYN_NAMES))
    pres = [p for p in DYN_PRELUDES if (DYN_NAMES[n] or not p.startswith('dyn-file')) and (n in DYN_SAME_TEXT or p != 'same-text')]
    c = {'name': n, 'prelude': rng.choice(pres), 'sk': rng.choice(DYN_SKS), 'own': rng.choice(sorted(DYN_OWN)),
         'kinds': [rng.choice(['bind', 'sbind', 'block', 'ref', 'lref', 'own', 'own']) for _ in range(rng.randint(1, 4))]}
    if rng.random() < 0.5:                       # (drawn after the older fields: their distribution is unchanged)
      for _ in range(rng.randint(1, 2)):
        c['kinds'].insert(rng.randint(0, len(c['kinds'])), 'miss')
      if rng.random() < 0.3:
        c['miss_top'] = rng.randrange(len(DYN_MISSING))
      if rng.random() < 0.5:
        c['sk'] = rng.choice([s for s in DYN_SKS if s is True or (isinstance(s, list) and s[1])])
    return c

  # -- the text under test, as data ------------------------------------------------------------------------------------
  @staticmethod
  def stmts(case):
    n, p = case['name'], DYN_OWN[case['own']][1]
    out = []
    for i, k in enumerate(case['kinds']):
      if k == 'bind':
        out.append(['bind', '', n, 'x', ['lit', str(i)]])
      elif k == 'sbind':
        out.append(['bind', 's1/s2', n, 'y', ['lit', str(i)]])
      elif k == 'block':
        out.append(['block', 's1', n, [['x', ['lit', str(i)]], ['y', ['lit', str(i + 10)]]]])
      elif k == 'ref':
        out.append(['bind', '', p, 'v', ['ref', 's1/' + n if i % 2 else n, i % 3 != 0]])
      elif k == 'lref':
        out.append(['bind', 's1', p, 'w', ['list', [['lit', str(i)], ['ref', n, False], ['list', [['ref', 's2/' + n, True]]]]]])
      elif k == 'miss':
        out.append(['import', DYN_MISSING[(i + len(case['kinds'])) % len(DYN_MISSING)]])
      else:
        out.append(['bind', '', p, 'w' if i % 2 else 'v', ['lit', str(100 + i)]])
    return out

  @staticmethod
  def text(case, stmts, reduced=False):
    lines = ['from __gin__ import dynamic_registration', DYN_OWN[case['own']][0]]
    if case.get('miss_top') is not None and not reduced:
      lines.insert(0, DYN_MISSING[case['miss_top']])
    if case['prelude'] == 'same-text':
      lines += ['import c15dyn.util', 'c15dyn.util.%s.x = 7' % case['name'].split('.')[-1]]
    for st in stmts:
      pre = st[1] + '/' if st[1] else ''
      if st[0] == 'import':
        lines.append(st[1])
      elif st[0] == 'bind':
        lines.append('%s%s.%s = %s' % (pre, st[2], st[3], val_text(st[4])))
      else:
        lines.append('%s%s:' % (pre, st[2]))
        lines += ['  %s = %s' % (q, val_text(v)) for q, v in st[3]]
    return '\n'.join(lines) + '\n'

  @staticmethod
  def expected(case, stmts, sk, kept=None):
    """statement-level reading of the property: (raises?, store) -- only the text's own imports make a name known;
    `kept` (a list) receives the statements that are not deleted"""
    n = case['name']
    cov = sk is True or (isinstance(sk, list) and n in sk[1])
    enabled = sk is True or (isinstance(sk, list) and bool(sk[1]))
    kept = [] if kept is None else kept
    if case.get('miss_top') is not None and not enabled:
      return True, {}                              # the very first statement imports a missing module
    store = {'|' + n.split('.')[-1]: {'x': 7}} if case['prelude'] == 'same-text' else {}

    class Bad(Exception):
      pass

    def val(v):
      if v[0] == 'lit':
        return int(v[1])
      if v[0] == 'list':
        return [val(x) for x in v[1]]
      if not cov:
        raise Bad()
      return ['Unk', v[1].rsplit('/', 1)[-1], v[2]]
    try:
      for st in stmts:
        if st[0] == 'import':                        # (of a missing module)
          if not enabled:
            raise Bad()
          continue                                   # deleted
        pairs = [[st[3], st[4]]] if st[0] == 'bind' else st[3]
        vals = [[q, val(v)] for q, v in pairs]       # values are read before the target is looked at
        if st[2] == n:
          if not cov:
            raise Bad()
          continue                                   # deleted
        for q, v in vals:
          store.setdefault('%s|gn' % st[1], {})[q] = v
        kept.append(st)
      return False, store
    except Bad:
      return True, store

  def impl(self, case):
    import os
    import shutil
    import sys
    import tempfile
    n = case['name']
    sk_spec = case['sk']
    sk_names = [n if x == '@N' else x for x in sk_spec[1]] if isinstance(sk_spec, list) else None
    sk = [sk_spec[0], sk_names] if sk_names is not None else sk_spec
    stmts = self.stmts(case)
    text = self.text(case, stmts)
    d = tempfile.mkdtemp(prefix='ginverif_c15dyn_')
    old_path = list(sys.path)
    fails, tags = [], ['prelude:' + case['prelude'], 'sk:' + str(sk_spec)[:10]]

    def write(path, body):
      os.makedirs(os.path.dirname(os.path.join(d, path)), exist_ok=True)
      with open(os.path.join(d, path), 'w') as f:
        f.write(body)
    write('c15dyn/__init__.py', '')
    write('c15dyn/util.py', 'def fn(x=0, y=0):\n  return (x, y)\n\n\nclass K:\n  def __init__(self, x=0, y=0):\n    self.xy = (x, y)\n')
    write('c15aux/__init__.py', '')
    write('c15aux/other.py', 'def gn(v=None, w=None):\n  return (v, w)\n')

    def purge():
      for m in [m for m in sys.modules if m.split('.')[0] in ('c15dyn', 'c15aux')]:
        del sys.modules[m]

    def run(prelude, text=text):
      """-> (error class or None, store, gin)"""
      purge()
      gin = C.fresh_gin()
      cfg = gin.config
      if prelude.startswith('dyn-file'):
        pre = 'from __gin__ import dynamic_registration\n%s\n%s.x = 9\n' % (DYN_NAMES[n], n)
        if prelude == 'dyn-file':
          gin.parse_config(pre)
        else:
          gin.parse_config(pre, skip_unknown=True)
      elif prelude == 'static':
        mod, _, last = n.rpartition('.')
        gin.external_configurable(lambda x=0, y=0: (x, y), name=last, module=mod or None)
      gin.clear_config()
      kw = {}
      if sk is not None:
        kw['skip_unknown'] = sk if isinstance(sk, bool) else {'list': list, 'tuple': tuple, 'set': set}[sk[0]](sk[1])
      err = None
      try:
        gin.parse_config(text, **kw)
      except Exception as e:  # pylint: disable=broad-except
        err = type(e).__name__

      def rv(v):
        if isinstance(v, cfg._UnknownConfigurableReference):  # pylint: disable=protected-access
          return ['Unk', v.selector, v.evaluate]
        if isinstance(v, cfg.ConfigurableReference):
          return ['Ref', v.configurable.wrapped.__name__, v.evaluate]
        if isinstance(v, (list, tuple)):
          return [rv(x) for x in v]
        return v
      store = {}
      for (scope, sel), params in cfg._CONFIG.items():  # pylint: disable=protected-access
        conf = cfg._REGISTRY[sel] if sel in cfg._REGISTRY else None  # pylint: disable=protected-access
        store['%s|%s' % (scope, conf.wrapped.__name__ if conf else '?' + sel)] = {q: rv(v) for q, v in params.items()}
      return err, store, gin
    try:
      sys.path.insert(0, d)
      kept = []
      want_err, want_store = self.expected(case, stmts, sk, kept)
      deleted = len(kept) != len(stmts) or case.get('miss_top') is not None
      reduced_text = self.text(case, kept, reduced=True)
      results = {}

      def shown(gin, store, first):
        """every scope that has bindings for the text's own function is used once (whatever that raises), then
        config_str() / operative_config_str(); what they raise is part of the observation"""
        import c15aux.other  # pylint: disable=g-import-not-at-top
        out = {}
        for k in list(first) + sorted(store):
          if k.endswith('|gn'):
            try:
              with gin.config_scope(k.split('|')[0] or None):
                gin.get_configurable(c15aux.other.gn)()
            except Exception:  # pylint: disable=broad-except
              pass
        for name in ('config_str', 'operative_config_str'):
          try:
            out[name] = getattr(gin, name)()
          except Exception as e:  # pylint: disable=broad-except
            out[name] = 'RAISED %s: %s' % (type(e).__name__, str(e)[:300])
        return out
      for prelude in (['none', case['prelude']] if case['prelude'] in ('dyn-file', 'dyn-file-skipping', 'static') else [case['prelude']]):
        err, store, gin = run(prelude)
        results[prelude] = (err, store)
        what = 'skip_unknown=%r, prelude %s, text %r' % (sk, prelude, text)
        if bool(err) != want_err:
          fails.append(('dynamic-skip-outcome', '%s: outcome %r; only the text\'s own imports make a name known, so the property '
                        'requires %s' % (what, err, 'an error' if want_err else 'no error (the statements targeting %s are deleted)' % n)))
        elif store != want_store:
          fails.append(('dynamic-skip-configuration', '%s: store %r, the property requires %r' % (what, store, want_store)))
        elif not err:
          holders = sorted(k for k, pd in store.items() if any(has_unk_plain(v) for v in pd.values()))
          if holders:
            import c15aux.other  # pylint: disable=g-import-not-at-top
            for k in holders:
              try:
                with gin.config_scope(k.split('|')[0] or None):
                  gin.get_configurable(c15aux.other.gn)()
                fails.append(('placeholder-silently-used', '%s: %s holds a placeholder but the call succeeded' % (what, k)))
              except ValueError as e:
                if 'No configurable matching' not in str(e):
                  fails.append(('placeholder-wrong-error', '%s: %s' % (what, e)))
              except RecursionError:
                pass     # a self-referential evaluated reference beside the placeholder
              except Exception as e:  # pylint: disable=broad-except
                fails.append(('placeholder-wrong-error', '%s: %s: %s' % (what, type(e).__name__, e)))
          got = shown(gin, store, []) if deleted else None      # before finalize locks the configuration
          if holders:
            try:
              gin.finalize()
              fails.append(('placeholder-passed-finalize', '%s: %r' % (what, holders)))
            except ValueError as e:
              if 'No configurable matching' not in str(e):
                fails.append(('placeholder-wrong-error', '%s: finalize: %s' % (what, e)))
            except Exception as e:  # pylint: disable=broad-except
              fails.append(('placeholder-wrong-error', '%s: finalize() raised %s: %s instead of the "No configurable matching" '
                            'ValueError' % (what, type(e).__name__, e)))
          if got is not None:
            # the property's own wording, observed at config_str(): the configuration is EXACTLY the one obtained from the
            # text with the statements that target N and the imports of missing modules deleted (a second fresh gin, same
            # history, same skip_unknown: placeholders inside applied bindings stay)
            err2, store2, gin2 = run(prelude, reduced_text)
            want = shown(gin2, store2, holders) if not err2 else {'parse': err2}
            for name in sorted(set(got) | set(want)):
              if got.get(name) != want.get(name):
                fails.append(('skip-not-a-deletion', '%s: %s is %r; after parsing the text with the unknown statements / missing '
                              'imports deleted, %r, it is %r' % (what, name, got.get(name), reduced_text, want.get(name))))
      if len(results) == 2 and results['none'] != results[case['prelude']] and not fails:
        fails.append(('known-depends-on-history', 'skip_unknown=%r, text %r: fresh process %r, after prelude %s %r' %
                      (sk, text, results['none'], case['prelude'], results[case['prelude']])))
    finally:
      sys.path[:] = old_path
      purge()
      shutil.rmtree(d, ignore_errors=True)
    touches = any(k != 'own' for k in case['kinds'])
    return {'obs': T('Done'), 'fails': fails[:3], 'nontrivial': touches and case['prelude'] != 'none' and bool(sk), 'tags': tags}


def has_unk_plain(v):
  if isinstance(v, list):
    return (len(v) == 3 and v[0] == 'Unk') or any(has_unk_plain(x) for x in v)
  return False


ENGINES = [SkipEngine(), SkipPluginEngine(), DynKnownEngine()]
