"""C15 — skip_unknown drops exactly the statements that target unknown names."""
from harness import common as C
from harness import textm
from harness.common import T
from harness.main import Engine
from harness.props import c16

PID = 'C15'
LEVEL = 'proof'
RULE = ('gin-machine/skip: config texts mixing known / unknown / ambiguous targets, blocks, macro definitions, '
        'references to known and unknown configurables nested in containers, imports of present / missing modules, '
        'parsed with skip_unknown in {omitted, False, True, [], [names], (names), {names}}; independent oracle: a '
        'statement-level reference interpreter of the property text (delete covered unknown targets and missing imports, '
        'keep placeholders, anything else unknown is an error) + every placeholder must raise on use and at finalize. '
        'non-trivial = the text targets an unknown configurable AND (skip_unknown is list-valued OR an applied binding holds an unknown-reference placeholder).')
TRUSTED_BASE = c16.TRUSTED_BASE
ASSUMPTIONS = ['static registration (imports may register configurables: modelled); the dynamic-registration clause of the property is exercised by the C19 engine']

KNOWN = {'f': 'm.f', 'm.f': 'm.f', 'g': 'n.g', 'n.g': 'n.g', 'k': 'k', 'x.h': 'x.h', 'y.h': 'y.h'}
AMBIG = ['h']
UNKNOWN = ['u1', 'pkg.u2', 'nosuch']
PARAMS = {'m.f': ['a', 'b', 'c'], 'n.g': ['a'], 'k': ['a', 'zz'], 'x.h': ['a'], 'y.h': ['a']}
SKS = [None, False, True, ['list', []], ['list', ['u1']], ['tuple', ['u1', 'pkg.u2']], ['set', ['nosuch']],
       ['list', ['u1', 'pkg.u2', 'nosuch']], ['list', ['u2']]]


def gen_ref(rng):
  sel = rng.choice(list(KNOWN) + UNKNOWN + AMBIG)
  scope = rng.choice(['', '', 's1/', 's1/s2/', 's2/s1/s3/'])
  return ['ref', scope + sel, rng.random() < 0.5]


def gen_val(rng, depth=2):
  r = rng.random()
  if r < 0.45 or depth == 0:
    return ['lit', str(rng.randint(0, 9))]
  if r < 0.75:
    return gen_ref(rng)
  if r < 0.85:
    return ['macro', rng.choice(['mac', 'other'])]
  return ['list', [gen_val(rng, depth - 1) for _ in range(rng.randint(1, 3))]]


def val_text(v):
  if v[0] == 'lit':
    return v[1]
  if v[0] == 'ref':
    return '@' + v[1] + ('()' if v[2] else '')
  if v[0] == 'macro':
    return '%' + v[1]
  return '[' + ', '.join(val_text(x) for x in v[1]) + ']'


def covered(sel, sk):
  if sk is True:
    return True
  if sk in (None, False):
    return False
  return sel in sk[1]


class Stop(Exception):
  def __init__(self, cls):
    super().__init__(cls)
    self.cls = cls


def conv(v, sk, known=None):
  known = KNOWN if known is None else known
  """the value as the property describes it (references in parse order)"""
  if v[0] == 'lit':
    return T('int', v[1])
  if v[0] == 'macro':
    return T('Ref', v[1].split('/'), 'gin.macro', True)
  if v[0] == 'list':
    return T('L', *[conv(x, sk, known) for x in v[1]])
  scopes, _, sel = v[1].rpartition('/')
  if sel in known:
    return T('Ref', scopes.split('/') if scopes else [], known[sel], v[2])
  if sel in AMBIG:
    raise Stop('KeyError')
  if covered(sel, sk):
    return T('Unk', sel, v[2])
  raise Stop('ValueError')


def reference(stmts, sk, plugins=None):
  store, order = {}, []
  known = dict(KNOWN)
  plugins = plugins or {}

  def put(scope, full, p, val):
    key = (scope, full)
    if key not in store:
      store[key] = {}
      order.append(key)
    store[key][p] = val
  try:
    for st in stmts:
      k = st[0]
      if k == 'import':
        if st[1] in plugins:
          for full in plugins[st[1]]:            # importing the module registers its configurables: known from here on
            known[full] = full
            known[full.split('.')[-1]] = full
        elif st[1] not in c16.MODULES and not (sk is True or (isinstance(sk, list) and sk[1])):
          raise Stop('ModuleNotFoundError')
      elif k == 'macro':
        put(st[1], 'gin.macro', 'value', conv(st[2], sk, known))
      elif k == 'bind':
        val = conv(st[4], sk, known)          # the value is parsed (references created) before the skip decision
        sel = st[2]
        if sel in known:
          put(st[1], known[sel], st[3], val)
        elif sel in AMBIG:
          raise Stop('KeyError')
        elif not covered(sel, sk):
          raise Stop('ValueError')
      elif k == 'block':
        vals = [conv(v, sk, known) for _, v in st[3]]
        sel = st[2]
        if sel in known:
          for (p, _), val in zip(st[3], vals):
            put(st[1], known[sel], p, val)
        elif sel in AMBIG:
          raise Stop('KeyError')
        elif not covered(sel, sk):
          raise Stop('ValueError')
    err = None
  except Stop as e:
    err = e.cls
  return [[k[0], k[1], [[p, v] for p, v in store[k].items()]] for k in order], err


def render(stmts):
  out = []
  for st in stmts:
    k = st[0]
    if k == 'import':
      out.append('import ' + st[1])
    elif k == 'macro':
      out.append('%s = %s' % (st[1], val_text(st[2])))
    elif k == 'bind':
      out.append('%s%s.%s = %s' % (st[1] + '/' if st[1] else '', st[2], st[3], val_text(st[4])))
    else:
      out.append('%s%s:' % (st[1] + '/' if st[1] else '', st[2]))
      for p, v in st[3]:
        out.append('  %s = %s' % (p, val_text(v)))
  return '\n'.join(out) + '\n'


def has_unk(c):
  if isinstance(c, T):
    return c.tag == 'Unk' or any(has_unk(a) for a in c.args)
  if isinstance(c, list):
    return any(has_unk(a) for a in c)
  return False


class SkipEngine(Engine):
  name = 'skip-unknown'
  imports = 'Model.SelectorMap Model.Parser Model.Stmt'
  run_fn = 'Stmt.run'

  def budget(self, tier):
    return 700 if tier == 'quick' else 20000

  def corpus(self):
    st = [['bind', '', 'f', 'a', ['ref', 'u1', True]], ['block', 's1', 'u1', [['x', ['lit', '1']], ['y', ['ref', 'f', False]]]],
          ['bind', '', 'pkg.u2', 'q', ['lit', '2']], ['import', 'missing.mod'], ['macro', 'mac', ['ref', 'nosuch', False]],
          ['bind', '', 'g', 'a', ['list', [['ref', 'k', False], ['ref', 's1/u1', True]]]]]
    return [{'stmts': st, 'sk': sk} for sk in SKS]

  def gen(self, rng, tier):
    stmts = []
    for _ in range(rng.randint(1, 8)):
      r = rng.random()
      scope = rng.choice(['', '', 's1', 's1/s2'])
      if r < 0.5:
        sel = rng.choice(list(KNOWN) * 2 + UNKNOWN * 2 + AMBIG)
        p = rng.choice(PARAMS.get(KNOWN.get(sel, ''), ['a', 'q']))
        stmts.append(['bind', scope, sel, p, gen_val(rng)])
      elif r < 0.7:
        sel = rng.choice(list(KNOWN) + UNKNOWN * 2)
        ps = PARAMS.get(KNOWN.get(sel, ''), ['x', 'y'])
        stmts.append(['block', scope, sel, [[p, gen_val(rng, 1)] for p in rng.sample(ps, rng.randint(1, min(2, len(ps))))]])
      elif r < 0.85:
        stmts.append(['import', rng.choice(c16.MODULES + ['missing.mod', 'nope'])])
      else:
        stmts.append(['macro', rng.choice(['mac', 's1/mac']), gen_val(rng, 1)])
    return {'stmts': stmts, 'sk': rng.choice(SKS)}

  def case(self, c):
    return {'regs': c16.REGS, 'consts': [], 'files': [{}], 'prefixes': [''], 'modules': c16.MODULES,
            'calls': [['text', render(c['stmts']), c['sk']]]}

  def to_coq(self, c):
    return textm.case_coq(self.case(c))

  def shrink(self, c):
    for i in range(len(c['stmts'])):
      yield {'stmts': c['stmts'][:i] + c['stmts'][i + 1:], 'sk': c['sk']}

  def impl(self, c):
    m = textm.TextMachine(self.case(c))
    fails, tags = [], []
    try:
      obs, stable = m.run()
      want_store, want_err = reference(c['stmts'], c['sk'])
      res = obs[0]
      got_err = None if (isinstance(res, T) and res.tag == 'Ok') else (res.args[0] if res.tag == 'Err' else 'SyntaxError')
      tags.append('sk:' + ('omitted' if c['sk'] is None else str(c['sk'])[:12]))
      tags.append('err:%s' % got_err)
      if got_err != want_err:
        fails.append(('skip-outcome', 'skip_unknown=%r on %r: outcome %r, the property requires %r' %
                      (c['sk'], render(c['stmts']), got_err, want_err)))
      elif C.jsonable(obs[1]) != C.jsonable(want_store):
        fails.append(('skip-configuration', 'skip_unknown=%r on %r: store %r, the property requires %r' %
                      (c['sk'], render(c['stmts']), C.jsonable(obs[1]), C.jsonable(want_store))))
      elif got_err is None:
        # placeholders raise on use and at finalize
        holders = [(s, q, p) for s, q, pd in obs[1] for p, v in pd if has_unk(v)]
        for s, q, p in holders:
          if q in m.wrappers and (s == '' or True):
            try:
              with m.gin.config_scope(s):
                m.wrappers[q]()
              fails.append(('placeholder-silently-used', '%s/%s.%s holds a placeholder but the call succeeded' % (s, q, p)))
            except ValueError:
              pass
            except Exception as e:  # pylint: disable=broad-except
              if not (isinstance(e, TypeError) and 'macro()' in str(e)):   # an unbound macro evaluated first
                fails.append(('placeholder-wrong-error', '%s: %s' % (type(e).__name__, e)))
        if holders:
          try:
            m.gin.finalize()
            fails.append(('placeholder-passed-finalize', repr(holders)))
          except ValueError:
            pass
    finally:
      m.close()
    dropped = any(st[0] in ('block', 'bind') and st[2] in UNKNOWN for st in c['stmts'])
    nontrivial = dropped and (isinstance(c['sk'], list) or any(has_unk(v) for _, _, pd in obs[1] for _, v in pd))
    return {'obs': obs, 'fails': fails[:3], 'nontrivial': nontrivial, 'tags': tags}


PLUGINS = {'c15plug_one': ['late.lfn'], 'c15plug_two': ['late2.zfn', 'late2.wfn']}
PLUG_SKS = SKS + [['list', ['lfn']], ['set', ['lfn', 'zfn', 'u1']], ['tuple', ['late.lfn', 'wfn']]]


class SkipPluginEngine(SkipEngine):
  """modules whose import REGISTERS configurables (a real import with side effects through a meta-path finder): a name
  is unknown before the import statement and known after it, within one parse (Model/Stmt.v: register_mod)."""
  name = 'skip-unknown-plugins'

  def budget(self, tier):
    return 150 if tier == 'quick' else 4000

  def corpus(self):
    st = [['bind', '', 'lfn', 'a', ['lit', '1']], ['import', 'c15plug_one'], ['bind', '', 'lfn', 'b', ['lit', '2']],
          ['bind', '', 'f', 'a', ['ref', 'lfn', True]], ['bind', '', 'zfn', 'a', ['lit', '3']]]
    return [{'stmts': st, 'sk': sk} for sk in PLUG_SKS]

  def gen(self, rng, tier):
    c = super().gen(rng, tier)
    stmts = c['stmts']
    for _ in range(rng.randint(1, 4)):
      r = rng.random()
      pos = rng.randint(0, len(stmts))
      if r < 0.4:
        stmts.insert(pos, ['import', rng.choice(list(PLUGINS))])
      else:
        sel = rng.choice(['lfn', 'late.lfn', 'zfn', 'wfn', 'late2.wfn'])
        if rng.random() < 0.7:
          stmts.insert(pos, ['bind', rng.choice(['', 's1']), sel, rng.choice(['a', 'b']), gen_val(rng, 1)])
        else:
          stmts.insert(pos, ['bind', '', 'f', 'a', ['ref', sel, rng.random() < 0.5]])
    return {'stmts': stmts, 'sk': rng.choice(PLUG_SKS)}

  def case(self, c):
    d = super().case(c)
    d['plugins'] = PLUGINS
    return d

  def impl(self, c):
    m = textm.TextMachine(self.case(c))
    fails, tags = [], []
    try:
      obs, _ = m.run()
      want_store, want_err = reference(c['stmts'], c['sk'], PLUGINS)
      res = obs[0]
      got_err = None if (isinstance(res, T) and res.tag == 'Ok') else (res.args[0] if res.tag == 'Err' else 'SyntaxError')
      tags += ['sk:' + ('omitted' if c['sk'] is None else str(c['sk'])[:12]), 'err:%s' % got_err]
      if got_err != want_err:
        fails.append(('skip-outcome', 'skip_unknown=%r on %r: outcome %r, the property requires %r' %
                      (c['sk'], render(c['stmts']), got_err, want_err)))
      elif C.jsonable(obs[1]) != C.jsonable(want_store):
        fails.append(('skip-configuration', 'skip_unknown=%r on %r: store %r, the property requires %r' %
                      (c['sk'], render(c['stmts']), C.jsonable(obs[1]), C.jsonable(want_store))))
    finally:
      m.close()
    imported = [i for i, st in enumerate(c['stmts']) if st[0] == 'import' and st[1] in PLUGINS]
    late = [i for i, st in enumerate(c['stmts']) if st[0] == 'bind' and st[2].split('.')[-1] in ('lfn', 'zfn', 'wfn')]
    nontrivial = bool(imported) and any(i > imported[0] for i in late) and isinstance(c['sk'], list)
    return {'obs': obs, 'fails': fails[:3], 'nontrivial': nontrivial, 'tags': tags}


ENGINES = [SkipEngine(), SkipPluginEngine()]
