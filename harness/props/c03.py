"""C03 — statements are recovered exactly, whatever the layout of the config text."""
from harness import common as C
from harness import parsing as P
from harness.common import T
from harness.main import Engine
from harness.props import c02

PID = 'C03'
LEVEL = 'proof'
RULE = ('parser/stmts: random statement lists (0-10 statements: bindings with scopes of depth 0-3 and module-qualified '
        'selectors, macro definitions, imports in all four forms, includes, blocks) rendered to text in two '
        'independently drawn layouts (blank lines, comment lines, trailing comments, odd spacing around = and :, '
        'backslash continuations, flat vs block grouping, block indentation width, comment after a block header, '
        'final newline or not); plus a malformed stream (inner whitespace, empty components, misplaced separators, '
        'missing =, block without indent, dotted block member, import junk). non-trivial = >= 1 block and >= 1 '
        'continuation or odd comment, with two layouts that differ in grouping; or a malformed selector.')
TRUSTED_BASE = c02.TRUSTED_BASE
ASSUMPTIONS = ['CRLF line endings are not generated']

IDENTS = ['a', 'bb', 'c_1', '_d', 'E']
SCOPES = ['s1', 's2', 'sc_3']


def ref_text(rng):
  if rng.random() < 0.7:
    name = '/'.join([rng.choice(SCOPES) for _ in range(rng.choice([0, 0, 1, 2]))] + ['.'.join(rng.sample(IDENTS, rng.choice([1, 1, 2])))])
    return '@' + name + rng.choice(['', '', '()', '()', '( )', '(\n)'])
  return '%' + '/'.join([rng.choice(SCOPES) for _ in range(rng.choice([0, 0, 1]))] + [rng.choice(IDENTS)])


def plant_refs(rng, t):
  """replace some non-key atoms of a literal tree by references / macros (atoms spelled '@...' / '%...')"""
  k = t[0]
  if k == 'atom':
    return ('atom', ref_text(rng)) if rng.random() < 0.5 else t
  if k == 'paren':
    return ('paren', plant_refs(rng, t[1]))
  if k == 'dict':
    return ('dict', [(kk, plant_refs(rng, v)) for kk, v in t[1]])
  return (k, [plant_refs(rng, x) for x in t[1]])


def is_ref_atom(a):
  return isinstance(a, str) and a[:1] in ('@', '%')


def has_ref(t):
  k = t[0]
  if k == 'atom':
    return is_ref_atom(t[1])
  if k == 'paren':
    return has_ref(t[1])
  if k == 'dict':
    return any(has_ref(v) for _, v in t[1])
  return any(has_ref(x) for x in t[1])


def ref_obs(a):
  if a[0] == '%':
    return T('Macro', a[1:])
  body = a[1:]
  ev = '(' in body
  return T('Ref', body.split('(')[0], ev)


def mixed_expected(t):
  """the value a container holding references spells: literal_eval of the tree with each reference replaced
  by a unique string, the strings then replaced by the reference they stand for"""
  import random
  table = {}

  def sub(t):
    k = t[0]
    if k == 'atom':
      if is_ref_atom(t[1]):
        key = 'REFPLACEHOLDER%d' % len(table)
        table[key] = ref_obs(t[1])
        return ('atom', repr(key))
      return t
    if k == 'paren':
      return ('paren', sub(t[1]))
    if k == 'dict':
      return ('dict', [(kk, sub(v)) for kk, v in t[1]])
    return (k, [sub(x) for x in t[1]])
  v = P.lit_eval(c02.render(random.Random(0), sub(t)))
  if v is None:
    return None

  def back(x):
    if isinstance(x, T):
      if x.tag == 'str' and x.args and x.args[0] in table:
        return table[x.args[0]]
      return T(x.tag, *[back(a) for a in x.args])
    if isinstance(x, list):
      return [back(a) for a in x]
    return x
  return back(v)


def gen_value(rng):
  r = rng.random()
  if r < 0.15:
    for _ in range(20):
      t = plant_refs(rng, c02.gen_tree(rng, rng.choice([1, 1, 2])))
      if t[0] != 'atom' and has_ref(t) and mixed_expected(t) is not None:
        return ['mixed', t]
  if r < 0.6:
    import random
    for _ in range(20):
      t = c02.gen_tree(rng, rng.choice([0, 0, 1, 2]))
      if P.lit_eval(c02.render(random.Random(0), t)) is not None:
        return ['lit', t]
    return ['lit', ('atom', '1')]
  if r < 0.8:
    return ['ref', '/'.join([rng.choice(SCOPES) for _ in range(rng.choice([0, 0, 1, 2]))] +
                            ['.'.join(rng.sample(IDENTS, rng.choice([1, 1, 2])))]), rng.random() < 0.5]
  return ['macro', '/'.join([rng.choice(SCOPES) for _ in range(rng.choice([0, 0, 1]))] + [rng.choice(IDENTS)])]


def render_value(rng, v):
  if v[0] in ('lit', 'mixed'):
    return c02.render(rng, tuple_tree(v[1]))
  if v[0] == 'ref':
    return '@' + v[1] + (rng.choice(['()', '( )', '(\n)']) if v[2] else '')
  return '%' + v[1]


def tuple_tree(t):
  """JSON round trip turns tuples into lists: normalise"""
  k = t[0]
  if k == 'atom':
    a = t[1]
    return ('atom', ('STR', list(a[1])) if isinstance(a, (list, tuple)) else a)
  if k == 'paren':
    return ('paren', tuple_tree(t[1]))
  if k == 'dict':
    return ('dict', [(tuple_tree(kk), tuple_tree(v)) for kk, v in t[1]])
  return (k, [tuple_tree(x) for x in t[1]])


def expected_value(v):
  if v[0] == 'mixed':
    return mixed_expected(tuple_tree(v[1]))
  if v[0] == 'lit':
    import random
    return P.lit_eval(c02.render(random.Random(0), tuple_tree(v[1])))
  if v[0] == 'ref':
    return T('Ref', v[1], v[2])
  return T('Macro', v[1])


def gen_stmt(rng):
  r = rng.random()
  scope = '/'.join(rng.choice(SCOPES) for _ in range(rng.choice([0, 0, 1, 2, 3])))
  sel = '.'.join(rng.choice(IDENTS) for _ in range(rng.choice([1, 1, 2, 3])))
  if r < 0.6:
    return ['bind', scope, sel, rng.choice(IDENTS), gen_value(rng)]
  if r < 0.7:
    return ['macrodef', scope, rng.choice(IDENTS), gen_value(rng)]
  if r < 0.85:
    mod = '.'.join(rng.choice(IDENTS) for _ in range(rng.choice([1, 2, 3])))
    form = rng.choice(['import', 'importas', 'from', 'fromas'])
    if form.startswith('from') and '.' not in mod:
      mod = 'pkg.' + mod
    return ['import', form, mod, rng.choice(IDENTS) if form.endswith('as') else None]
  return ['include', rng.choice(["'f.gin'", '"dir/g.gin"', "'a' 'b.gin'", "r'x\\y.gin'"])]


def blank(rng):
  return rng.choice(['', '', ' ', '  ', '\t'])


def junk_lines(rng):
  out = ''
  for _ in range(rng.choice([0, 0, 0, 1, 2])):
    out += rng.choice(['\n', '  \n', '# comment\n', '   # indented comment = 1\n', '#\n'])
  return out


def render_stmts(rng, stmts, style):
  """style: probability of grouping consecutive same-target bindings into a block"""
  out = ''
  i = 0
  used_cont = used_block = False
  while i < len(stmts):
    st = stmts[i]
    out += junk_lines(rng)
    eol = rng.choice(['', '', ' ', '  # trailing', '# c']) + '\n'
    if st[0] == 'bind':
      j = i
      while j < len(stmts) and stmts[j][0] == 'bind' and stmts[j][1:3] == st[1:3]:
        j += 1
      key = (st[1] + '/' if st[1] else '') + st[2]
      if rng.random() < style:
        used_block = True
        ind = rng.choice(['  ', '    ', '\t', ' '])
        out += key + blank(rng) + ':' + blank(rng) + rng.choice(['', '# header comment']) + '\n'
        for m in stmts[i:j]:
          out += rng.choice(['', '', '\n', ind + '# member comment\n', '# dedented comment\n'])
          out += ind + m[3] + blank(rng) + '=' + blank(rng) + render_value(rng, m[4]) + rng.choice(['', ' # c']) + '\n'
        i = j
        continue
      cont = ''
      if rng.random() < 0.1:
        cont = ' \\\n   '
        used_cont = True
      out += key + '.' + st[3] + blank(rng) + cont + '=' + blank(rng) + render_value(rng, st[4]) + eol
    elif st[0] == 'macrodef':
      out += (st[1] + '/' if st[1] else '') + st[2] + blank(rng) + '=' + blank(rng) + render_value(rng, st[3]) + eol
    elif st[0] == 'import':
      form, mod, alias = st[1], st[2], st[3]
      sp = rng.choice([' ', '  ', ' \\\n  '])
      if form.startswith('from'):
        a, _, b = mod.rpartition('.')
        s = 'from' + sp + a + ' import ' + b
      else:
        s = 'import' + sp + mod
      if alias:
        s += ' as ' + alias
      out += s + eol
    else:
      out += 'include' + rng.choice([' ', '  ', '' if st[1][0] in '\'"' else ' ']) + st[1] + eol
    i += 1
  out += junk_lines(rng)
  if out.endswith('\n') and rng.random() < 0.3:
    out = out[:-1]
  return out, used_cont, used_block


def expand(stmts):
  out = []
  for st in stmts:
    if st[0] == 'bind':
      out.append(T('Bind', st[1], st[2], st[3], expected_value(st[4])))
    elif st[0] == 'macrodef':
      out.append(T('Bind', st[1], st[2], '', expected_value(st[3])))
    elif st[0] == 'import':
      out.append(T('Import', st[2], st[1].startswith('from'), st[3]))
    else:
      out.append(T('Include', P.lit_eval(st[1])))
  return out


def strip_lines(obs):
  out = []
  for o in obs:
    if isinstance(o, T) and o.tag in ('Bind', 'Import', 'Include'):
      out.append(T(o.tag, *o.args[:-1]))
    elif isinstance(o, T) and o.tag == 'Block':
      continue
    else:
      out.append(o)
  return out


MALFORMED = [
    'a / b.c = 1', 'a/ b.c = 1', 'a /b.c = 1', 'a. b = 1', 'a .b = 1', 'a//b.c = 1', 'a..b = 1', '/a.b = 1', 'a/.b = 1',
    'a./b = 1', 'a.b/c.d = 1', 'a.b. = 1', '.a.b = 1', 'a.b/ = 1', 'a/b/ = 1', 'a.1b = 1', '1a.b = 1', 'a-b.c = 1',
    'a.b 1', 'a.b', 'a.b = ', 'a.b == 1', 'a.b = 1 = 2', 'a.b:\nc = 1', 'a.b:\n  c.d = 1', 'a.b:\n  c = 1\n d = 2',
    'a.b: c = 1', 'a.b:\n', 'import', 'import a.', 'import a/b', 'import a as', 'import a as b.c', 'from a import',
    'from a import b.c', 'from a b', 'from import a', 'import a b', 'include', 'include 5', 'include a.gin',
    "include 'a' 5", 'a.b = -@x', 'a.b = -@x()', 'a.b = - %m', 'a.b = [1, -@x()]', 'a.b = {-%m: 1}', 'a.b = (-\n @x)', 'a.b = @', 'a.b = @x/ y', 'a.b = @x()()', 'a.b = @x(1)', 'a.b = %', 'a.b = % x', 'a.b = @a .b',
    'a.b = 1 # ok', 'a \\\n.b = 1', 'a.\\\nb = 1', 'a/b \\\n= 1',
    'train/\\\n      fn.a = 1', 'a/\\\n  b.c = 1', 'a.\\\n  b = 1', 'ab\\\n  .c = 1', 'x.y = @a/\\\n        b()', 'x.y = %a/\\\n        b',
]


class StmtEngine(Engine):
  name = 'parser-stmts'
  imports = 'Model.Parser Model.ParserEngine'
  run_fn = 'run_many'

  def budget(self, tier):
    return 1500 if tier == 'quick' else 50000

  def corpus(self):
    return [{'kind': 'malformed', 'stmts': [], 'layouts': [m]} for m in MALFORMED]

  def gen(self, rng, tier):
    if rng.random() < 0.06:
      # a scoped name split by a backslash continuation whose next line is indented to exactly the column
      # where the previous token ended (so that only the line number distinguishes the pieces)
      parts = [rng.choice(IDENTS) for _ in range(rng.randint(2, 4))]
      seps = [rng.choice(['/', '.']) for _ in parts[:-1]]
      k = rng.randrange(len(parts) - 1)
      head = ''.join(p + s for p, s in zip(parts[:k + 1], seps[:k + 1]))
      if rng.random() < 0.5:
        head = head[:-1]
        tail = seps[k] + ''.join(p + s for p, s in zip(parts[k + 1:], seps[k + 1:] + ['']))
      else:
        tail = ''.join(p + s for p, s in zip(parts[k + 1:], seps[k + 1:] + ['']))
      pre = rng.choice(['', 'x.y = @', 'x.y = %'])
      text = pre + head + '\\\n' + ' ' * (len(pre) + len(head) + rng.choice([0, 0, 0, 1])) + tail + ('.zz = 1' if not pre else '')
      return {'kind': 'malformed', 'stmts': [], 'layouts': [text]}
    if rng.random() < 0.15:
      # malformed: one valid statement list with one mutated selector line
      base = rng.choice(MALFORMED)
      i = rng.randrange(len(base) + 1)
      text = base[:i] + rng.choice([' ', '/', '.', '', '\t']) + base[i:]
      return {'kind': 'malformed', 'stmts': [], 'layouts': ['x.y = 0\n' + text + '\nz.w = 2']}
    stmts = [gen_stmt(rng) for _ in range(rng.choice([0, 1, 2, 3, 4, 6, 10]))]
    if stmts and rng.random() < 0.6:      # make consecutive same-target bindings likely
      k = rng.randrange(len(stmts))
      if stmts[k][0] == 'bind':
        for _ in range(rng.randint(1, 3)):
          stmts.insert(k + 1, ['bind', stmts[k][1], stmts[k][2], rng.choice(IDENTS), gen_value(rng)])
    t1, c1, b1 = render_stmts(rng, stmts, rng.choice([0.0, 0.5, 1.0]))
    t2, c2, b2 = render_stmts(rng, stmts, rng.choice([0.0, 0.5, 1.0]))
    return {'kind': 'layouts', 'stmts': stmts, 'layouts': [t1, t2], 'nt': bool((b1 != b2) and (c1 or c2 or '#' in t1 + t2))}

  def to_coq(self, case):
    return C.clist([P.coq_input(t) for t in case['layouts']])

  def shrink(self, case):
    if case['kind'] == 'layouts':
      return
    t = case['layouts'][0]
    for i in range(len(t)):
      yield {'kind': 'malformed', 'stmts': [], 'layouts': [t[:i] + t[i + 1:]]}

  def impl(self, case):
    gin = C.cached_gin()
    obs = [P.run_statements(gin, t) for t in case['layouts']]
    fails, tags = [], [case['kind']]
    if case['kind'] == 'layouts':
      want = expand(case['stmts'])
      for t, o in zip(case['layouts'], obs):
        got = strip_lines(o)
        if got != want:
          fails.append(('statements-not-recovered', 'text %r parsed to %r, it spells %r' %
                        (t, C.jsonable(got), C.jsonable(want))))
          break
      tags.append('n%d' % min(len(case['stmts']), 10))
    else:
      # a value is a literal, a reference, a macro or a container of values: a '-' in front of anything but a
      # number is not a value and must be rejected, never silently dropped
      import re as _re
      for t, o in zip(case['layouts'], obs):
        if _re.search(r'-\s*(\\\n\s*)?[@%]', t) and "'" not in t and '"' not in t and '#' not in t:
          if not any(isinstance(st, T) and st.tag in ('SyntaxError', 'Err') for st in o):
            fails.append(('minus-sign-silently-dropped', 'text %r was accepted as %r' % (t, C.jsonable(o))))
      # a text whose scoped name has inner whitespace / empty components / misplaced separators must not
      # be silently repaired: whatever is accepted must be spelled exactly in the text without blanks
      for t, o in zip(case['layouts'], obs):
        block = None
        for st in o:
          if isinstance(st, T) and st.tag == 'Block':
            block = (st.args[0], st.args[1])
            key = (st.args[0] + '/' if st.args[0] else '') + st.args[1]
            if key not in t:
              fails.append(('selector-silently-repaired', 'text %r yielded a block for %r' % (t, key)))
          if isinstance(st, T) and st.tag == 'Bind' and (st.args[0], st.args[1]) != block:
            key = (st.args[0] + '/' if st.args[0] else '') + st.args[1] + ('.' + st.args[2] if st.args[2] else '')
            if key not in t.replace('\\\n', '\x00'):
              fails.append(('selector-silently-repaired', 'text %r yielded a binding for %r which the text does not spell contiguously'
                            % (t, key)))
        tags.append('rejected' if any(isinstance(x, T) and x.tag in ('SyntaxError', 'Err') for x in o) else 'accepted')
    return {'obs': obs, 'fails': fails[:2], 'nontrivial': bool(case.get('nt')) or case['kind'] == 'malformed', 'tags': tags}


def lexer_supported(s):
  """the class of texts coq/Model/Lexer.v models (Lexer.supported): 7-bit printable ASCII and newline; an f-string prefix
  (f / F / fr / rf before a quote) is harmless only inside an identifier run that began with a letter or underscore and does
  not follow a '.' (in CPython 3.12 `1f'x'`, `1.e5f'x'` are a NUMBER followed by an f-string)"""
  for ch in s:
    if not (ch == '\n' or 32 <= ord(ch) <= 126):
      return False
  quote = ('"', "'")
  state = 0   # 0 behind a non-identifier char / at start; 1 behind '.'; 2 inside a run begun by letter/_ not behind '.'; 3 any other run
  for i, c in enumerate(s):
    if state != 2:
      a, b, q = s[i:i + 1], s[i + 1:i + 2], s[i + 2:i + 3]
      if a in ('f', 'F') and (b in quote or (b in ('r', 'R') and q in quote)):
        return False
      if a in ('r', 'R') and b in ('f', 'F') and q in quote:
        return False
    if c.isalnum() or c == '_':
      if state == 0:
        state = 2 if not c.isdigit() else 3
      elif state == 1:
        state = 3
    else:
      state = 1 if c == '.' else 0
  return True


class LexEngine(Engine):
  """characters -> tokens: coq/Model/Lexer.v against the real tokenizer (types, texts, exact positions, the error token)
  on the config texts of the statement engine, both layouts, and character-level mutations of them"""
  name = 'lexer'
  imports = 'Model.Parser Model.Lexer Model.LexerEngine'
  run_fn = 'run_lex'

  def budget(self, tier):
    return 700 if tier == 'quick' else 30000

  def corpus(self):
    return [{'text': t} for t in MALFORMED] + [{'text': t} for t in (
        '', '\n', 'a.b = 1', 'a.b = (1,\n  2)\n', 's/a.b:\n  x = 1\n  y = [1,\n 2]\nz.w = 3\n', 'a = """x\ny"""\n', "a = 'x\\\ny'\n",
        'a = 1 \\\n  + 2\n', '  a = 1\n b = 2\n', 'a = (1\n', 'a = 1__0\n', 'a = $\n', "a = f'x'\n", 'a = \t1\n', 'a = 0x1F 0o7 0b1 1e5 1.5j\n')]

  def gen(self, rng, tier):
    base = StmtEngine().gen(rng, tier)
    text = rng.choice(base['layouts'])
    if rng.random() < 0.3 and text:
      chars = "[](){},:'\"+-*1a. \\#\n_e%@/=\t$!"
      for _ in range(rng.randint(1, 3)):
        i = rng.randrange(len(text) + 1)
        r = rng.random()
        text = text[:i] + (rng.choice(chars) if r < 0.6 else '') + text[i + (1 if r >= 0.4 else 0):]
    if rng.random() < 0.85:
      # stay inside the modelled class most of the time: blanks for tabs, ASCII for the rest, no f-string prefixes
      text = ''.join(ch if (ch == '\n' or 32 <= ord(ch) <= 126) else (' ' if ch == '\t' else 'x') for ch in text)
      import re as _re
      text = _re.sub(r"[fF]([rR]?['\"])", r"g\1", text)
    return {'text': text}

  def to_coq(self, case):
    return C.cstr(case['text'])

  def shrink(self, case):
    t = case['text']
    for i in range(len(t)):
      yield {'text': t[:i] + t[i + 1:]}

  def impl(self, case):
    text = case['text']
    if not P.coq_safe(text):
      text = text.replace('\x00', '0').replace('\r', ' ')
      case['text'] = text
    if not lexer_supported(text):
      return {'obs': T('Unsupported'), 'fails': [], 'nontrivial': False, 'tags': ['outside-class']}
    toks = P.tokens_of(text)
    obs = [T(t[0], t[1], t[2], t[3], t[4], t[5]) for t in toks]
    kinds = {t[0] for t in toks}
    tags = ['error' if 'TERR' in kinds else 'error-free'] + [k for k in ('INDENT', 'COMMENT') if k in kinds]
    return {'obs': obs, 'fails': [], 'nontrivial': len(toks) >= 8 and ('INDENT' in kinds or '\\\n' in text or any(t[0] == 'NL' for t in toks)),
            'tags': tags}


class TextEngine(StmtEngine):
  """characters -> statements with NO tokenizer oracle: the parser model runs on the tokens of coq/Model/Lexer.v (only what
  a NAME / NUMBER / STRING text means is still taken from ast.literal_eval); compared with the real ConfigParser"""
  name = 'parser-text'
  imports = 'Model.Parser Model.Lexer Model.LexerEngine'
  run_fn = 'run_text'

  def budget(self, tier):
    return 500 if tier == 'quick' else 20000

  def gen(self, rng, tier):
    base = super().gen(rng, tier)
    return {'kind': base['kind'], 'stmts': base['stmts'], 'layouts': [rng.choice(base['layouts'])], 'nt': base.get('nt', True)}

  def to_coq(self, case):
    text = case['layouts'][0]
    toks = P.tokens_of(text)
    orc = P.oracle_for(toks)
    o = C.clist(['(%s, %s)' % (C.cstr(k), 'None' if v is None else '(Some %s)' % C.out(v)) for k, v in orc.items()])
    return '(%s, %s)' % (o, C.cstr(text))

  def impl(self, case):
    text = case['layouts'][0]
    if not P.coq_safe(text) or not lexer_supported(text):
      return {'obs': T('Unsupported'), 'fails': [], 'nontrivial': False, 'tags': ['outside-class']}
    r = super().impl(case)
    r['obs'] = r['obs'][0]
    return r


ENGINES = [StmtEngine(), LexEngine(), TextEngine()]
