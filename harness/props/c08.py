"""C08 — names resolve by unique dotted suffix, identically through every API."""
import itertools

from harness import common as C
from harness.main import Engine

PID = 'C08'
LEVEL = 'proof'
RULE = ('selmap: random histories of set/pop/clear/copy over 1-3 maps with queries after every '
        'mutation; non-trivial = the stored names contain one that is a component-wise suffix of '
        'another (or share a suffix) AND the history contains a pop or a copy followed by a mutation. '
        'spelling: one parameter addressed through every unambiguous spelling across bind / query / '
        'get_bindings / get_configurable / reference / finalize hooks; non-trivial = >= 2 distinct '
        'spellings of a module-qualified configurable used through >= 2 different APIs. '
        "macro-spelling (implementation only): the spellings of a macro's parameter ('%NAME', 'NAME/gin.macro.value', the tuple "
        "key, 'NAME/macro.value', config text, finalize hooks) written and read in every combination while other configurables "
        "called `macro` / `macros` / `xmacro` are registered before or after the parse; non-trivial = such an entry exists and "
        '>= 2 different spellings write.')
TRUSTED_BASE = [
    'Coq 8.16.1 kernel (coqc; coqchk in the thorough tier); vm_compute used in refutation witnesses and in the correspondence run; no native_compute',
    'axioms: none (Print Assumptions: Closed under the global context for every theorem of Props/C08.v)',
    'hand-written model coq/Model/SelectorMap.v of gin/selector_map.py; tied to /repo by harness/props/c08.py (differential run on generated histories, model evaluated inside coqc)',
    'Python str.split / re SELECTOR_RE are modelled (Lib/PyStr.v) for ASCII identifiers only',
    'no extraction is used for this property',
]
ASSUMPTIONS = [
    'selectors are ASCII; Python regex `$` matching before a trailing newline is not modelled',
    'order of matching_selectors() results is not compared (sets)',
]

IDS = ['a', 'b', 'c', 'x']


def suffixes(name):
  p = name.split('.')
  return ['.'.join(p[i:]) for i in range(len(p))]


def spec_matches(names, q):
  if q in names:
    return [q]
  return sorted(n for n in names if n.endswith('.' + q))


class SelMap(Engine):
  name = 'selmap'
  imports = 'Model.SelectorMap Model.SelmapEngine'
  run_fn = 'run'
  rule = 'see RULE'

  def budget(self, tier):
    return 1500 if tier == 'quick' else 40000

  def corpus(self):
    return [
        # F3: single top-level branch
        [['set', 0, 'a.b.c', 'v'], ['minimal', 0, 'a.b.c'], ['matching', 0, 'c']],
        [['set', 0, 'a.b', 'v'], ['set', 0, 'x.c', 'w'], ['pop', 0, 'x.c'], ['minimal', 0, 'a.b']],
        # F4: copy shares sub-dicts
        [['set', 0, 'a.b', '1'], ['copy', 0], ['set', 1, 'x.b', '2'], ['matching', 0, 'b'],
         ['getmatch', 0, 'b']],
        [['set', 0, 'a.b', '1'], ['set', 0, 'c.b', '3'], ['copy', 0], ['pop', 1, 'a.b'],
         ['matching', 0, 'b'], ['getmatch', 0, 'a.b'], ['minimal', 0, 'a.b']],
        [['set', 0, 'a', '1'], ['set', 0, 'b.a', '2'], ['getmatch', 0, 'a'], ['matching', 0, 'a'],
         ['minimal', 0, 'b.a'], ['minimal', 0, 'a'], ['set', 0, 'a..b', 'x'], ['set', 0, '', 'x'],
         ['pop', 0, 'zz'], ['matching', 0, ''], ['matching', 0, '.a'], ['items', 0], ['len', 0]],
        # rejected inserts (an outer component is not an identifier, the inner ones run along a stored name and branch
        # off): the stored names are unchanged, so is every answer - also in a later copy and after later pops
        [['set', 0, 'a.b.x', '1'], ['set', 0, 'c.a.b', '2'], ['minimal', 0, 'a.b.x'], ['set', 0, '0.c.b.x', 'bad'],
         ['minimal', 0, 'a.b.x'], ['matching', 0, 'b.x'], ['contains', 0, '0.c.b.x'], ['len', 0], ['copy', 0],
         ['minimal', 1, 'a.b.x'], ['set', 1, 'x.b.x', '3'], ['pop', 1, 'x.b.x'], ['minimal', 1, 'a.b.x'], ['items', 1]],
        [['set', 0, 'a.b', '1'], ['set', 0, 'c..a.b', 'bad'], ['set', 0, 'b.1a.x.b', 'bad'], ['set', 0, '.c.b', 'bad'],
         ['set', 0, 'a.b-c.x.a.b', 'bad'], ['minimal', 0, 'a.b'], ['matching', 0, 'b'], ['getmatch', 0, 'b'],
         ['pop', 0, 'c.a.b'], ['pop', 0, 'a.b'], ['len', 0], ['items', 0], ['set', 0, 'x.c.b', '2'], ['minimal', 0, 'x.c.b']],
    ]

  def _name(self, rng, pool):
    if pool and rng.random() < 0.45:
      base = rng.choice(pool)
      r = rng.random()
      parts = base.split('.')
      if r < 0.35:   # extend outward: base becomes a suffix of the new name
        return rng.choice(IDS) + '.' + base
      if r < 0.6 and len(parts) > 1:   # proper suffix of an existing name
        return '.'.join(parts[rng.randrange(1, len(parts)):])
      if r < 0.8:    # same tail, different head
        return '.'.join([rng.choice(IDS)] + parts[1:])
      return base
    return '.'.join(rng.choice(IDS[:3]) for _ in range(rng.choice([1, 2, 2, 3, 3, 4])))

  BAD = ['0', '', '1a', 'a b', 'a-b', 'a/b', '$', ' a', 'a ']

  def _rejected_name(self, rng, pool):
    """a name that has to be REJECTED (one component is not an identifier) whose valid inner components run along the path
    of a stored name and then branch off: [valid outer]* + invalid + [valid fresh]* + suffix of a stored name.  The set of
    stored names does not change, so nothing observable may."""
    tail = rng.choice(suffixes(rng.choice(pool))) if pool and rng.random() < 0.9 else rng.choice(IDS)
    mid = [rng.choice(IDS) for _ in range(rng.choice([0, 1, 1, 1, 2]))]
    outer = [rng.choice(IDS) for _ in range(rng.choice([0, 0, 1, 2]))]
    return '.'.join(outer + [rng.choice(self.BAD)] + mid + [tail])

  def gen(self, rng, tier):
    nreg, stored, ops = 1, [[]], []
    ids = IDS
    for _ in range(rng.randint(1, 12)):
      r = rng.randrange(nreg)
      x = rng.random()
      pool = stored[r]
      if x < 0.5 or not pool:
        n = self._name(rng, [n for s in stored for n in s])
        if rng.random() < 0.04:
          n = rng.choice(['', 'a..b', '.a', 'a.', 'a b', '1a', 'a.1', 'a/b'])
        elif rng.random() < 0.1:
          n = self._rejected_name(rng, [n for s in stored for n in s])
        ops.append(['set', r, n, 'v%d' % len(ops)])
        if n not in pool and all(p and (p[0].isalpha() or p[0] == '_') and p.replace('_', 'a').isalnum()
                                 for p in n.split('.')):
          pool.append(n)
      elif x < 0.72:
        n = rng.choice(pool) if rng.random() < 0.9 else self._name(rng, pool)
        ops.append(['pop', r, n])
        if n in pool:
          pool.remove(n)
      elif x < 0.77:
        ops.append(['clear', r])
        pool.clear()
      elif x < 0.9 and nreg < 3:
        ops.append(['copy', r])
        stored.append(list(pool))
        nreg += 1
      # queries
      for _ in range(rng.randint(0, 3)):
        r2 = rng.randrange(nreg)
        allnames = [n for s in stored for n in s] or ['a']
        base = rng.choice(allnames)
        q = rng.choice(suffixes(base) + [rng.choice(ids) + '.' + base, rng.choice(ids)])
        kind = rng.choice(['matching', 'getmatch', 'minimal', 'contains', 'len', 'items'])
        if kind == 'minimal':
          q = rng.choice(stored[r2]) if stored[r2] and rng.random() < 0.9 else q
        ops.append([kind, r2] + ([] if kind in ('len', 'items') else [q]))
    return ops

  def exhaustive(self):
    """all name sets of <= 3 names over 2 identifiers, depth <= 3, then every pop, with all queries"""
    ids = ['a', 'b']
    names = ['.'.join(p) for L in (1, 2, 3) for p in itertools.product(ids, repeat=L)]
    for k in (1, 2, 3):
      for ns in itertools.combinations(names, k):
        base = [['set', 0, n, n] for n in ns]
        qs = [[kind, 0, q] for q in names for kind in ('matching', 'getmatch')]
        mins = [['minimal', 0, n] for n in ns]
        yield base + qs + mins
        for p in ns:
          yield base + [['copy', 0], ['pop', 1, p]] + qs + [['minimal', 1, n] for n in ns if n != p] + mins

  def to_coq(self, case):
    m = {'set': 'SSet', 'pop': 'SPop', 'clear': 'SClear', 'copy': 'SCopy', 'matching': 'QMatching',
         'getmatch': 'QGetMatch', 'minimal': 'QMinimal', 'contains': 'QContains', 'len': 'QLen',
         'items': 'QItems'}
    out = []
    for op in case:
      args = [C.cnat(op[1])] + [C.cstr(a) for a in op[2:]]
      out.append('(%s %s)' % (m[op[0]], ' '.join(args)))
    return C.clist(out)

  # ---- implementation side + P_impl
  def _snapshot(self, sm):
    names = [k for k, _ in sm.items()]
    qs = sorted({s for n in names for s in suffixes(n)})
    snap = {'items': list(sm.items())}
    for q in qs:
      snap['m:' + q] = sorted(sm.matching_selectors(q))
    for n in names:
      snap['min:' + n] = sm.minimal_selector(n)
    return snap

  def _check_map(self, sm, fails, where):
    names = [k for k, _ in sm.items()]
    qs = sorted({s for n in names for s in suffixes(n)} | {i + '.' + n for n in names for i in IDS[:2]})
    for q in qs:
      got = sorted(sm.matching_selectors(q))
      want = spec_matches(names, q)
      if got != want:
        fails.append(('matching-spec', '%s: matching_selectors(%r)=%r, stored names %r require %r' %
                      (where, q, got, names, want)))
        return
      try:
        gm = sm.get_match(q, default=('<default>',))
        gm = 'default' if gm == ('<default>',) else ('value', gm)
      except KeyError:
        gm = 'ambiguous'
      exp = 'default' if not want else 'ambiguous' if len(want) > 1 else ('value', dict(sm.items())[want[0]])
      if gm != exp:
        fails.append(('get-match-spec', '%s: get_match(%r) -> %r, expected %r' % (where, q, gm, exp)))
        return
    for n in names:
      r = sm.minimal_selector(n)
      if r not in suffixes(n) or sm.matching_selectors(r) != [n]:
        fails.append(('minimal-wrong', '%s: minimal_selector(%r)=%r does not resolve back' % (where, n, r)))
        return
      for s in suffixes(n):
        if len(s) < len(r) and sm.matching_selectors(s) == [n]:
          fails.append(('minimal-not-minimal',
                        '%s: minimal_selector(%r)=%r but shorter suffix %r already resolves uniquely; names=%r'
                        % (where, n, r, s, names)))
          return

  def impl(self, case):
    gin = C.fresh_gin()
    from gin import selector_map
    regs = [selector_map.SelectorMap()]
    obs, fails = [], []
    mutated = copied = False
    for step, op in enumerate(case):
      kind, r = op[0], op[1]
      sm = regs[r]
      before = None
      if kind in ('set', 'pop', 'clear') and len(regs) > 1:
        before = [self._snapshot(x) if i != r else None for i, x in enumerate(regs)]
      try:
        if kind == 'set':
          sm[op[2]] = op[3]
          o = None
        elif kind == 'pop':
          o = sm.pop(op[2])
        elif kind == 'clear':
          sm.clear()
          o = None
        elif kind == 'copy':
          regs.append(sm.copy())
          copied = True
          o = None
        elif kind == 'matching':
          o = sorted(sm.matching_selectors(op[2]))
        elif kind == 'getmatch':
          o = sm.get_match(op[2])
        elif kind == 'minimal':
          o = sm.minimal_selector(op[2])
        elif kind == 'contains':
          o = op[2] in sm
        elif kind == 'len':
          o = len(sm)
        elif kind == 'items':
          o = [[k, v] for k, v in sm.items()]
        else:
          raise AssertionError(kind)
      except (KeyError, ValueError) as e:
        o = C.err(e)
      obs.append(o)
      if kind in ('set', 'pop', 'clear'):
        if copied:
          mutated = True
        if not fails:
          self._check_map(sm, fails, 'after op %d %r on map %d' % (step, op, r))
        if before and not fails:
          for i, x in enumerate(regs):
            if i != r and before[i] != self._snapshot(x):
              fails.append(('copy-shares-state',
                            'op %d %r on map %d changed what map %d shows' % (step, op, r, i)))
              break
    names = {k for x in regs for k, _ in x.items()} | {op[2] for op in case if op[0] == 'set'}
    sufrel = any(a != b and (a.endswith('.' + b) or a.split('.')[-1] == b.split('.')[-1])
                 for a in names for b in names)
    nontrivial = sufrel and (any(op[0] == 'pop' for op in case) or mutated)
    tags = ['len%d' % min(len(case) // 5 * 5, 30)] + sorted({op[0] for op in case})
    return {'obs': obs, 'fails': fails, 'nontrivial': nontrivial, 'tags': tags}

  def shrink(self, case):
    for i in range(len(case)):
      yield case[:i] + case[i + 1:]



# ------------------------------------------------------------------ spellings through the gin API
from harness import ginm            # pylint: disable=g-import-not-at-top
from harness.props import c12       # pylint: disable=g-import-not-at-top


class Spelling(c12.LockEngine):
  """every unambiguous spelling of one parameter is the same key for bind / query / get_bindings /
  get_configurable / references / finalize hooks"""
  name = 'gin-spelling'

  def budget(self, tier):
    return 500 if tier == 'quick' else 15000

  def corpus(self):
    f = {'sel': 'pkg.mod.f', 'sig': {'args': ['a', 'b'], 'defaults': [['i', 1], ['i', 2]], 'varargs': False,
                                     'kwonly': [], 'varkw': False}, 'allow': [], 'deny': []}
    return [{'regs': [f], 'ops': [
        ['bind', 'f.a', ['i', 5]], ['query', 'mod.f.a'], ['query', 'pkg.mod.f.a'], ['bindt', 's1', 'mod.f', 'a', ['i', 6]],
        ['query', 's1/f.a'], ['getbindings', 'pkg.mod.f', True, True], ['getbindings', 's1/f', True, True],
        ['pbind', 'mm', ['i', 3]], ['pbind', 'pkg.mod.f.b', ['ref', ['mm'], 'macro', True]],
        ['pbind', 's1/mod.f.b', ['l', [['ref', [], 'mod.f', False], ['ref', ['s1'], 'f', False]]]],
        ['callvia', 'mod.f', [], []], ['callvia', 's1/pkg.mod.f', [], []],
        ['hook', ['return', [['mod.f.a', ['i', 7]]]]], ['finalize'], ['locked'], ['dumpconfig'], ['dumpcalls']]}]

  def gen(self, rng, tier):
    sels = rng.sample(['pkg.mod.f', 'pkg.g', 'other.mod.f', 'x.y.z.h', 'k', 'pkg.mod.sub.f'], rng.randint(1, 3))
    regs = []
    for sel in sels:
      sg = ginm.gen_sig(rng, False, False)
      sg['defaults'] = [['i', 0]] * len(sg['args'])
      regs.append({'sel': sel, 'sig': sg, 'allow': [], 'deny': []})
    ops = []
    # sometimes one configurable is registered only half way: a spelling that was unique (or the complete name of an
    # entry) may then mean something else, and every API has to follow the CURRENT registry
    late = regs.pop() if len(regs) >= 2 and rng.random() < 0.5 else None
    n_ops = rng.randint(2, 10)
    late_at = rng.randint(1, n_ops - 1) if late else -1
    all_regs = regs + ([late] if late else [])
    for i_op in range(n_ops):
      if i_op == late_at:
        ops.append(['register', late])
        regs = all_regs
      c = rng.choice(regs)
      sp = ginm.spellings(c['sel'], regs)
      if late and i_op > late_at and rng.random() < 0.4:
        # a spelling that was unambiguous BEFORE the late registration (now possibly ambiguous or re-pointed)
        sp = ginm.spellings(c['sel'], all_regs[:-1]) if c is not late else sp
      p = rng.choice(c['sig']['args'])
      sc = rng.choice(['', '', 's1', 's1/s2'])
      pre = sc + '/' if sc else ''
      r = rng.random()
      if r < 0.3:
        v = ginm.gen_plain(rng, 1)
        if rng.random() < 0.3:
          c2 = rng.choice(regs)
          v = ['l', [['ref', [], rng.choice(ginm.spellings(c2['sel'], regs)), False],
                     ['ref', ['s1'], rng.choice(ginm.spellings(c2['sel'], regs)), False]]]
        kind = rng.choice(['bind', 'pbind', 'bindt'])
        s1 = rng.choice(sp)
        ops.append([kind, pre + s1 + '.' + p, v] if kind != 'bindt' else ['bindt', sc, s1, p, v])
      elif r < 0.55:
        ops.append(['query', pre + rng.choice(sp) + '.' + p])
      elif r < 0.7:
        ops.append(['getbindings', pre + rng.choice(sp), rng.random() < 0.5, True])
      elif r < 0.8:
        ops.append(['callvia', pre + rng.choice(sp), [], []])
      elif r < 0.87:
        ops.append(['pbind', 'mm', ginm.gen_plain(rng, 0)])
        ops.append(['pbind', pre + rng.choice(sp) + '.' + p, ['ref', ['mm'], rng.choice(['macro', 'gin.macro']), True]])
      elif r < 0.95:
        ops.append(['hook', ['return', [[rng.choice(sp) + '.' + p, ginm.gen_plain(rng, 0)]]]])
      else:
        ops.append(['finalize'])
        ops.append(['clear', False])
    ops += [['finalize'], ['locked'], ['dumpconfig'], ['dumpcalls']]
    return {'regs': all_regs[:-1] if late else regs, 'ops': ops}

  def impl(self, case):
    r = super().impl(case)
    # independent check: after every successful bind, the value is visible through every spelling
    m = ginm.Machine()
    regs = list(case['regs'])
    m.case_regs = regs
    for c in regs:
      try:
        m.register(c)
      except Exception:  # pylint: disable=broad-except
        pass
    fails = list(r['fails'])
    spell = {c['sel']: ginm.spellings(c['sel'], regs) for c in regs}
    nontrivial = False
    for op in case['ops']:
      try:
        m.exec_op(op)
      except Exception:  # pylint: disable=broad-except
        continue
      if op[0] == 'register':
        regs = regs + [op[1]]
        spell = {c['sel']: ginm.spellings(c['sel'], regs) for c in regs}
      if op[0] in ('bind', 'pbind', 'bindt') and not m.gin.config_is_locked():
        if op[0] == 'bindt':
          sc, sel, arg = op[1], op[2], op[3]
        else:
          sc, sel, arg = c12.split_key(op[1])
        full = c12.resolve_sel(sel, regs)
        if full not in spell or not arg:
          continue
        want = m.canon(m.gin.query_parameter((sc + '/' if sc else '') + full + '.' + arg))
        if len(spell[full]) >= 2:
          nontrivial = True
        for s2 in spell[full]:
          try:
            got = m.canon(m.gin.query_parameter((sc + '/' if sc else '') + s2 + '.' + arg))
          except Exception as e:  # pylint: disable=broad-except
            got = 'raised ' + type(e).__name__
          if got != want:
            fails.append(('spelling-dependent-key', 'bound through %r; query through %r gives %r, through %r gives %r' %
                          (sel, s2, got, full, want)))
    r['fails'] = fails[:3]
    r['nontrivial'] = nontrivial
    return r


class MacroSpelling(Engine):
  """the parameter `value` of Gin's own `gin.macro` under the scope NAME has several spellings: the config text `NAME = v`
  (use: `%NAME`), the key strings 'NAME/gin.macro.value' and '%NAME', the tuple (NAME, 'gin.macro', 'value'), and - while no
  other configurable is called `macro` - the abbreviation 'NAME/macro.value'.  The statement asks that binding, querying,
  references and finalize hooks treat every unambiguous spelling as the same key, whatever else is registered (before or
  after the text was parsed): a value written through one spelling is what every other spelling reads and what a consumer of
  `%NAME` receives; the abbreviation 'macro' is rejected as ambiguous exactly when a second entry ends with it.
  Implementation only: the Coq model has no '%NAME' key strings (it starts from parsed keys)."""
  name = 'macro-spelling'
  model = False
  NAMES = ['x', 'batch_size', 's1/x', 's1/s2/mm']
  OTHERS = [[], ['user.macro'], ['a.b.macro'], ['user.macro', 'other.macro'], ['user.macros'], ['user.xmacro', 'macro.user']]
  WRITERS = ['pct', 'full', 'tuple', 'short', 'text', 'hook-pct', 'hook-full']
  READERS = ['pct', 'full', 'short']

  def budget(self, tier):
    return 0 if tier == 'quick' else 150

  def corpus(self):
    cs = []
    for i, others in enumerate(self.OTHERS):
      for late in ((False, True) if others else (False,)):
        cs.append({'name': self.NAMES[i % len(self.NAMES)], 'others': others, 'late': late, 'writers': self.WRITERS})
    return cs

  def gen(self, rng, tier):
    others = rng.choice(self.OTHERS)
    return {'name': rng.choice(self.NAMES), 'others': others, 'late': bool(others) and rng.random() < 0.5,
            'writers': [rng.choice(self.WRITERS) for _ in range(rng.randint(1, 5))]}

  def shrink(self, case):
    for i in range(len(case['writers'])):
      if len(case['writers']) > 1:
        yield dict(case, writers=case['writers'][:i] + case['writers'][i + 1:])
    if len(case['others']) > 1:
      yield dict(case, others=case['others'][:1])

  def impl(self, case):
    gin = C.fresh_gin()
    fails = []
    name = case['name']

    def consumer(p=None):
      return p
    gin.external_configurable(consumer, name='consumer', module='c08m')

    def register_others():
      for sel in case['others']:
        mod, nm = sel.rsplit('.', 1)
        gin.external_configurable(lambda v=0: v, name=nm, module=mod)

    if not case['late']:
      register_others()
    gin.parse_config('%s = 1\nconsumer.p = %%%s\n' % (name, name))
    if case['late']:
      register_others()
    ambiguous = any(s.endswith('.macro') for s in case['others'])   # spec: 'macro' then matches several entries
    keys = {'pct': '%' + name, 'full': name + '/gin.macro.value', 'short': name + '/macro.value',
            'tuple': (name, 'gin.macro', 'value')}

    def outcome(fn):
      try:
        return ('ok', fn())
      except Exception as e:  # pylint: disable=broad-except
        return ('raised', '%s: %s' % (type(e).__name__, str(e).split('\n')[0][:120]))

    def read_all(want, how):
      for r in self.READERS:
        got = outcome(lambda: gin.query_parameter(keys[r]))
        if r == 'short' and ambiguous:
          if got[0] != 'raised' or 'mbiguous' not in got[1]:
            fails.append(('ambiguous-name-accepted', 'query_parameter(%r) with entries %r + gin.macro gives %r' %
                          (keys[r], case['others'], got)))
        elif got != ('ok', want):
          fails.append(('spelling-dependent-key', 'macro %r %s: query_parameter(%r) gives %r, the same parameter read as %r is %r '
                        '(other entries: %r registered %s the parse)' % (name, how, keys[r], got, keys['full'], want, case['others'],
                                                                      'after' if case['late'] else 'before')))
      got = outcome(lambda: gin.get_configurable('c08m.consumer')())
      if got != ('ok', want):
        fails.append(('spelling-dependent-key', 'macro %r %s: a consumer of %%%s receives %r, expected %r' % (name, how, name, got, want)))

    cur = 1
    read_all(cur, 'defined by the config text')
    for i, w in enumerate(case['writers']):
      v = 10 + i
      if w == 'text':
        res = outcome(lambda: gin.parse_config('%s = %d\n' % (name, v)))
      elif w.startswith('hook-'):
        key = keys[w[5:]]
        saved = list(gin.config._FINALIZE_HOOKS)  # pylint: disable=protected-access
        gin.config.register_finalize_hook(lambda config, key=key, v=v: {key: v})
        res = outcome(gin.finalize)
        gin.config._FINALIZE_HOOKS[:] = saved  # pylint: disable=protected-access
        gin.config._set_config_is_locked(False)  # pylint: disable=protected-access
      else:
        res = outcome(lambda: gin.bind_parameter(keys[w], v))
      how = 're-bound to %d through %s' % (v, w if w in ('text',) else repr(keys.get(w, keys.get(w[5:]))) + (' (finalize hook)' if w.startswith('hook-') else ''))
      if w == 'short' and ambiguous:
        if res[0] != 'raised' or 'mbiguous' not in res[1]:
          fails.append(('ambiguous-name-accepted', 'bind_parameter(%r) with entries %r + gin.macro gives %r' % (keys[w], case['others'], res)))
      elif res[0] != 'ok':
        fails.append(('spelling-dependent-key', 'macro %r could not be %s: %s (other entries: %r registered %s the parse); the config '
                      'text and %r name the same parameter and are accepted' % (name, how, res[1], case['others'],
                                                                               'after' if case['late'] else 'before', keys['full'])))
      else:
        cur = v
      read_all(cur, how)
    uniq, seen = [], set()
    for f in fails:
      if f not in seen:
        seen.add(f)
        uniq.append(f)
    return {'obs': C.T('Done'), 'fails': uniq[:3], 'nontrivial': bool(case['others']) and len(set(case['writers'])) >= 2,
            'tags': ['ambiguous-macro' if ambiguous else 'plain']}


ENGINES = [SelMap(), Spelling(), MacroSpelling()]
