"""C08 — names resolve by unique dotted suffix, identically through every API."""
import itertools

from harness import common as C
from harness.main import Engine

PID = 'C08'
LEVEL = 'proof'
RULE = ('selmap: random histories of set/pop/clear/copy over 1-3 maps with queries after every '
        'mutation; non-trivial = the stored names contain one that is a component-wise suffix of '
        'another (or share a suffix) AND the history contains a pop or a copy followed by a mutation. '
        'spelling: one parameter addressed through every unambiguous spelling across bind / query / '
        'get_bindings / get_configurable / reference / finalize hooks; non-trivial = >= 2 distinct '
        'spellings of a module-qualified configurable used through >= 2 different APIs. '
        "macro-spelling (implementation only): the spellings of a macro's parameter ('%NAME', 'NAME/gin.macro.value', the tuple "
        "key, 'NAME/macro.value', config text, finalize hooks) written and read in every combination while other configurables "
        "called `macro` / `macros` / `xmacro` are registered before or after the parse; non-trivial = such an entry exists and "
        '>= 2 different spellings write. '
        'registry-moves (implementation only): functions, classes and methods registered before their class (default module, '
        "module=<class selector>, unrelated module) in any order; registering the class removes the method's provisional name - which "
        'may be a proper suffix of another registered name, or the same string as the final name - and after every step every '
        'suffix spelling of every entry is written and read through bind (string / tuple key) / config text / finalize hook / query / '
        'get_bindings / get_configurable / reference / a call, with and without a scope, ambiguous and unknown names are rejected and '
        'config_str names are minimal; non-trivial = a class registration moved a method and some entry has >= 2 spellings.')
TRUSTED_BASE = [
    'Coq 8.16.1 kernel (coqc; coqchk in the thorough tier); vm_compute used in refutation witnesses and in the correspondence run; no native_compute',
    'axioms: none (Print Assumptions: Closed under the global context for every theorem of Props/C08.v)',
    'hand-written model coq/Model/SelectorMap.v of gin/selector_map.py; tied to /repo by harness/props/c08.py (differential run on generated histories, model evaluated inside coqc)',
    'Python str.split / re SELECTOR_RE are modelled (Lib/PyStr.v) for ASCII identifiers only',
    'no extraction is used for this property',
]
ASSUMPTIONS = [
    'selectors are ASCII; Python regex `$` matching before a trailing newline is not modelled',
    'order of matching_selectors() results is not compared (sets)',
]

IDS = ['a', 'b', 'c', 'x']


def suffixes(name):
  p = name.split('.')
  return ['.'.join(p[i:]) for i in range(len(p))]


def spec_matches(names, q):
  if q in names:
    return [q]
  return sorted(n for n in names if n.endswith('.' + q))


class SelMap(Engine):
  name = 'selmap'
  imports = 'Model.SelectorMap Model.SelmapEngine'
  run_fn = 'run'
  rule = 'see RULE'

  def budget(self, tier):
    return 1500 if tier == 'quick' else 40000

  def corpus(self):
    return [
        # F3: single top-level branch
        [['set', 0, 'a.b.c', 'v'], ['minimal', 0, 'a.b.c'], ['matching', 0, 'c']],
        [['set', 0, 'a.b', 'v'], ['set', 0, 'x.c', 'w'], ['pop', 0, 'x.c'], ['minimal', 0, 'a.b']],
        # F4: copy shares sub-dicts
        [['set', 0, 'a.b', '1'], ['copy', 0], ['set', 1, 'x.b', '2'], ['matching', 0, 'b'],
         ['getmatch', 0, 'b']],
        [['set', 0, 'a.b', '1'], ['set', 0, 'c.b', '3'], ['copy', 0], ['pop', 1, 'a.b'],
         ['matching', 0, 'b'], ['getmatch', 0, 'a.b'], ['minimal', 0, 'a.b']],
        [['set', 0, 'a', '1'], ['set', 0, 'b.a', '2'], ['getmatch', 0, 'a'], ['matching', 0, 'a'],
         ['minimal', 0, 'b.a'], ['minimal', 0, 'a'], ['set', 0, 'a..b', 'x'], ['set', 0, '', 'x'],
         ['pop', 0, 'zz'], ['matching', 0, ''], ['matching', 0, '.a'], ['items', 0], ['len', 0]],
        # rejected inserts (an outer component is not an identifier, the inner ones run along a stored name and branch
        # off): the stored names are unchanged, so is every answer - also in a later copy and after later pops
        [['set', 0, 'a.b.x', '1'], ['set', 0, 'c.a.b', '2'], ['minimal', 0, 'a.b.x'], ['set', 0, '0.c.b.x', 'bad'],
         ['minimal', 0, 'a.b.x'], ['matching', 0, 'b.x'], ['contains', 0, '0.c.b.x'], ['len', 0], ['copy', 0],
         ['minimal', 1, 'a.b.x'], ['set', 1, 'x.b.x', '3'], ['pop', 1, 'x.b.x'], ['minimal', 1, 'a.b.x'], ['items', 1]],
        [['set', 0, 'a.b', '1'], ['set', 0, 'c..a.b', 'bad'], ['set', 0, 'b.1a.x.b', 'bad'], ['set', 0, '.c.b', 'bad'],
         ['set', 0, 'a.b-c.x.a.b', 'bad'], ['minimal', 0, 'a.b'], ['matching', 0, 'b'], ['getmatch', 0, 'b'],
         ['pop', 0, 'c.a.b'], ['pop', 0, 'a.b'], ['len', 0], ['items', 0], ['set', 0, 'x.c.b', '2'], ['minimal', 0, 'x.c.b']],
        # removal of a name that is a PROPER SUFFIX of another stored name (an inner node of the tree, not a leaf): the longer
        # names stay addressable by every suffix - one level below, two levels below, several of them, and in a copy
        [['set', 0, 'b.c', '1'], ['set', 0, 'a.b.c', '2'], ['pop', 0, 'b.c'], ['matching', 0, 'b.c'], ['matching', 0, 'c'],
         ['getmatch', 0, 'c'], ['getmatch', 0, 'b.c'], ['minimal', 0, 'a.b.c'], ['contains', 0, 'a.b.c'], ['items', 0]],
        [['set', 0, 'c', '1'], ['set', 0, 'x.a.b.c', '2'], ['set', 0, 'b.b.c', '3'], ['set', 0, 'a.x', '4'], ['pop', 0, 'c'],
         ['matching', 0, 'c'], ['matching', 0, 'b.c'], ['getmatch', 0, 'a.b.c'], ['minimal', 0, 'x.a.b.c'],
         ['minimal', 0, 'b.b.c'], ['set', 0, 'b.c', '5'], ['pop', 0, 'b.c'], ['matching', 0, 'b.c'], ['minimal', 0, 'b.b.c'],
         ['len', 0]],
        [['set', 0, 'a.b', '1'], ['set', 0, 'c.a.b', '2'], ['copy', 0], ['pop', 1, 'a.b'], ['getmatch', 1, 'b'],
         ['minimal', 1, 'c.a.b'], ['matching', 0, 'b'], ['minimal', 0, 'c.a.b'], ['pop', 0, 'c.a.b'], ['getmatch', 0, 'b'],
         ['minimal', 0, 'a.b'], ['items', 0], ['items', 1]],
    ]

  def _name(self, rng, pool):
    if pool and rng.random() < 0.45:
      base = rng.choice(pool)
      r = rng.random()
      parts = base.split('.')
      if r < 0.35:   # extend outward: base becomes a suffix of the new name
        return rng.choice(IDS) + '.' + base
      if r < 0.6 and len(parts) > 1:   # proper suffix of an existing name
        return '.'.join(parts[rng.randrange(1, len(parts)):])
      if r < 0.8:    # same tail, different head
        return '.'.join([rng.choice(IDS)] + parts[1:])
      return base
    return '.'.join(rng.choice(IDS[:3]) for _ in range(rng.choice([1, 2, 2, 3, 3, 4])))

  BAD = ['0', '', '1a', 'a b', 'a-b', 'a/b', '$', ' a', 'a ']

  def _rejected_name(self, rng, pool):
    """a name that has to be REJECTED (one component is not an identifier) whose valid inner components run along the path
    of a stored name and then branch off: [valid outer]* + invalid + [valid fresh]* + suffix of a stored name.  The set of
    stored names does not change, so nothing observable may."""
    tail = rng.choice(suffixes(rng.choice(pool))) if pool and rng.random() < 0.9 else rng.choice(IDS)
    mid = [rng.choice(IDS) for _ in range(rng.choice([0, 1, 1, 1, 2]))]
    outer = [rng.choice(IDS) for _ in range(rng.choice([0, 0, 1, 2]))]
    return '.'.join(outer + [rng.choice(self.BAD)] + mid + [tail])

  def gen(self, rng, tier):
    nreg, stored, ops = 1, [[]], []
    ids = IDS
    for _ in range(rng.randint(1, 12)):
      r = rng.randrange(nreg)
      x = rng.random()
      pool = stored[r]
      if x < 0.5 or not pool:
        n = self._name(rng, [n for s in stored for n in s])
        if rng.random() < 0.04:
          n = rng.choice(['', 'a..b', '.a', 'a.', 'a b', '1a', 'a.1', 'a/b'])
        elif rng.random() < 0.1:
          n = self._rejected_name(rng, [n for s in stored for n in s])
        ops.append(['set', r, n, 'v%d' % len(ops)])
        if n not in pool and all(p and (p[0].isalpha() or p[0] == '_') and p.replace('_', 'a').isalnum()
                                 for p in n.split('.')):
          pool.append(n)
      elif x < 0.72:
        n = rng.choice(pool) if rng.random() < 0.9 else self._name(rng, pool)
        # a name that is a proper suffix of another stored name is an inner node of the tree: removing it is not removing a leaf
        inner = [a for a in pool if any(b.endswith('.' + a) for b in pool)]
        if inner and rng.random() < 0.4:
          n = rng.choice(inner)
        ops.append(['pop', r, n])
        if n in pool:
          pool.remove(n)
      elif x < 0.77:
        ops.append(['clear', r])
        pool.clear()
      elif x < 0.9 and nreg < 3:
        ops.append(['copy', r])
        stored.append(list(pool))
        nreg += 1
      # queries
      for _ in range(rng.randint(0, 3)):
        r2 = rng.randrange(nreg)
        allnames = [n for s in stored for n in s] or ['a']
        base = rng.choice(allnames)
        q = rng.choice(suffixes(base) + [rng.choice(ids) + '.' + base, rng.choice(ids)])
        kind = rng.choice(['matching', 'getmatch', 'minimal', 'contains', 'len', 'items'])
        if kind == 'minimal':
          q = rng.choice(stored[r2]) if stored[r2] and rng.random() < 0.9 else q
        ops.append([kind, r2] + ([] if kind in ('len', 'items') else [q]))
    return ops

  def exhaustive(self):
    """all name sets of <= 3 names over 2 identifiers, depth <= 3, then every pop, with all queries"""
    ids = ['a', 'b']
    names = ['.'.join(p) for L in (1, 2, 3) for p in itertools.product(ids, repeat=L)]
    for k in (1, 2, 3):
      for ns in itertools.combinations(names, k):
        base = [['set', 0, n, n] for n in ns]
        qs = [[kind, 0, q] for q in names for kind in ('matching', 'getmatch')]
        mins = [['minimal', 0, n] for n in ns]
        yield base + qs + mins
        for p in ns:
          yield base + [['copy', 0], ['pop', 1, p]] + qs + [['minimal', 1, n] for n in ns if n != p] + mins

  def to_coq(self, case):
    m = {'set': 'SSet', 'pop': 'SPop', 'clear': 'SClear', 'copy': 'SCopy', 'matching': 'QMatching',
         'getmatch': 'QGetMatch', 'minimal': 'QMinimal', 'contains': 'QContains', 'len': 'QLen',
         'items': 'QItems'}
    out = []
    for op in case:
      args = [C.cnat(op[1])] + [C.cstr(a) for a in op[2:]]
      out.append('(%s %s)' % (m[op[0]], ' '.join(args)))
    return C.clist(out)

  # ---- implementation side + P_impl
  @staticmethod
  def _outcome(fn, *args, **kw):
    """whatever the map does is an observation: ('ok', result) or ('raised', exception type)"""
    try:
      return ('ok', fn(*args, **kw))
    except Exception as e:  # pylint: disable=broad-except
      return ('raised', type(e).__name__)

  def _snapshot(self, sm):
    names = [k for k, _ in sm.items()]
    qs = sorted({s for n in names for s in suffixes(n)})
    snap = {'items': list(sm.items())}
    for q in qs:
      snap['m:' + q] = self._outcome(lambda: sorted(sm.matching_selectors(q)))
    for n in names:
      snap['min:' + n] = self._outcome(sm.minimal_selector, n)
    return snap

  def _check_map(self, sm, fails, where):
    names = [k for k, _ in sm.items()]
    qs = sorted({s for n in names for s in suffixes(n)} | {i + '.' + n for n in names for i in IDS[:2]})
    for q in qs:
      want = spec_matches(names, q)
      got = self._outcome(lambda: sorted(sm.matching_selectors(q)))
      if got != ('ok', want):
        fails.append(('matching-spec', '%s: matching_selectors(%r)=%r, stored names %r require %r' %
                      (where, q, got[1] if got[0] == 'ok' else got, names, want)))
        return
      try:
        gm = sm.get_match(q, default=('<default>',))
        gm = 'default' if gm == ('<default>',) else ('value', gm)
      except KeyError:
        gm = 'ambiguous'
      except Exception as e:  # pylint: disable=broad-except
        gm = ('raised', type(e).__name__)
      exp = 'default' if not want else 'ambiguous' if len(want) > 1 else ('value', dict(sm.items())[want[0]])
      if gm != exp:
        fails.append(('get-match-spec', '%s: get_match(%r) -> %r, expected %r' % (where, q, gm, exp)))
        return
    for n in names:
      got = self._outcome(sm.minimal_selector, n)
      if got[0] != 'ok':
        fails.append(('minimal-wrong', '%s: minimal_selector(%r) of the stored name %r raises %s; names=%r' %
                      (where, n, n, got[1], names)))
        return
      r = got[1]
      if r not in suffixes(n) or self._outcome(sm.matching_selectors, r) != ('ok', [n]):
        fails.append(('minimal-wrong', '%s: minimal_selector(%r)=%r does not resolve back' % (where, n, r)))
        return
      for s in suffixes(n):
        if len(s) < len(r) and self._outcome(sm.matching_selectors, s) == ('ok', [n]):
          fails.append(('minimal-not-minimal',
                        '%s: minimal_selector(%r)=%r but shorter suffix %r already resolves uniquely; names=%r'
                        % (where, n, r, s, names)))
          return

  def impl(self, case):
    gin = C.fresh_gin()
    from gin import selector_map
    regs = [selector_map.SelectorMap()]
    obs, fails = [], []
    mutated = copied = False
    for step, op in enumerate(case):
      kind, r = op[0], op[1]
      sm = regs[r]
      before = None
      if kind in ('set', 'pop', 'clear') and len(regs) > 1:
        before = [self._snapshot(x) if i != r else None for i, x in enumerate(regs)]
      try:
        if kind == 'set':
          sm[op[2]] = op[3]
          o = None
        elif kind == 'pop':
          o = sm.pop(op[2])
        elif kind == 'clear':
          sm.clear()
          o = None
        elif kind == 'copy':
          regs.append(sm.copy())
          copied = True
          o = None
        elif kind == 'matching':
          o = sorted(sm.matching_selectors(op[2]))
        elif kind == 'getmatch':
          o = sm.get_match(op[2])
        elif kind == 'minimal':
          o = sm.minimal_selector(op[2])
        elif kind == 'contains':
          o = op[2] in sm
        elif kind == 'len':
          o = len(sm)
        elif kind == 'items':
          o = [[k, v] for k, v in sm.items()]
        else:
          raise AssertionError(kind)
      except (KeyError, ValueError) as e:
        o = C.err(e)
      except Exception as e:  # pylint: disable=broad-except
        o = C.err(e)
        fails.append(('unexpected-exception', 'op %d %r on map %d raises %s: %s' % (step, op, r, type(e).__name__, e)))
      obs.append(o)
      if kind in ('set', 'pop', 'clear'):
        if copied:
          mutated = True
        if not fails:
          self._check_map(sm, fails, 'after op %d %r on map %d' % (step, op, r))
        if before and not fails:
          for i, x in enumerate(regs):
            if i != r and before[i] != self._snapshot(x):
              fails.append(('copy-shares-state',
                            'op %d %r on map %d changed what map %d shows' % (step, op, r, i)))
              break
    names = {k for x in regs for k, _ in x.items()} | {op[2] for op in case if op[0] == 'set'}
    sufrel = any(a != b and (a.endswith('.' + b) or a.split('.')[-1] == b.split('.')[-1])
                 for a in names for b in names)
    nontrivial = sufrel and (any(op[0] == 'pop' for op in case) or mutated)
    tags = ['len%d' % min(len(case) // 5 * 5, 30)] + sorted({op[0] for op in case})
    return {'obs': obs, 'fails': fails, 'nontrivial': nontrivial, 'tags': tags}

  def shrink(self, case):
    for i in range(len(case)):
      yield case[:i] + case[i + 1:]



# ------------------------------------------------------------------ spellings through the gin API
from harness import ginm            # pylint: disable=g-import-not-at-top
from harness.props import c12       # pylint: disable=g-import-not-at-top


class Spelling(c12.LockEngine):
  """every unambiguous spelling of one parameter is the same key for bind / query / get_bindings /
  get_configurable / references / finalize hooks"""
  name = 'gin-spelling'

  def budget(self, tier):
    return 500 if tier == 'quick' else 15000

  def corpus(self):
    f = {'sel': 'pkg.mod.f', 'sig': {'args': ['a', 'b'], 'defaults': [['i', 1], ['i', 2]], 'varargs': False,
                                     'kwonly': [], 'varkw': False}, 'allow': [], 'deny': []}
    return [{'regs': [f], 'ops': [
        ['bind', 'f.a', ['i', 5]], ['query', 'mod.f.a'], ['query', 'pkg.mod.f.a'], ['bindt', 's1', 'mod.f', 'a', ['i', 6]],
        ['query', 's1/f.a'], ['getbindings', 'pkg.mod.f', True, True], ['getbindings', 's1/f', True, True],
        ['pbind', 'mm', ['i', 3]], ['pbind', 'pkg.mod.f.b', ['ref', ['mm'], 'macro', True]],
        ['pbind', 's1/mod.f.b', ['l', [['ref', [], 'mod.f', False], ['ref', ['s1'], 'f', False]]]],
        ['callvia', 'mod.f', [], []], ['callvia', 's1/pkg.mod.f', [], []],
        ['hook', ['return', [['mod.f.a', ['i', 7]]]]], ['finalize'], ['locked'], ['dumpconfig'], ['dumpcalls']]}]

  def gen(self, rng, tier):
    sels = rng.sample(['pkg.mod.f', 'pkg.g', 'other.mod.f', 'x.y.z.h', 'k', 'pkg.mod.sub.f'], rng.randint(1, 3))
    regs = []
    for sel in sels:
      sg = ginm.gen_sig(rng, False, False)
      sg['defaults'] = [['i', 0]] * len(sg['args'])
      regs.append({'sel': sel, 'sig': sg, 'allow': [], 'deny': []})
    ops = []
    # sometimes one configurable is registered only half way: a spelling that was unique (or the complete name of an
    # entry) may then mean something else, and every API has to follow the CURRENT registry
    late = regs.pop() if len(regs) >= 2 and rng.random() < 0.5 else None
    n_ops = rng.randint(2, 10)
    late_at = rng.randint(1, n_ops - 1) if late else -1
    all_regs = regs + ([late] if late else [])
    for i_op in range(n_ops):
      if i_op == late_at:
        ops.append(['register', late])
        regs = all_regs
      c = rng.choice(regs)
      sp = ginm.spellings(c['sel'], regs)
      if late and i_op > late_at and rng.random() < 0.4:
        # a spelling that was unambiguous BEFORE the late registration (now possibly ambiguous or re-pointed)
        sp = ginm.spellings(c['sel'], all_regs[:-1]) if c is not late else sp
      p = rng.choice(c['sig']['args'])
      sc = rng.choice(['', '', 's1', 's1/s2'])
      pre = sc + '/' if sc else ''
      r = rng.random()
      if r < 0.3:
        v = ginm.gen_plain(rng, 1)
        if rng.random() < 0.3:
          c2 = rng.choice(regs)
          v = ['l', [['ref', [], rng.choice(ginm.spellings(c2['sel'], regs)), False],
                     ['ref', ['s1'], rng.choice(ginm.spellings(c2['sel'], regs)), False]]]
        kind = rng.choice(['bind', 'pbind', 'bindt'])
        s1 = rng.choice(sp)
        ops.append([kind, pre + s1 + '.' + p, v] if kind != 'bindt' else ['bindt', sc, s1, p, v])
      elif r < 0.55:
        ops.append(['query', pre + rng.choice(sp) + '.' + p])
      elif r < 0.7:
        ops.append(['getbindings', pre + rng.choice(sp), rng.random() < 0.5, True])
      elif r < 0.8:
        ops.append(['callvia', pre + rng.choice(sp), [], []])
      elif r < 0.87:
        ops.append(['pbind', 'mm', ginm.gen_plain(rng, 0)])
        ops.append(['pbind', pre + rng.choice(sp) + '.' + p, ['ref', ['mm'], rng.choice(['macro', 'gin.macro']), True]])
      elif r < 0.95:
        ops.append(['hook', ['return', [[rng.choice(sp) + '.' + p, ginm.gen_plain(rng, 0)]]]])
      else:
        ops.append(['finalize'])
        ops.append(['clear', False])
    ops += [['finalize'], ['locked'], ['dumpconfig'], ['dumpcalls']]
    return {'regs': all_regs[:-1] if late else regs, 'ops': ops}

  def impl(self, case):
    r = super().impl(case)
    # independent check: after every successful bind, the value is visible through every spelling
    m = ginm.Machine()
    regs = list(case['regs'])
    m.case_regs = regs
    for c in regs:
      try:
        m.register(c)
      except Exception:  # pylint: disable=broad-except
        pass
    fails = list(r['fails'])
    spell = {c['sel']: ginm.spellings(c['sel'], regs) for c in regs}
    nontrivial = False
    for op in case['ops']:
      try:
        m.exec_op(op)
      except Exception:  # pylint: disable=broad-except
        continue
      if op[0] == 'register':
        regs = regs + [op[1]]
        spell = {c['sel']: ginm.spellings(c['sel'], regs) for c in regs}
      if op[0] in ('bind', 'pbind', 'bindt') and not m.gin.config_is_locked():
        if op[0] == 'bindt':
          sc, sel, arg = op[1], op[2], op[3]
        else:
          sc, sel, arg = c12.split_key(op[1])
        full = c12.resolve_sel(sel, regs)
        if full not in spell or not arg:
          continue
        want = m.canon(m.gin.query_parameter((sc + '/' if sc else '') + full + '.' + arg))
        if len(spell[full]) >= 2:
          nontrivial = True
        for s2 in spell[full]:
          try:
            got = m.canon(m.gin.query_parameter((sc + '/' if sc else '') + s2 + '.' + arg))
          except Exception as e:  # pylint: disable=broad-except
            got = 'raised ' + type(e).__name__
          if got != want:
            fails.append(('spelling-dependent-key', 'bound through %r; query through %r gives %r, through %r gives %r' %
                          (sel, s2, got, full, want)))
    r['fails'] = fails[:3]
    r['nontrivial'] = nontrivial
    return r


class MacroSpelling(Engine):
  """the parameter `value` of Gin's own `gin.macro` under the scope NAME has several spellings: the config text `NAME = v`
  (use: `%NAME`), the key strings 'NAME/gin.macro.value' and '%NAME', the tuple (NAME, 'gin.macro', 'value'), and - while no
  other configurable is called `macro` - the abbreviation 'NAME/macro.value'.  The statement asks that binding, querying,
  references and finalize hooks treat every unambiguous spelling as the same key, whatever else is registered (before or
  after the text was parsed): a value written through one spelling is what every other spelling reads and what a consumer of
  `%NAME` receives; the abbreviation 'macro' is rejected as ambiguous exactly when a second entry ends with it.
  Implementation only: the Coq model has no '%NAME' key strings (it starts from parsed keys)."""
  name = 'macro-spelling'
  model = False
  NAMES = ['x', 'batch_size', 's1/x', 's1/s2/mm']
  OTHERS = [[], ['user.macro'], ['a.b.macro'], ['user.macro', 'other.macro'], ['user.macros'], ['user.xmacro', 'macro.user']]
  WRITERS = ['pct', 'full', 'tuple', 'short', 'text', 'hook-pct', 'hook-full']
  READERS = ['pct', 'full', 'short']

  def budget(self, tier):
    return 0 if tier == 'quick' else 150

  def corpus(self):
    cs = []
    for i, others in enumerate(self.OTHERS):
      for late in ((False, True) if others else (False,)):
        cs.append({'name': self.NAMES[i % len(self.NAMES)], 'others': others, 'late': late, 'writers': self.WRITERS})
    return cs

  def gen(self, rng, tier):
    others = rng.choice(self.OTHERS)
    return {'name': rng.choice(self.NAMES), 'others': others, 'late': bool(others) and rng.random() < 0.5,
            'writers': [rng.choice(self.WRITERS) for _ in range(rng.randint(1, 5))]}

  def shrink(self, case):
    for i in range(len(case['writers'])):
      if len(case['writers']) > 1:
        yield dict(case, writers=case['writers'][:i] + case['writers'][i + 1:])
    if len(case['others']) > 1:
      yield dict(case, others=case['others'][:1])

  def impl(self, case):
    gin = C.fresh_gin()
    fails = []
    name = case['name']

    def consumer(p=None):
      return p
    gin.external_configurable(consumer, name='consumer', module='c08m')

    def register_others():
      for sel in case['others']:
        mod, nm = sel.rsplit('.', 1)
        gin.external_configurable(lambda v=0: v, name=nm, module=mod)

    if not case['late']:
      register_others()
    gin.parse_config('%s = 1\nconsumer.p = %%%s\n' % (name, name))
    if case['late']:
      register_others()
    ambiguous = any(s.endswith('.macro') for s in case['others'])   # spec: 'macro' then matches several entries
    keys = {'pct': '%' + name, 'full': name + '/gin.macro.value', 'short': name + '/macro.value',
            'tuple': (name, 'gin.macro', 'value')}

    def outcome(fn):
      try:
        return ('ok', fn())
      except Exception as e:  # pylint: disable=broad-except
        return ('raised', '%s: %s' % (type(e).__name__, str(e).split('\n')[0][:120]))

    def read_all(want, how):
      for r in self.READERS:
        got = outcome(lambda: gin.query_parameter(keys[r]))
        if r == 'short' and ambiguous:
          if got[0] != 'raised' or 'mbiguous' not in got[1]:
            fails.append(('ambiguous-name-accepted', 'query_parameter(%r) with entries %r + gin.macro gives %r' %
                          (keys[r], case['others'], got)))
        elif got != ('ok', want):
          fails.append(('spelling-dependent-key', 'macro %r %s: query_parameter(%r) gives %r, the same parameter read as %r is %r '
                        '(other entries: %r registered %s the parse)' % (name, how, keys[r], got, keys['full'], want, case['others'],
                                                                      'after' if case['late'] else 'before')))
      got = outcome(lambda: gin.get_configurable('c08m.consumer')())
      if got != ('ok', want):
        fails.append(('spelling-dependent-key', 'macro %r %s: a consumer of %%%s receives %r, expected %r' % (name, how, name, got, want)))

    cur = 1
    read_all(cur, 'defined by the config text')
    for i, w in enumerate(case['writers']):
      v = 10 + i
      if w == 'text':
        res = outcome(lambda: gin.parse_config('%s = %d\n' % (name, v)))
      elif w.startswith('hook-'):
        key = keys[w[5:]]
        saved = list(gin.config._FINALIZE_HOOKS)  # pylint: disable=protected-access
        gin.config.register_finalize_hook(lambda config, key=key, v=v: {key: v})
        res = outcome(gin.finalize)
        gin.config._FINALIZE_HOOKS[:] = saved  # pylint: disable=protected-access
        gin.config._set_config_is_locked(False)  # pylint: disable=protected-access
      else:
        res = outcome(lambda: gin.bind_parameter(keys[w], v))
      how = 're-bound to %d through %s' % (v, w if w in ('text',) else repr(keys.get(w, keys.get(w[5:]))) + (' (finalize hook)' if w.startswith('hook-') else ''))
      if w == 'short' and ambiguous:
        if res[0] != 'raised' or 'mbiguous' not in res[1]:
          fails.append(('ambiguous-name-accepted', 'bind_parameter(%r) with entries %r + gin.macro gives %r' % (keys[w], case['others'], res)))
      elif res[0] != 'ok':
        fails.append(('spelling-dependent-key', 'macro %r could not be %s: %s (other entries: %r registered %s the parse); the config '
                      'text and %r name the same parameter and are accepted' % (name, how, res[1], case['others'],
                                                                               'after' if case['late'] else 'before', keys['full'])))
      else:
        cur = v
      read_all(cur, how)
    uniq, seen = [], set()
    for f in fails:
      if f not in seen:
        seen.add(f)
        uniq.append(f)
    return {'obs': C.T('Done'), 'fails': uniq[:3], 'nontrivial': bool(case['others']) and len(set(case['writers'])) >= 2,
            'tags': ['ambiguous-macro' if ambiguous else 'plain']}


class ReportedNames(Engine):
  """`config_str()` / `operative_config_str()` report every bound (resp. used) parameter under a name chosen by Gin: "the
  shortest name reported for an entry resolves back to that entry and no shorter suffix does".  Entries here are functions,
  classes (`gin.register`, `gin.external_configurable`; `gin.configurable` for classes without registered methods) and `@gin.register`ed METHODS
  of those classes (complete name `module.Class.method`; Gin's documented rule is that a method is
  never addressed without its class, so the bare method name does not resolve), several of which share their last one or two
  components across modules; some entries are only registered (not bound), some are registered after the bindings were
  made.  Every parameter is bound to a value no other parameter has, so what a reported name resolves to is read off the
  public `query_parameter`, not off Gin's bookkeeping:
    * every reported key resolves (is neither ambiguous nor unknown) to the parameter whose value is printed with it,
    * it is a component-wise suffix of that entry's complete name and no shorter suffix resolves to the entry,
    * every bound (used) parameter is reported exactly once, and the reported text parsed into a cleared configuration
      restores every binding.
  Implementation only: the Coq model has no config text and no methods."""
  name = 'reported-names'
  model = False
  MODULES = ['alpha', 'beta', 'alpha.sub', 'beta.sub', 'pkg.alpha', 'pkg.beta.sub', 'Worker', 'lib.Worker']
  CLASSES = ['Worker', 'Solo', 'worker']
  METHODS = ['run', 'go']
  FUNCS = ['run', 'go', 'make', 'Worker', 'Solo']
  SCOPES = ['', '', '', 's1', 's1/s2']

  def budget(self, tier):
    return 250 if tier == 'quick' else 6000

  @staticmethod
  def _cls(module, name, methods, **kw):
    return dict({'kind': 'cls', 'module': module, 'name': name, 'bound': True, 'scope': '', 'late': False,
                 'deco': 'register', 'methods': [dict({'name': m, 'bound': True, 'scope': ''}, **(mk or {}))
                                                 for m, mk in methods]}, **kw)

  @staticmethod
  def _fn(module, name, **kw):
    return dict({'kind': 'fn', 'module': module, 'name': name, 'bound': True, 'scope': '', 'late': False}, **kw)

  def corpus(self):
    K, F = self._cls, self._fn
    return [
        # same class name in two modules, each with a registered method of the same name; a third class whose Class.method is unique
        {'entries': [K('alpha', 'Worker', [('run', None)]), K('beta', 'Worker', [('run', None)]), K('gamma', 'Solo', [('go', None)])]},
        # only ONE of the two methods is bound; the other class is registered after the binding, under a scope
        {'entries': [K('pkg.alpha', 'Worker', [('run', {'scope': 's1'}), ('go', None)], bound=False),
                     K('pkg.beta', 'Worker', [('run', {'bound': False})], late=True, bound=False), F('pkg', 'run')]},
        # a function whose module path ends with a class name, a class made configurable with external_configurable, a function without `module=`
        {'entries': [K('alpha', 'Worker', [('run', None)], deco='external'), F('lib.Worker', 'run'), F('', 'go'),
                     K('alpha.sub', 'Solo', [('go', None)]), K('beta.sub', 'Solo', [('run', None)], scope='s1/s2')]},
    ]

  def gen(self, rng, tier):
    entries, taken = [], set()
    for _ in range(rng.randint(2, 5)):
      if rng.random() < 0.65:
        if entries and rng.random() < 0.75:     # share the class name (and often the method names) of an earlier class
          prev = [e for e in entries if e['kind'] == 'cls']
          name = rng.choice(prev)['name'] if prev else rng.choice(self.CLASSES)
        else:
          name = rng.choice(self.CLASSES)
        e = {'kind': 'cls', 'module': rng.choice(self.MODULES), 'name': name, 'bound': rng.random() < 0.5,
             'scope': rng.choice(self.SCOPES), 'late': rng.random() < 0.2,
             'deco': rng.choice(['register', 'register', 'external', 'configurable']),
             'methods': [{'name': m, 'bound': rng.random() < 0.75, 'scope': rng.choice(self.SCOPES)}
                         for m in rng.sample(self.METHODS, rng.choice([0, 1, 1, 2]))]}
        if e['deco'] == 'configurable':
          e['methods'] = []       # only registered / external classes adopt their registered methods
      else:
        e = {'kind': 'fn', 'module': rng.choice(self.MODULES + ['']), 'name': rng.choice(self.FUNCS), 'bound': rng.random() < 0.7,
             'scope': rng.choice(self.SCOPES), 'late': rng.random() < 0.2}
      full = (e['module'] or 'c08_fn_module') + '.' + e['name']
      names = {full} | {full + '.' + m['name'] for m in e.get('methods', [])}
      if names & taken:
        continue
      taken |= names
      entries.append(e)
    return {'entries': entries}

  def shrink(self, case):
    es = case['entries']
    for i in range(len(es)):
      yield {'entries': es[:i] + es[i + 1:]}
    for i, e in enumerate(es):
      for j in range(len(e.get('methods', []))):
        yield {'entries': es[:i] + [dict(e, methods=e['methods'][:j] + e['methods'][j + 1:])] + es[i + 1:]}
      for k, v in (('late', False), ('scope', ''), ('deco', 'register')):
        if e.get(k, v) != v:
          yield {'entries': es[:i] + [dict(e, **{k: v})] + es[i + 1:]}
      if e['bound'] and e.get('methods'):
        yield {'entries': es[:i] + [dict(e, bound=False)] + es[i + 1:]}
      for j, m in enumerate(e.get('methods', [])):
        for k, v in (('scope', ''), ('bound', False)):
          if m[k] != v:
            yield {'entries': es[:i] + [dict(e, methods=e['methods'][:j] + [dict(m, **{k: v})] + e['methods'][j + 1:])] + es[i + 1:]}

  def impl(self, case):
    gin = C.fresh_gin()
    fails, params = [], []      # params: dict(full=complete selector, scope, value, bound, call=thunk, is_method)
    counter = [100]

    def new_value():
      counter[0] += 1
      return counter[0]

    def define(e):
      """the Python definition + registration of one entry, as a user module would write it"""
      # without `module=` Gin takes the Python module of the function
      ns = {'gin': gin, '__name__': 'c08_user_module' if e['kind'] == 'cls' else 'c08_fn_module'}
      full = (e['module'] or 'c08_fn_module') + '.' + e['name']
      if e['kind'] == 'fn':
        exec('def %s(p=0):\n  return p\n' % e['name'], ns)       # pylint: disable=exec-used
        gin.external_configurable(ns[e['name']], name=e['name'], module=e['module'] or None)
        params.append({'full': full, 'arg': 'p', 'scope': e['scope'], 'bound': e['bound'], 'is_method': False,
                       'make': lambda: gin.get_configurable(full), 'call': lambda fn: fn()})
        return
      deco = e.get('deco', 'register')
      src = 'class %s:\n  def __init__(self, k=0):\n    self.k = k\n' % e['name']
      for m in e['methods']:
        src += '  @gin.register\n  def %s(self, p=0):\n    return p\n' % m['name']
      exec(src, ns)                                                # pylint: disable=exec-used
      if deco == 'register':
        gin.register(ns[e['name']], module=e['module'])
      elif deco == 'external':
        gin.external_configurable(ns[e['name']], module=e['module'])
      elif e['methods']:
        # a class made configurable in place does not adopt its registered methods (they stay functions of the Python module)
        raise ValueError('not an input of this engine: @gin.configurable class with registered methods')
      else:
        gin.configurable(ns[e['name']], module=e['module'])
      params.append({'full': full, 'arg': 'k', 'scope': e['scope'], 'bound': e['bound'], 'is_method': False,
                     'make': lambda: gin.get_configurable(full), 'call': lambda cls: cls().k})
      for m in e['methods']:
        params.append({'full': full + '.' + m['name'], 'arg': 'p', 'scope': m['scope'], 'bound': m['bound'], 'is_method': True,
                       'cls_scope': e['scope'], 'call': lambda obj, n=m['name']: getattr(obj, n)(),
                       'make': lambda: gin.get_configurable(full)})

    def bind_new(lo):
      for p in params[lo:]:
        if p['bound']:
          p['value'] = new_value()
          gin.bind_parameter((p['scope'] + '/' if p['scope'] else '') + p['full'] + '.' + p['arg'], p['value'])

    try:
      for e in case['entries']:
        if not e['late']:
          define(e)
      bind_new(0)
      n0 = len(params)
      for e in case['entries']:
        if e['late']:
          define(e)
      bind_new(n0)
    except Exception as ex:  # pylint: disable=broad-except
      # a set of definitions Gin refuses (e.g. a clash of names) is not an input of this engine
      return {'obs': C.T('Rejected', '%s: %s' % (type(ex).__name__, str(ex)[:80])), 'fails': [], 'nontrivial': False, 'tags': ['rejected']}
    by_value = {p['value']: p for p in params if p['bound']}
    all_full = [p['full'] for p in params]

    def resolve(key):
      try:
        return ('value', gin.query_parameter(key))
      except Exception as ex:  # pylint: disable=broad-except
        return ('raised', '%s: %s' % (type(ex).__name__, str(ex).split('\n')[0][:150]))

    def check_text(what, text, expected):
      seen = {}
      lines = text.split('\n')
      for ln, line in enumerate(lines):
        if not line or line[0] in '# ' or ' = ' not in line:
          continue
        key, _, lit = line.partition(' = ')
        if lit.strip() == '\\' and ln + 1 < len(lines):
          lit = lines[ln + 1]
        try:
          val = int(lit.strip())
        except ValueError:
          continue
        p = by_value.get(val)
        if p is None:
          continue                                      # a default value of an unbound parameter (operative config)
        scope, _, rest = key.rpartition('/')
        sel, _, arg = rest.rpartition('.')
        got = resolve(key)
        if got != ('value', val):
          fails.append(('reported-name-does-not-resolve-back',
                        '%s reports %r = %d, the binding of %s%s.%s; but query_parameter(%r) gives %r; registered: %r' %
                        (what, key, val, p['scope'] + '/' if p['scope'] else '', p['full'], p['arg'], key, got, sorted(all_full))))
          continue
        if key in seen:
          fails.append(('reported-name-does-not-resolve-back', '%s reports the key %r twice' % (what, key)))
        seen[key] = val
        if sel not in suffixes(p['full']) or scope != p['scope'] or arg != p['arg']:
          fails.append(('reported-name-not-a-suffix', '%s reports %r for %s%s.%s' %
                        (what, key, p['scope'] + '/' if p['scope'] else '', p['full'], p['arg'])))
          continue
        for s in suffixes(p['full']):
          if len(s) < len(sel):
            k2 = (scope + '/' if scope else '') + s + '.' + arg
            if resolve(k2) == ('value', val):
              fails.append(('reported-name-not-minimal', '%s reports %r although the shorter %r resolves to the same parameter '
                            '(query_parameter gives %d); registered: %r' % (what, key, k2, val, sorted(all_full))))
              break
      missing = sorted(set(expected) - set(seen.values()))
      if missing and not fails:
        p = by_value[missing[0]]
        fails.append(('reported-name-does-not-resolve-back', '%s has no line for the binding %s%s.%s = %d:\n%s' %
                      (what, p['scope'] + '/' if p['scope'] else '', p['full'], p['arg'], p['value'], text[-600:])))

    try:
      saved = gin.config_str()
    except Exception as ex:  # pylint: disable=broad-except
      saved = None
      fails.append(('reported-name-does-not-resolve-back', 'config_str() raised %s: %s; registered %r' %
                    (type(ex).__name__, str(ex).split('\n')[0][:200], sorted(all_full))))
    if saved is not None:
      check_text('config_str()', saved, list(by_value))
    # use every bound parameter in its scope, then look at the operative config
    used = []
    for p in params:
      if not p['bound']:
        continue
      try:
        if p['is_method']:
          cls = p['make']()      # looked up outside any scope: a class looked up inside one pins its methods to that scope
          with gin.config_scope(p['cls_scope'] or None):     # the instance is made in the scope the class is configured in
            obj = cls()
          with gin.config_scope(p['scope'] or None):
            got = p['call'](obj)
        else:
          fn = p['make']()
          with gin.config_scope(p['scope'] or None):
            got = p['call'](fn)
      except Exception as ex:  # pylint: disable=broad-except
        got = 'raised %s: %s' % (type(ex).__name__, str(ex).split('\n')[0][:150])
      if got != p['value']:
        fails.append(('binding-not-delivered', '%s%s.%s bound to %d through its complete name; a call in that scope receives %r' %
                      (p['scope'] + '/' if p['scope'] else '', p['full'], p['arg'], p['value'], got)))
      else:
        used.append(p['value'])
    if not fails:
      try:
        check_text('operative_config_str()', gin.operative_config_str(), used)
      except Exception as ex:  # pylint: disable=broad-except
        fails.append(('reported-name-does-not-resolve-back', 'operative_config_str() raised %s: %s; registered %r' %
                      (type(ex).__name__, str(ex).split('\n')[0][:200], sorted(all_full))))
    if saved is not None and not fails:
      # the reported names, read back as a config, address the same parameters
      gin.clear_config()
      try:
        gin.parse_config(saved)
      except Exception as ex:  # pylint: disable=broad-except
        fails.append(('reported-name-does-not-resolve-back', 'the text of config_str() is refused by parse_config: %s: %s\n%s' %
                      (type(ex).__name__, str(ex).split('\n')[0][:200], saved[-600:])))
      else:
        for p in by_value.values():
          key = (p['scope'] + '/' if p['scope'] else '') + p['full'] + '.' + p['arg']
          got = resolve(key)
          if got != ('value', p['value']):
            fails.append(('reported-name-does-not-resolve-back', 'after clear_config + parse_config(config_str()), %r is %r, was %d' %
                          (key, got, p['value'])))
            break
    tails = {}
    for f in all_full:
      tails.setdefault(tuple(f.split('.')[-2:]) if len(f.split('.')) > 1 else (f,), []).append(f)
    shared = any(len(v) > 1 for v in tails.values())
    meth_shared = any(p['is_method'] and len(tails[tuple(p['full'].split('.')[-2:])]) > 1 for p in params)
    return {'obs': C.T('Done'), 'fails': fails[:3], 'nontrivial': shared and len(by_value) >= 2,
            'tags': ['method-class-name-shared' if meth_shared else 'shared-tail' if shared else 'distinct']}


class RegistryMoves(Engine):
  """Gin's registry of configurables is itself a map from dotted names with a history of ADDITIONS AND REMOVALS: a method
  registered with `gin.register` before its class is known as `<module>.<method>` (the Python module of the class, or the
  `module=` given with the registration), and moves to `<class selector>.<method>` when its class is registered
  (`gin.register(cls, module=...)` / `gin.external_configurable`): the provisional name is removed, the final one added.  The
  provisional name can be a proper dotted suffix of another registered name (a function `pkg.<module>.<method>`), the final
  name can be the SAME string as the provisional one (method registered with `module=<class selector>`, which Gin permits),
  and a class registration Gin refuses (method registered under an unrelated module) leaves everything as it was.
  After every step the set of complete names is known from the steps alone (not from Gin's bookkeeping), and the statement
  asks, for every registered entry and every dotted suffix of its complete name:
    * a suffix matching exactly one complete name (or equal to one) resolves to that entry, through every API: a value bound
      through one such spelling (bind_parameter with a string or a tuple key, config text, a finalize hook; with or without a
      scope) is what query_parameter / get_bindings give through every other spelling, what a call in that scope receives
      and what a reference `@spelling` delivers - and the parameters of all OTHER entries keep their values;
    * a suffix matching several complete names is rejected as ambiguous, an extended name matching none as unknown;
    * the names config_str() reports are the shortest such spelling and resolve back.
  (Gin's documented exception: a method is never addressed by its bare name without the class; such spellings are skipped.)
  Implementation only: the Coq model of C08 has no registration of classes and methods."""
  name = 'registry-moves'
  model = False
  PYMODS = ['mod', 'lib.mod', 'Worker']
  FN_NAMES = ['run', 'go', 'Worker', 'Solo']
  CLASSES = ['Worker', 'Solo']
  METHODS = ['run', 'go']
  MODULES = ['pkg', 'lib', 'pkg.lib', 'mod', 'pkg.mod', 'pkg.lib.mod', 'pkg.Worker', 'lib.Solo', 'x.pkg.mod']
  SCOPES = ['', '', 's1', 's1/s2']

  def budget(self, tier):
    return 120 if tier == 'quick' else 4000

  # ---- what the steps mean, from Gin's documentation of register / external_configurable (the independent side)
  class Names:
    def __init__(self, pymod):
      self.pymod = pymod
      self.entries = []       # dict(full, kind 'fn'|'cls'|'meth', arg, cname, mname, explicit, provisional)
      self.classes = {}       # cname -> dict(methods=[entry], registered=bool)

    def names(self):
      return [e['full'] for e in self.entries]

    def add_fn(self, module, name):
      full = module + '.' + name
      if full in self.names():
        return 'clash'
      self.entries.append({'full': full, 'kind': 'fn', 'arg': 'x', 'provisional': False})
      return 'ok'

    def def_cls(self, cname, methods):
      if cname in self.classes:
        return 'clash'
      new = [((ex or self.pymod) + '.' + m) for m, ex in methods]
      if len(set(new)) < len(new) or set(new) & set(self.names()):
        return 'clash'
      ms = []
      for (m, ex), full in zip(methods, new):
        e = {'full': full, 'kind': 'meth', 'arg': 'x', 'cname': cname, 'mname': m, 'explicit': ex, 'provisional': True}
        self.entries.append(e)
        ms.append(e)
      self.classes[cname] = {'methods': ms, 'registered': False}
      return 'ok'

    def reg_cls(self, cname, module):
      """'ok' (returns the moved methods through self.moved), 'refused' (Gin's documented ValueError; nothing changes),
      'clash' (not an input of this engine)"""
      c = self.classes.get(cname)
      if c is None or c['registered']:
        return 'clash'
      sel = module + '.' + cname
      if any(m['explicit'] not in (None, self.pymod, sel) for m in c['methods']):
        return 'refused'
      others = [e['full'] for e in self.entries if e not in c['methods']]
      if sel in others or any(sel + '.' + m['mname'] in others for m in c['methods']):
        return 'clash'
      self.moved = [(m['full'], sel + '.' + m['mname']) for m in c['methods']]
      for m in c['methods']:
        m['full'], m['provisional'] = sel + '.' + m['mname'], False
      self.entries.append({'full': sel, 'kind': 'cls', 'arg': 'k', 'cname': cname, 'provisional': False})
      c['registered'] = True
      return 'ok'

    def spellings(self, e):
      """(the suffixes of e's complete name that have to resolve to e, those that have to be rejected as ambiguous)"""
      names = self.names()
      good, amb = [], []
      for s in suffixes(e['full']):
        m = spec_matches(names, s)
        if m == [e['full']]:
          if e['kind'] == 'meth' and not e['provisional'] and '.' not in s:
            continue            # documented: a method is not addressed without its class
          good.append(s)
        elif len(m) > 1:
          amb.append(s)
      return good, amb

  def corpus(self):
    chk = [['check', ''], ['check', 's1']]
    return [
        # the provisional name of a method ('mod.run') is a proper suffix of a registered function's name; registering the class
        # removes it
        {'pymod': 'mod', 'steps': [['fn', 'pkg.mod', 'run'], ['fn', 'lib', 'go'], ['defcls', 'Worker', [['run', None], ['go', None]]],
                                   chk[0], ['regcls', 'Worker', 'lib', 'register'], chk[0], chk[1]]},
        # two levels: 'lib.mod.run' below 'x.pkg.lib.mod.run'; the function is registered AFTER the method
        {'pymod': 'lib.mod', 'steps': [['defcls', 'Solo', [['run', None]]], ['fn', 'pkg.lib.mod', 'run'], ['fn', 'mod', 'run'], chk[1],
                                       ['regcls', 'Solo', 'pkg', 'external'], chk[0], chk[1]]},
        # a method registered with module=<class selector>: provisional and final name are the same string; its sibling moves
        {'pymod': 'mod', 'steps': [['defcls', 'Worker', [['run', 'pkg.Worker'], ['go', None]]], ['defcls', 'Solo', [['run', 'lib.Solo']]],
                                   chk[0], ['regcls', 'Worker', 'pkg', 'register'], chk[0], ['fn', 'lib', 'run'],
                                   ['regcls', 'Solo', 'lib', 'external'], chk[1], chk[0]]},
        # a refused class registration (method registered under an unrelated module) changes nothing
        {'pymod': 'mod', 'steps': [['fn', 'pkg.mod', 'go'], ['defcls', 'Worker', [['run', 'other.place'], ['go', None]]], chk[0],
                                   ['regcls', 'Worker', 'lib', 'register'], chk[0], chk[1]]},
    ]

  def gen(self, rng, tier):
    pymod = rng.choice(self.PYMODS)
    nm = self.Names(pymod)
    planned = {}
    steps = []
    fn_modules = self.MODULES + [pymod, 'pkg.' + pymod, 'x.pkg.' + pymod]

    def maybe_check():
      if rng.random() < 0.7:
        steps.append(['check', rng.choice(self.SCOPES)])

    for _ in range(rng.randint(2, 7)):
      r = rng.random()
      undef = [c for c in self.CLASSES if c not in nm.classes]
      unreg = [c for c, d in nm.classes.items() if not d['registered']]
      if r < 0.35 or (not undef and not unreg):
        # a function; often one whose name extends the provisional name of a method
        module, name = rng.choice(fn_modules), rng.choice(self.FN_NAMES)
        if rng.random() < 0.5:
          module, name = rng.choice(['pkg.', 'x.pkg.', 'lib.', '']) + pymod, rng.choice(self.METHODS)
        if nm.add_fn(module, name) == 'ok':
          steps.append(['fn', module, name])
          maybe_check()
      elif undef and (r < 0.65 or not unreg):
        cname = rng.choice(undef)
        planned[cname] = rng.choice(self.MODULES[:6])
        methods = []
        for m in rng.sample(self.METHODS, rng.choice([1, 1, 2])):
          x = rng.random()
          methods.append([m, None if x < 0.55 else planned[cname] + '.' + cname if x < 0.9 else
                          rng.choice(['other.place', 'pkg', cname])])
        if nm.def_cls(cname, [tuple(m) for m in methods]) == 'ok':
          steps.append(['defcls', cname, methods])
          maybe_check()
      else:
        cname = rng.choice(unreg)
        module = planned[cname] if rng.random() < 0.85 else rng.choice(self.MODULES)
        if nm.reg_cls(cname, module) in ('ok', 'refused'):
          steps.append(['regcls', cname, module, rng.choice(['register', 'register', 'external'])])
          steps.append(['check', rng.choice(self.SCOPES)])
    for cname, d in list(nm.classes.items()):
      if not d['registered'] and rng.random() < 0.7 and nm.reg_cls(cname, planned[cname]) in ('ok', 'refused'):
        steps.append(['regcls', cname, planned[cname], 'register'])
        maybe_check()
    steps.append(['check', rng.choice(self.SCOPES)])
    return {'pymod': pymod, 'steps': steps}

  def shrink(self, case):
    st = case['steps']
    for i in range(len(st)):
      yield dict(case, steps=st[:i] + st[i + 1:])
    for i, step in enumerate(st):
      if step[0] == 'defcls':
        for j, (m, ex) in enumerate(step[2]):
          if len(step[2]) > 1:
            yield dict(case, steps=st[:i] + [['defcls', step[1], step[2][:j] + step[2][j + 1:]]] + st[i + 1:])
          if ex is not None:
            yield dict(case, steps=st[:i] + [['defcls', step[1], step[2][:j] + [[m, None]] + step[2][j + 1:]]] + st[i + 1:])
      if step[0] == 'check' and step[1]:
        yield dict(case, steps=st[:i] + [['check', '']] + st[i + 1:])

  def impl(self, case):
    gin = C.fresh_gin()
    fails, tags = [], set()
    nm = self.Names(case['pymod'])
    pyobj = {}          # cname -> the Python class
    last = {}           # (complete name at the time, scope) -> value bound last
    by_value = {}
    counter = [100]
    moved_any = [False]
    rounds = [0]

    def holder(value=None):
      return value
    gin.external_configurable(holder, name='c08holder', module='c08m')

    def outcome(fn):
      try:
        return ('ok', fn())
      except Exception as ex:  # pylint: disable=broad-except
        return ('raised', '%s: %s' % (type(ex).__name__, str(ex).split('\n')[0][:160]))

    def fail(kind, text):
      if len(fails) < 6:
        fails.append((kind, text + '; registered names (from the steps): %r' % sorted(nm.names())))

    def deliver(e, configurable_, scope):
      """what a call of entry `e` receives for its parameter, `configurable_` being what Gin handed out for it"""
      if e['kind'] == 'fn':
        with gin.config_scope(scope or None):
          return configurable_()
      if e['kind'] == 'cls':
        with gin.config_scope(scope or None):
          return configurable_().k
      if e['provisional']:
        with gin.config_scope(scope or None):
          return configurable_(None)
      cls_full = e['full'].rsplit('.', 1)[0]
      obj = gin.get_configurable(cls_full)()            # made outside the scope
      with gin.config_scope(scope or None):
        return configurable_(obj)

    def deliver_obj(e, scope):
      """the method called on an instance of the registered class"""
      cls_full = e['full'].rsplit('.', 1)[0]
      obj = gin.get_configurable(cls_full)()
      with gin.config_scope(scope or None):
        return getattr(obj, e['mname'])()

    def unlock():
      gin.config._set_config_is_locked(False)  # pylint: disable=protected-access

    def write(api, key_str, scope, sel, arg, v):
      if api == 'bind':
        return outcome(lambda: gin.bind_parameter(key_str, v))
      if api == 'tuple':
        return outcome(lambda: gin.bind_parameter((scope, sel, arg), v))
      if api == 'text':
        return outcome(lambda: gin.parse_config('%s = %d\n' % (key_str, v)))
      saved = list(gin.config._FINALIZE_HOOKS)  # pylint: disable=protected-access
      gin.config.register_finalize_hook(lambda config: {key_str: v})
      try:
        return outcome(gin.finalize)
      finally:
        gin.config._FINALIZE_HOOKS[:] = saved  # pylint: disable=protected-access
        unlock()

    APIS = ['bind', 'text', 'tuple', 'hook']

    def check(scope):
      rounds[0] += 1
      pre = scope + '/' if scope else ''
      for e in list(nm.entries):
        good, amb = nm.spellings(e)
        arg = e['arg']
        what = '%s %r' % ({'fn': 'function', 'cls': 'class', 'meth': 'method'}[e['kind']], e['full'])
        if len(good) >= 2:
          tags.add('several-spellings')
        for s in good:
          counter[0] += 1
          v = counter[0]
          api = APIS[counter[0] % len(APIS)]
          res = write(api, pre + s + '.' + arg, scope, s, arg, v)
          if res[0] != 'ok':
            fail('spelling-does-not-resolve', '%s: %r is a suffix of its complete name matching no other entry, but binding '
                 '%r (%s) gives %r' % (what, s, pre + s + '.' + arg, api, res))
            continue
          last[(e['full'], scope)] = v
          by_value[v] = (e, scope)
          for t in good:
            reads = [('query_parameter(%r)' % (pre + t + '.' + arg), outcome(lambda: gin.query_parameter(pre + t + '.' + arg))),
                     ('get_bindings(%r).get(%r)' % (pre + t, arg), outcome(lambda: gin.get_bindings(pre + t).get(arg))),
                     ('a call of get_configurable(%r)' % t, outcome(lambda: deliver(e, gin.get_configurable(t), scope)))]
            ref = outcome(lambda: gin.parse_config('c08m.c08holder.value = @%s\n' % (pre + t)))
            if ref[0] == 'ok':
              # a scoped reference applies its scope itself
              ref = outcome(lambda: deliver(e, gin.get_configurable('c08m.c08holder')(), ''))
              reads.append(('a call through the reference @%s' % (pre + t), ref))
            else:
              reads.append(('the reference @%s' % (pre + t), ref))
            outcome(lambda: gin.bind_parameter('c08m.c08holder.value', None))
            for how, got in reads:
              if got != ('ok', v):
                fail('spelling-dependent-key', '%s: %s.%s bound to %d through the spelling %r (%s); %s gives %r' %
                     (what, pre + e['full'], arg, v, s, api, how, got))
          if e['kind'] == 'meth' and not e['provisional']:
            got = outcome(lambda: deliver_obj(e, scope))
            if got != ('ok', v):
              fail('binding-not-delivered', '%s: %s.%s bound to %d through the spelling %r (%s); the method called on an instance '
                   'of the registered class receives %r' % (what, pre + e['full'], arg, v, s, api, got))
          # every other parameter keeps its value
          for (full2, sc2), v2 in list(last.items()):
            if full2 != e['full'] or sc2 != scope:
              e2 = [x for x in nm.entries if x['full'] == full2]
              if not e2:
                continue
              key2 = (sc2 + '/' if sc2 else '') + full2 + '.' + e2[0]['arg']
              got = outcome(lambda: gin.query_parameter(key2))
              if got != ('ok', v2):
                fail('other-entry-changed', 'binding %r (%s) changed another parameter: query_parameter(%r) gives %r, was %d' %
                     (pre + s + '.' + arg, what, key2, got, v2))
        for s in amb:
          for how, got in (('bind_parameter', outcome(lambda: gin.bind_parameter(pre + s + '.' + arg, 1))),
                           ('query_parameter', outcome(lambda: gin.query_parameter(pre + s + '.' + arg)))):
            if got[0] != 'raised' or 'mbiguous' not in got[1]:
              fail('ambiguous-name-accepted', '%s(%r): %r matches several registered names and gives %r' %
                   (how, pre + s + '.' + arg, s, got))
        got = outcome(lambda: gin.query_parameter(pre + 'zz.' + e['full'] + '.' + arg))
        if got[0] != 'raised' or 'mbiguous' in got[1]:
          fail('unknown-name-accepted', 'query_parameter(%r) gives %r' % (pre + 'zz.' + e['full'] + '.' + arg, got))
      # reported names
      text = outcome(gin.config_str)
      if text[0] != 'ok':
        fail('reported-name-does-not-resolve-back', 'config_str() gives %r' % (text,))
        return
      lines = text[1].split('\n')
      seen = set()
      for ln, line in enumerate(lines):
        if not line or line[0] in '# ' or ' = ' not in line:
          continue
        key, _, lit = line.partition(' = ')
        if lit.strip() == '\\' and ln + 1 < len(lines):
          lit = lines[ln + 1]
        try:
          val = int(lit.strip())
        except ValueError:
          continue
        if val not in by_value:
          continue
        e, sc = by_value[val]
        if last.get((e['full'], sc)) != val:
          fail('reported-name-does-not-resolve-back', 'config_str() reports %r = %d, a value that was overwritten' % (key, val))
          continue
        seen.add(val)
        scope_, _, rest = key.rpartition('/')
        sel, _, arg = rest.rpartition('.')
        good, _ = nm.spellings(e)
        got = outcome(lambda: gin.query_parameter(key))
        if got != ('ok', val) or scope_ != sc or arg != e['arg'] or sel not in good:
          fail('reported-name-does-not-resolve-back', 'config_str() reports %r = %d, the binding of %s%s.%s; query_parameter(%r) gives %r' %
               (key, val, sc + '/' if sc else '', e['full'], e['arg'], key, got))
        elif good and len(sel) > min(len(g) for g in good):
          fail('reported-name-not-minimal', 'config_str() reports %r for %s although the shorter %r resolves to it' %
               (key, e['full'], min(good, key=len)))
      missing = sorted(v for (full, sc), v in last.items() if v not in seen and any(x['full'] == full for x in nm.entries))
      if missing:
        e, sc = by_value[missing[0]]
        fail('reported-name-does-not-resolve-back', 'config_str() has no line for the binding %s%s.%s = %d:\n%s' %
             (sc + '/' if sc else '', e['full'], e['arg'], missing[0], text[1][-500:]))

    for step in case['steps']:
      if fails:
        break
      kind = step[0]
      if kind == 'fn':
        if nm.add_fn(step[1], step[2]) != 'ok':
          continue
        ns = {'gin': gin, '__name__': case['pymod']}
        exec('def %s(x=0):\n  return x\n' % step[2], ns)      # pylint: disable=exec-used
        res = outcome(lambda: gin.external_configurable(ns[step[2]], name=step[2], module=step[1]))
        if res[0] != 'ok':
          fail('registration-refused', 'registering the function %s.%s gives %r' % (step[1], step[2], res))
      elif kind == 'defcls':
        if nm.def_cls(step[1], [tuple(m) for m in step[2]]) != 'ok':
          continue
        src = 'class %s:\n  def __init__(self, k=0):\n    self.k = k\n' % step[1]
        for m, ex in step[2]:
          src += '  @gin.register%s\n  def %s(self, x=0):\n    return x\n' % ('(module=%r)' % ex if ex else '', m)
        ns = {'gin': gin, '__name__': case['pymod']}
        res = outcome(lambda: exec(src, ns))                     # pylint: disable=exec-used
        if res[0] != 'ok':
          fail('registration-refused', 'defining class %s with registered methods %r gives %r' % (step[1], step[2], res))
        pyobj[step[1]] = ns.get(step[1])
      elif kind == 'regcls':
        before = sorted(nm.names())
        want = nm.reg_cls(step[1], step[2])
        if want == 'clash':
          continue
        fn = gin.register if step[3] == 'register' else gin.external_configurable
        res = outcome(lambda: fn(pyobj[step[1]], module=step[2]))
        if want == 'refused':
          tags.add('refused-class-registration')
          if res[0] == 'ok':
            tags.add('refusal-not-applied')
            break                       # not what the documentation says; the names are then not known from the steps
          continue
        if res[0] != 'ok':
          fail('registration-refused', 'registering class %s under module %r gives %r' % (step[1], step[2], res))
          break
        moved_any[0] = True
        for old, new in nm.moved:
          if old == new:
            tags.add('moved-to-the-same-name')
          elif any(n.endswith('.' + old) for n in before):
            tags.add('removed-name-is-suffix-of-another')
          for sc in ('', 's1', 's1/s2'):       # the parameter has a new complete name
            if (old, sc) in last:
              v = last.pop((old, sc))
              by_value.pop(v, None)
      elif kind == 'check':
        check(step[1])
    uniq, seen_f = [], set()
    for f in fails:
      if f not in seen_f:
        seen_f.add(f)
        uniq.append(f)
    return {'obs': C.T('Done'), 'fails': uniq[:3],
            'nontrivial': moved_any[0] and 'several-spellings' in tags and rounds[0] > 0,
            'tags': sorted(tags) or ['plain']}


ENGINES = [SelMap(), Spelling(), MacroSpelling(), ReportedNames(), RegistryMoves()]
