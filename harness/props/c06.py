"""C06 — the config string round-trips, is canonical and always parses."""
import ast
import decimal
import enum
import fractions
import math
import pprint
import sys
import types

from harness import common as C
from harness import ginm
from harness import parsing as P
from harness.common import T
from harness.main import Engine

PID = 'C06'
LEVEL = 'proof'
RULE = ('serial: stores built by parsing AND by programmatic binding (nested values, strings up to 200 chars with '
        'blanks / quotes / newlines / non-ASCII, references, macros, scoped and module-qualified names incl. selectors '
        'differing only in letter case, opaque objects, objects whose repr parses to something unequal, macros bound '
        'to non-literals, values WITHOUT a literal form that compare equal to / hash like a bound literal of another type '
        '(IntEnum / StrEnum members, Decimal, Fraction, complex, str / int / float subclasses with their own repr, tuples of '
        'those) bound before and after the literal, with config_str() calls in between; bindings of Gin\'s own ordinary configurable '
        'gin.singleton (key/gin.singleton.constructor = @fn, any scope incl. the root, parsed and programmatic, literal and '
        'non-literal constructors, referenced as @key/gin.singleton()) next to user configurables named singleton / macro / '
        'constant or living in a module called gin), recorded imports in all forms with colliding bound names, max_line_length in '
        '{indent+1 .. 120}, continuation_indent in {0,2,4,8}. Independent predicates: the text parses in a fresh gin; '
        're-parsing restores every representable binding (equal value, same type) and re-serialising gives the '
        'identical text; every bound value of a builtin literal type (type-exact, at every depth) is restored with the same '
        'type, every value whose repr is not a literal is absent from the re-parsed store, nothing else is restored; '
        'a permutation of the binding order gives the identical text; parameters are sorted; the '
        'Markdown rendering keeps every binding line verbatim. non-trivial = a value that wraps onto continuation lines, '
        'or a scoped module-qualified key together with >= 1 omitted value.')
TRUSTED_BASE = [
    'Coq 8.16.1 kernel; vm_compute in the correspondence run; no native_compute',
    'hand-written models of CPython pieces, each compared with CPython 3.12.1 text for text on every run (engine modelled-texts): coq/Model/StrLit.v (repr of str / bytes / int, literal_eval of one literal text), coq/Model/PPrint.v and PPrintStr.v (pprint.pformat for list / tuple / dict trees incl. the splitting of long strings; _pprint_bytes NOT modelled), coq/Model/Lexer.v (the tokenizer, 7-bit printable ASCII)',
    'hand-written models coq/Model/ConfigText.v, ConfigTextImports.v, ConfigTextStr.v of the WHOLE text of config_str() (static registration), compared with gin.config_str() of /repo character for character on generated stores on every run; Props/ConfigText*.v prove read-back from characters for these models',
    'atom oracle: floats / complex and, for split strings, the hypothesis oracle_agrees_with_decode (validated against ast.literal_eval by harness/pprintm/pprint_str_corr.py)',
    'hand-written model coq/Model/Serial.v of gin/config.py:1980-2063,2102-2223,2886-2922 and config_parser.py:86-117 (line structure: imports, macro section, sections, sorting, wrapping decision, markdown); tied to /repo by harness/props/c06.py',
    'NOT modelled: pprint.pformat and repr (value -> text) and the representability test: the harness measures them per value with the real functions and hands them to the model as an oracle; where the type structure of the value decides representability (builtin literal types at every depth, references; repr that is no Python literal) the oracle is that independent verdict (lit_class), not the answer of gin._is_literally_representable',
]
ASSUMPTIONS = ['character-level theorems: static registration, ASCII, values without references / macros; dynamic registration is covered at line level (engine config-str-dynamic, C19)', 'ASCII selectors']

SELS = ['m.f', 'n.g', 'pkg.sub.h', 'k', 'n.sub.h', 'm.Foo', 'm.foo']
MODS = ['alpha', 'beta.gamma', 'pkg.sub', 'zeta', 'other.alpha', 'Zed', 'Zed.sub', '_under']
# classes with registered methods: two same-named classes in different modules sharing a method name, one unique
CLASSES = [['cluster.local', 'Worker', ['run']], ['cluster.remote', 'Worker', ['run', 'stop']], ['m', 'Solo', ['go']]]
# Gin registers three configurables of its own under the module `gin`: gin.macro (a scoped binding of it is a macro, shown in
# the "Macros" block), gin.constant (never bound) and gin.singleton, an ORDINARY configurable whose binding
# `key/gin.singleton.constructor = @fn` declares a shared object and must survive the round trip like any other binding.
# User configurables may share the helpers' names, or the module name, without being any of them.
GIN_OWN = 'gin.singleton'
HELPER_SELS = ['lib.singleton', 'lib.macro', 'lib.constant', 'gin.extra', 'ginx.singleton']
SINGLETON_KEYS = ['shared', 'other/sub', 's1', 's1/s2', 'mm', '', '']


def class_sels(classes):
  out = []
  for module, name, methods in classes:
    out.append(module + '.' + name)
    out += [module + '.' + name + '.' + m for m in methods]
  return out


def method_sels(classes):
  return [module + '.' + name + '.' + m for module, name, methods in classes for m in methods]


class BadRepr:
  """repr parses, but to something unequal"""

  def __repr__(self):
    return '5'


class EqualBadRepr:
  """equal to (and hashing like) an int, repr parses -- to another int"""

  def __init__(self, n):
    self.n = n

  def __eq__(self, other):
    return type(other) in (int, EqualBadRepr) and int(getattr(other, 'n', other)) == self.n

  def __ne__(self, other):
    return not self == other

  def __hash__(self):
    return hash(self.n)

  def __repr__(self):
    return repr(self.n + 1)


class TaggedStr(str):
  def __repr__(self):
    return '<TaggedStr %s>' % str.__repr__(self)


class Level(int):
  def __repr__(self):
    return 'Level(%s)' % int.__repr__(self)


class Ratio(float):
  def __repr__(self):
    return 'Ratio(%s)' % float.__repr__(self)


class Steps(int):
  """inherits int's repr: the text of Steps(3) is the int literal 3"""


class Name(str):
  """inherits str's repr"""


class Share(float):
  """inherits float's repr"""


_ENUMS = {}


def twin(kind, base):
  """a value WITHOUT a literal form that compares equal to, and hashes like, the literal `base`"""
  if kind == 'intenum':
    n = int(base)
    if ('i', n) not in _ENUMS:
      _ENUMS[('i', n)] = enum.IntEnum('Mode', {'FAST': n})
    return _ENUMS[('i', n)].FAST
  if kind == 'strenum':
    if ('s', base) not in _ENUMS:
      _ENUMS[('s', base)] = enum.StrEnum('Color', {'RED': base})
    return _ENUMS[('s', base)].RED
  if kind == 'decimal':
    return decimal.Decimal(base)            # exact for bool / int / float
  if kind == 'fraction':
    return fractions.Fraction(base)
  if kind == 'complex':
    return complex(base)
  if kind == 'strsub':
    return TaggedStr(base)
  if kind == 'intsub':
    return Level(base)
  if kind == 'floatsub':
    return Ratio(base)
  if kind == 'eqbad':
    return EqualBadRepr(int(base))
  if kind == 'intplain':       # subclasses that INHERIT the base repr: their text is the base literal
    return Steps(base)
  if kind == 'strplain':
    return Name(base)
  if kind == 'floatplain':
    return Share(base)
  raise ValueError(kind)


def twin_kinds(base):
  t = base[0]
  if t == 'i':
    return ['intenum', 'decimal', 'fraction', 'intsub', 'eqbad', 'intplain'] + (['complex'] if base[1] else [])
  if t == 'b':
    return ['intenum', 'decimal', 'fraction'] + (['complex'] if base[1] else [])
  if t == 'float':
    return ['decimal', 'fraction', 'floatsub', 'floatplain'] + (['complex'] if float(base[1]) else [])
  return ['strenum', 'strsub', 'strplain']


def equal_literals(base):
  """literal values (possibly of other builtin types) equal to the literal `base`"""
  t = base[0]
  if t == 'i':
    return [base, ['float', repr(float(base[1]))]] + ([['b', bool(base[1])]] if base[1] in (0, 1) else [])
  if t == 'b':
    return [base, ['i', int(base[1])]]
  if t == 'float':
    return [base] + ([['i', int(float(base[1]))]] if float(base[1]).is_integer() else [])
  return [base]


TWIN_BASES = [['i', 0], ['i', 1], ['i', 1], ['i', 2], ['i', -3], ['i', 7], ['b', True], ['b', False], ['float', '1.5'], ['float', '2.0'],
              ['float', '-0.25'], ['s', 'x'], ['s', 'y'], ['s', '']]


def gen_twin(rng, base=None):
  base = base or rng.choice(TWIN_BASES)
  return ['eqv', rng.choice(twin_kinds(base)), base]


def lit_class(v, cfg):
  """Independent of gin's representability test.  True: the value is built from the builtin literal types only (type-exact,
  at every depth; references have the literal form @name / %name): it HAS a literal form.  False: some component is a
  non-finite float or an object whose repr is no Python literal: NO literal form.  None: undecided here (complex; an object
  whose repr happens to be a literal)."""
  ty = type(v)
  if ty in (int, bool, str, bytes, type(None)):
    return True
  if ty is float:
    return math.isfinite(v)
  if ty is cfg.ConfigurableReference:
    return True
  if ty in (list, tuple):
    items = list(v)
  elif ty is dict:
    items = list(v.keys()) + list(v.values())
  else:
    if ty is complex:
      return None
    try:
      ast.literal_eval(repr(v))
    except Exception:  # pylint: disable=broad-except
      return False
    return None
  cs = [lit_class(x, cfg) for x in items]
  if any(c is False for c in cs):
    return False
  return True if all(c is True for c in cs) else None


def gen_value(rng, regs, depth=2):
  if depth > 0 and rng.random() < 0.025:
    return gen_twin(rng)
  r = rng.random()
  if r < 0.35 or depth == 0:
    return ginm.gen_plain(rng, 1)
  if r < 0.45:
    return ['s', rng.choice(['a b', "it's", 'q"uote', 'line\nbreak', 'café', 'x' * rng.choice([30, 90, 200]), '#notcomment', ''])]
  if r < 0.55:
    return ['l', [['i', rng.randint(0, 10 ** 6)] for _ in range(rng.choice([3, 12, 40]))]]
  if r < 0.63:
    return ['d', [[['s', 'key%d' % i], gen_value(rng, regs, depth - 1)] for i in range(rng.randint(1, 4))]]
  if r < 0.73:
    return ['ref', rng.choice([[], [], ['s1'], ['s1', 's2']]), rng.choice(regs)['sel'], rng.random() < 0.5]
  if r < 0.8:
    return ['macro', rng.choice(['mm', 'nn'])]
  if r < 0.84:
    return ['float', rng.choice(['inf', '-inf', 'nan', '1.5', '1e+30', '-0.0'])]
  if r < 0.88:
    return ['obj', 'o1']
  if r < 0.93:
    return ['badrepr']
  return ['t', [gen_value(rng, regs, depth - 1) for _ in range(rng.randint(1, 3))]]


def textable(v):
  t = v[0]
  if t in ('obj', 'badrepr', 'float', 'eqv'):
    return False
  if t in ('l', 't'):
    return all(textable(x) for x in v[1])
  if t == 'd':
    return all(textable(k) and textable(x) for k, x in v[1])
  return True


class Builder:
  def __init__(self, case):
    self.case = case
    self.gin = C.fresh_gin()
    self.mods = []
    gin = self.gin
    for m in case['modules']:
      parts = m.split('.')
      for i in range(1, len(parts) + 1):
        n = '.'.join(parts[:i])
        if n not in sys.modules:
          mod = types.ModuleType(n)
          mod.__path__ = []
          sys.modules[n] = mod
          self.mods.append(n)
    for sel in case['sels']:
      name = sel.split('.')[-1]
      env = {}
      exec('def %s(a=None, b=None, c=None, **kw):\n  return None\n' % name, env)  # pylint: disable=exec-used
      fn = env[name]
      fn.__module__ = None
      gin.configurable(name, module='.'.join(sel.split('.')[:-1]) or None)(fn)
    for i, (module, name, methods) in enumerate(case.get('classes', [])):
      src = 'class %s:\n  def __init__(self, a=None, b=None, c=None, **kw):\n    pass\n' % name
      for m in methods:
        src += '  @gin.register\n  def %s(self, a=None, b=None, c=None, **kw):\n    return None\n' % m
      env = {'gin': gin, '__name__': 'c06cls%d' % i}
      exec(src, env)  # pylint: disable=exec-used
      gin.register(name, module=module)(env[name])

  def close(self):
    for n in self.mods:
      sys.modules.pop(n, None)

  def value(self, v):
    t = v[0]
    if t == 'badrepr':
      return BadRepr()
    if t == 'float':
      return float(v[1])
    if t == 'eqv':
      return twin(v[1], self.value(v[2]))
    if t == 'obj':
      return ginm.Opaque(v[1])
    if t in ('ref', 'macro'):
      return self.gin.config.parse_value(ginm.val_text(v))
    if t == 'l':
      return [self.value(x) for x in v[1]]
    if t == 't':
      return tuple(self.value(x) for x in v[1])
    if t == 'd':
      return {self.value(k): self.value(x) for k, x in v[1]}
    if t == 'n':
      return None
    return v[1]

  def apply(self, ops):
    gin = self.gin
    for op in ops:
      k = op[0]
      if k == 'import':
        gin.parse_config(op[1])
      elif k == 'pbind':
        gin.parse_config('%s = %s' % (op[1], ginm.val_text(op[2])))
      elif k == 'bind':
        gin.bind_parameter(op[1], self.value(op[2]))
      elif k == 'cstr':      # the configuration is serialised while it is being built (result not used)
        gin.config_str(self.case['maxlen'], self.case['indent'])

  def text(self):
    return self.gin.config_str(self.case['maxlen'], self.case['indent'])

  def store(self):
    cfg = self.gin.config
    out = {}
    for (s, q), d in cfg._CONFIG.items():  # pylint: disable=protected-access
      for p, v in d.items():
        out[(s, q, p)] = v
    return out

  def canon(self, v):
    cfg = self.gin.config
    if isinstance(v, cfg.ConfigurableReference):
      return T('Ref', list(v.scopes), v.configurable.selector, bool(v.evaluate))
    if isinstance(v, list):
      return T('L', *[self.canon(x) for x in v])
    if isinstance(v, tuple):
      return T('T', *[self.canon(x) for x in v])
    if isinstance(v, dict):
      return T('D', *sorted(([self.canon(k), self.canon(x)] for k, x in v.items()), key=repr))
    if type(v) not in (int, bool, float, complex, str, bytes, type(None)):
      return T('py', type(v).__name__, repr(v))      # type-exact: an IntEnum member / Decimal / str subclass is not an int / str
    return P.canon_lit(v)


class SerialEngine(Engine):
  name = 'serial'
  imports = 'Model.SelectorMap Model.Serial'
  run_fn = 'Serial.run'

  def budget(self, tier):
    return 500 if tier == 'quick' else 15000

  def corpus(self):
    base = {'sels': ['m.f', 'n.g', 'm.Foo', 'm.foo'], 'modules': MODS, 'maxlen': 80, 'indent': 4}
    return [
        dict(base, ops=[['bind', 'mm/gin.macro.value', ['obj', 'o1']], ['bind', 'f.a', ['i', 3]]]),           # F17
        dict(base, ops=[['bind', 'gin.macro.value', ['i', 5]], ['pbind', 'mm', ['i', 1]], ['bind', 'f.a', ['i', 3]]]),   # F58
        dict(base, ops=[['bind', 'Foo.a', ['i', 1]], ['bind', 'foo.a', ['i', 2]]]),                          # F14
        dict(base, classes=CLASSES, ops=[['bind', 'cluster.local.Worker.run.a', ['i', 1]], ['pbind', 'remote.Worker.run.a', ['i', 2]],
                                         ['bind', 'Worker.stop.b', ['i', 2]], ['pbind', 'Solo.go.b', ['i', 3]], ['bind', 'Solo.a', ['i', 3]],
                                         ['bind', 's1/local.Worker.b', ['i', 4]]]),
        dict(base, ops=[['import', 'import alpha'], ['import', 'from other import alpha'], ['import', 'import beta.gamma as bg'],
                        ['import', 'from pkg import sub'], ['pbind', 's1/s2/f.a', ['l', [['i', i] for i in range(40)]]],
                        ['pbind', 'mm', ['s', 'v']], ['pbind', 'g.b', ['macro', 'mm']], ['bind', 'g.c', ['badrepr']],
                        ['pbind', 'n.g.a', ['ref', ['s1'], 'f', True]]], maxlen=30, indent=8),
        # values without a literal form that are == / hash-equal to a bound literal of another type (C06-m9), both orders
        dict(base, ops=[['bind', 'f.a', ['i', 1]], ['bind', 'f.b', ['eqv', 'intenum', ['i', 1]]], ['bind', 'g.a', ['eqv', 'decimal', ['i', 2]]],
                        ['bind', 'g.b', ['i', 2]], ['bind', 'g.c', ['b', True]]]),
        dict(base, ops=[['bind', 'f.a', ['eqv', 'strenum', ['s', 'x']]], ['bind', 'f.c', ['eqv', 'fraction', ['float', '1.5']]], ['cstr'],
                        ['pbind', 'f.b', ['s', 'x']], ['bind', 'g.a', ['float', '1.5']], ['cstr'], ['bind', 'Foo.a', ['b', True]]]),
        dict(base, ops=[['pbind', 'f.a', ['t', [['i', 1], ['s', 'y']]]], ['cstr'],
                        ['bind', 'g.a', ['t', [['eqv', 'intenum', ['b', True]], ['eqv', 'strsub', ['s', 'y']]]]],
                        ['bind', 'g.b', ['t', [['b', True], ['s', 'y']]]], ['bind', 'foo.a', ['eqv', 'eqbad', ['i', 7]]], ['bind', 'foo.b', ['i', 7]],
                        ['bind', 'Foo.c', ['eqv', 'floatsub', ['float', '2.0']]], ['bind', 'Foo.b', ['i', 2]]], maxlen=40),
        # subclasses of int / str / float that inherit the base repr (their text is the base literal), alone and inside containers
        dict(base, ops=[['bind', 'f.a', ['eqv', 'intplain', ['i', 3]]], ['bind', 'f.b', ['i', 3]], ['bind', 'g.a', ['eqv', 'strplain', ['s', 'run']]],
                        ['bind', 'g.b', ['l', [['eqv', 'floatplain', ['float', '1.5']], ['i', 1]]]],
                        ['bind', 'g.c', ['d', [[['eqv', 'strplain', ['s', 'k']], ['i', 1]]]]], ['bind', 'g.zeta', ['i', 1]]]),
        # Gin's own ordinary configurable gin.singleton: its bindings are part of the configuration (C06-m11)
        dict(base, ops=[['pbind', 'LIMIT', ['i', 3]], ['pbind', 'shared/gin.singleton.constructor', ['ref', [], 'f', False]],
                        ['pbind', 'other/sub/gin.singleton.constructor', ['ref', [], 'n.g', False]], ['pbind', 'f.a', ['s', 'x']],
                        ['pbind', 'g.a', ['ref', ['shared'], 'gin.singleton', True]],
                        ['pbind', 'g.b', ['l', [['ref', ['shared'], 'gin.singleton', True], ['ref', ['other', 'sub'], 'gin.singleton', True],
                                                ['macro', 'LIMIT']]]]]),
        dict(base, sels=base['sels'] + ['lib.singleton', 'lib.macro', 'gin.extra'],
             ops=[['bind', 'gin.singleton.constructor', ['ref', [], 'm.f', False]], ['bind', 's1/lib.singleton.a', ['ref', [], 'gin.singleton', True]],
                  ['pbind', 's1/s2/gin.singleton.constructor', ['ref', ['s1'], 'lib.singleton', False]], ['pbind', 'mm', ['i', 1]],
                  ['pbind', 'lib.macro.a', ['l', [['macro', 'mm'], ['ref', ['s1', 's2'], 'gin.singleton', True]]]], ['pbind', 's1/extra.b', ['i', 3]],
                  ['bind', 'mm/gin.singleton.constructor', ['ref', [], 'lib.macro', False]], ['bind', 's1/gin.singleton.constructor', ['obj', 'o1']]],
             maxlen=30, indent=2),
    ]

  def gen(self, rng, tier):
    sels = rng.sample(SELS, rng.randint(1, 4))
    classes = rng.sample(CLASSES, rng.choice([0, 0, 1, 2, 3]))
    regs = [{'sel': s} for s in sels + class_sels(classes)]
    meths = set(method_sels(classes))
    ops = []
    used = set()
    for _ in range(rng.randint(0, 3)):
      m = rng.choice(MODS)
      form = rng.random()
      is_from = form >= 0.6 and '.' in m
      # the same module may be imported several times, also in the same form under different aliases (the header
      # must not depend on which of them the set _IMPORTS happens to yield first)
      if form < 0.4:
        ops.append(['import', 'import ' + m])
      elif form < 0.6:
        ops.append(['import', 'import %s as %s' % (m, rng.choice(['al', 'alpha', 'x']))])
      elif '.' in m:
        a, _, b = m.rpartition('.')
        ops.append(['import', 'from %s import %s' % (a, b) + (' as ' + rng.choice(['al', 'alpha']) if rng.random() < 0.3 else '')])
    seen = set()

    def gen_key():
      sel = rng.choice(sels + class_sels(classes) * 2)
      sp = rng.choice([x for x in ginm.spellings(sel, regs) if sel not in meths or '.' in x])   # methods need Class.method
      sc = '/'.join(ginm.gen_scope(rng, 2))
      p = rng.choice(['a', 'b', 'c', 'zeta', 'Alpha'])
      return (sc + '/' if sc else '') + sp + '.' + p

    def bind_op(key, v):
      return ['pbind' if (textable(v) and rng.random() < 0.5) else 'bind', key, v]
    for _ in range(rng.randint(1, 8)):
      ops.append(bind_op(gen_key(), gen_value(rng, regs)))
    if rng.random() < 0.3:
      # a family of values that are == and hash-equal but differ in type: literals (int / bool / float / str) and twins
      # without a literal form, bound to different parameters in any order, the configuration being serialised in between
      tbase = rng.choice(TWIN_BASES)
      vals = [rng.choice(equal_literals(tbase)) for _ in range(rng.choice([1, 1, 2]))] + [gen_twin(rng, tbase) for _ in range(rng.choice([1, 1, 2]))]
      if rng.random() < 0.3:
        tail = [gen_value(rng, regs, 0) for _ in range(rng.randint(0, 2))]
        vals = [['t', [v] + tail] for v in vals]
      rng.shuffle(vals)
      group = []
      # mostly inside one section (a section that keeps a literal is not the '# None.' section of F18)
      sec = gen_key().rsplit('.', 1)[0] if rng.random() < 0.6 else None
      names = rng.sample(['a', 'b', 'c', 'zeta', 'Alpha'], len(vals))
      for v, pn in zip(vals, names):
        group.append(bind_op(sec + '.' + pn if sec else gen_key(), v))
        if rng.random() < 0.35:
          group.append(['cstr'])
      at = rng.choice([0, len(ops), rng.randint(0, len(ops))])
      ops[at:at] = group
    elif rng.random() < 0.15:
      ops.insert(rng.randint(0, len(ops)), ['cstr'])
    for m in ('mm', 'nn'):
      if rng.random() < 0.6:
        v = gen_value(rng, regs, 1)
        if v[0] != 'macro':
          ops.append(['pbind', m, v] if textable(v) else ['bind', m + '/gin.macro.value', v])
    if rng.random() < 0.08:
      # gin.macro's own parameter bound in the ROOT scope: an ordinary binding (section "macro"), not a macro named ""
      v = gen_value(rng, regs, 1)
      if v[0] != 'macro':
        ops.insert(rng.randint(0, len(ops)), ['bind', 'gin.macro.value', v])
    indent = rng.choice([0, 2, 4, 8])
    case = {'sels': sels, 'classes': classes, 'modules': MODS, 'ops': ops, 'maxlen': rng.choice([indent + 1, indent + 5, 20, 40, 80, 120]),
            'indent': indent}
    if rng.random() < 0.2:
      self.add_gin_own(rng, case, regs, bind_op)
    return case

  def add_gin_own(self, rng, case, regs, bind_op):
    """bindings of gin.singleton (any scope, constructor = a reference mostly, now and then any other value), references to the
    shared objects, and user configurables that share a helper's name or the module name `gin`"""
    extra = rng.sample(HELPER_SELS, rng.choice([0, 0, 1, 2, 3]))
    case['sels'] = case['sels'] + extra
    regs = regs + [{'sel': s} for s in extra]
    own = ginm.spellings(GIN_OWN, regs)
    fns = [r['sel'] for r in regs if r['sel'] not in set(method_sels(case['classes']))]
    new, keys = [], rng.sample(SINGLETON_KEYS, rng.randint(1, 3))
    for key in keys:
      r = rng.random()
      if r < 0.7:
        sel = rng.choice(fns)
        v = ['ref', [], rng.choice(ginm.spellings(sel, regs)), False]
      elif r < 0.85:
        v = ['obj', 'o1']              # gin.bind_parameter('key/gin.singleton.constructor', a_python_callable)
      else:
        v = gen_value(rng, regs, 1)
      new.append(bind_op((key + '/' if key else '') + rng.choice(own) + '.constructor', v))
    for key in keys:
      if rng.random() < 0.6:         # the shared object is used somewhere
        ref = ['ref', key.split('/') if key else [], rng.choice(own), True]
        v = rng.choice([ref, ['l', [ref, ['macro', 'mm']]], ['d', [[['s', 'k'], ref]]]])
        sel = rng.choice(fns)
        new.append(['pbind', '/'.join(ginm.gen_scope(rng, 1) + [rng.choice(ginm.spellings(sel, regs)) + '.' + rng.choice('abc')]), v])
    for sel in extra:
      for _ in range(rng.randint(0, 2)):
        new.append(bind_op('/'.join(ginm.gen_scope(rng, 2) + [rng.choice(ginm.spellings(sel, regs)) + '.' + rng.choice(['a', 'b', 'zeta'])]),
                           gen_value(rng, regs + [{'sel': GIN_OWN}], 1)))
    for op in new:
      case['ops'].insert(rng.randint(0, len(case['ops'])), op)

  def shrink(self, case):
    for i in range(len(case['ops'])):
      yield dict(case, ops=case['ops'][:i] + case['ops'][i + 1:])

  def _measure(self, case):
    b = Builder(case)
    try:
      b.apply(case['ops'])
      gin = b.gin
      cfg = gin.config
      width = case['maxlen'] - case['indent']
      text = b.text()            # before the harness itself asks gin anything about the values
      md = gin.config.markdown(text)
      entries = []
      # config_str formats values inside a parse scope of its own (how a reference spells its selector may depend on it)
      with cfg._parse_scope(import_manager=cfg.ImportManager(cfg._IMPORTS)):  # pylint: disable=protected-access
        for (s, q), d in cfg._CONFIG.items():  # pylint: disable=protected-access
          params = []
          for p, v in d.items():
            ok = lit_class(v, cfg)
            if ok is None:
              ok = cfg._is_literally_representable(v)  # pylint: disable=protected-access
            params.append([p, bool(ok), pprint.pformat(v, width=width).split('\n')])
          entries.append([s, q, params, bool(cfg._REGISTRY[q].is_method)])  # pylint: disable=protected-access
      imports = sorted([[st.module, bool(st.is_from), st.alias] for st in cfg._IMPORTS], key=repr)  # pylint: disable=protected-access
      registry = [k for k, _ in cfg._REGISTRY.items()]  # pylint: disable=protected-access
      return registry, imports, entries, text, md, b.store(), b
    except Exception:
      b.close()
      raise

  def to_coq(self, case):
    registry, imports, entries, _, _, _, b = self._measure(case)
    b.close()
    ents = C.clist([
        '{| e_scope := %s; e_sel := %s; e_method := %s; e_params := %s |}' % (
            C.cstr(s), C.cstr(q), C.cbool(meth), C.clist(['(%s, {| v_repr_ok := %s; v_lines := %s |})' % (C.cstr(p), C.cbool(ok), C.cstrs(ls))
                                                          for p, ok, ls in params]))
        for s, q, params, meth in entries])
    imps = C.clist(['{| i_module := %s; i_from := %s; i_alias := %s |}' % (C.cstr(m), C.cbool(f), C.copt(a, C.cstr))
                    for m, f, a in imports]) if imports else '(@nil simport)'
    return '((%s, %s, %s), (%s, %s))' % (C.cstrs(registry), imps, ents if entries else '(@nil sentry)',
                                         C.cnat(case['maxlen']), C.cnat(case['indent']))

  def impl(self, case):
    fails, tags = [], []
    try:
      registry, imports, entries, text, md, store, b = self._measure(case)
    except Exception as e:  # pylint: disable=broad-except
      return {'obs': T('BuildError', type(e).__name__), 'fails': [], 'nontrivial': False, 'tags': ['build-error']}
    try:
      obs = [text.split('\n') if text else [], md.split('\n') if text else []]
      cfgA = b.gin.config
      rep = {k: v for k, v in store.items() if cfgA._is_literally_representable(v)}  # pylint: disable=protected-access
      canonA = {k: b.canon(v) for k, v in rep.items()}
      canonAll = {k: b.canon(v) for k, v in store.items()}
      lit = {k: lit_class(v, cfgA) for k, v in store.items()}
      shown = {k: repr(v)[:80] for k, v in store.items()}
      omitted = len(store) - len(rep)
      wraps = '\\\n' in text
    finally:
      b.close()
    # (1) always parses + (2) round trip + idempotence
    c = Builder(case)
    try:
      try:
        c.gin.parse_config(text)
        ok = True
      except Exception as e:  # pylint: disable=broad-except
        ok = False
        fails.append(('config-str-does-not-parse', '%s: %s; text %r' % (type(e).__name__, str(e)[:200], text)))
      if ok:
        canonB = {k: c.canon(v) for k, v in c.store().items()}
        # from the property text, without gin's own verdict: every bound value built from builtin literal types only comes
        # back, equal and of the same type at every depth; a value whose repr is no literal is omitted; nothing else appears
        for k in sorted(store, key=repr):
          if lit[k] is True and canonB.get(k) != canonAll[k]:
            fails.append(('representable-binding-not-restored', 'binding %r = %s (literal types only) comes back as %r from the text %r' % (
                k, shown[k], C.jsonable(canonB.get(k)), text)))
            break
          if lit[k] is False and k in canonB:
            fails.append(('non-literal-value-emitted', 'binding %r = %s has no literal form, yet the text %r restores %r' % (
                k, shown[k], text, C.jsonable(canonB[k]))))
            break
        extra = [k for k in sorted(canonB, key=repr) if canonB[k] != canonAll.get(k)]
        if extra:
          fails.append(('restored-binding-differs', 'the text restores %r = %r, the configuration held %s (%r); text %r' % (
              extra[0], C.jsonable(canonB[extra[0]]), shown.get(extra[0], 'nothing'), C.jsonable(canonAll.get(extra[0])), text)))
        if canonB != canonA:
          diff = {k: (canonA.get(k), canonB.get(k)) for k in set(canonA) | set(canonB) if canonA.get(k) != canonB.get(k)}
          fails.append(('round-trip-lost-or-changed', 'differences (store, re-parsed): %r; text %r' % (C.jsonable(diff), text)))
        else:
          text2 = c.text()
          if text2 != text:
            fails.append(('not-idempotent', 'first %r second %r' % (text, text2)))
    finally:
      c.close()
    # (3) order independence: replay the binding ops in another order (last-wins groups kept in order)
    import random
    rng = random.Random(C.case_hash(case))
    binds = [op for op in case['ops'] if op[0] in ('bind', 'pbind')]
    keyed = {}
    for op in binds:
      keyed.setdefault(op[1], []).append(op)
    groups = list(keyed.values())
    rng.shuffle(groups)
    perm = [op for op in case['ops'] if op[0] == 'import'] + [op for g in groups for op in g]
    d = Builder(case)
    try:
      try:
        d.apply(perm)
        textp = d.text()
        same_store = {k: d.canon(v) for k, v in d.store().items() if d.gin.config._is_literally_representable(v)} == canonA  # pylint: disable=protected-access
        if same_store and textp != text:
          fails.append(('order-dependent-text', 'same bindings made in another order give %r instead of %r' % (textp, text)))
      except Exception:  # pylint: disable=broad-except
        pass
    finally:
      d.close()
    # (3b) the import header depends only on the SET of recorded imports: ImportManager over every rotation / the
    # reversal of the recorded statements gives the same statements
    e = Builder(case)
    try:
      try:
        e.apply([op for op in case['ops'] if op[0] == 'import'])
        cfgE = e.gin.config
        sts = sorted(cfgE._IMPORTS, key=lambda st: repr((st.module, st.is_from, st.alias)))  # pylint: disable=protected-access
        hdr = lambda l: [st.format() for st in cfgE.ImportManager(l).sorted_imports]
        h0 = hdr(sts)
        for perm in [sts[::-1]] + [sts[i:] + sts[:i] for i in range(1, len(sts))]:
          h1 = hdr(perm)
          if h1 != h0:
            fails.append(('import-header-order-dependent', 'the recorded imports %r give the header %r, the same imports '
                          'enumerated as %r give %r' % ([st.format() for st in sts], h0, [st.format() for st in perm], h1)))
            break
      except Exception:  # pylint: disable=broad-except
        pass
    finally:
      e.close()
    # (4) parameters sorted inside every section; (5) markdown keeps binding lines verbatim
    section, last, cont = None, None, False
    prev = ''
    for line in text.split('\n'):
      cont = prev.endswith('\\') or (cont and not line.startswith('#') and line != '' and ' = ' not in line)
      prev = line
      if line.startswith('# Parameters for '):
        section, last = line, None
      elif section and line and not line.startswith((' ', '#')) and ' = ' in line and not cont:
        name = line.split(' = ')[0].rsplit('.', 1)[-1]
        if last is not None and name < last:
          fails.append(('parameters-not-sorted', '%r after %r in %s' % (name, last, section)))
        last = name
    want_md = ['    ' + l for l in text.split('\n') if not l.startswith('#')]
    got_md = [l for l in md.split('\n') if l.startswith('    ') and l != '    # None.']
    if [l for l in want_md if l.strip()] != [l for l in got_md if l.strip()]:
      fails.append(('markdown-not-verbatim', '%r vs %r' % (want_md, got_md)))
    scoped_q = any('/' in l and l.count('.') >= 2 for l in text.split('\n') if l.startswith('# Parameters for '))
    return {'obs': obs, 'fails': fails[:4], 'nontrivial': wraps or (scoped_q and omitted >= 1),
            'tags': ['L%d' % case['maxlen'], 'omitted' if omitted else 'all-representable'] +
                    (['equal-twin'] if "'eqv'" in repr(case['ops']) else []) + (['serialised-midway'] if ['cstr'] in case['ops'] else []) +
                    (['gin-singleton-bound'] if any(k[1] == GIN_OWN for k in store) else [])}


# ---------------------------------------------------------------- the VALUE side: repr / pprint texts read back
WORDS = ['alpha', 'beta', "it's", 'q"uote', 'café', 'x y', '#no comment', 'back\\slash', 'tab\there', 'new\nline', '', ' ', 'ünï', '{brace}', '%s',
         '@ref', '%macro', 'a' * 40]


def gen_pyval(rng, depth):
  r = rng.random()
  if depth <= 0 or r < 0.4:
    k = rng.random()
    if k < 0.25:
      return ['i', rng.choice([0, 1, -1, 7, -12, 10 ** 6, -10 ** 18, 2 ** 70])]
    if k < 0.4:
      return ['f', rng.choice([0.0, -0.0, 1.5, -2.25, 1e+30, 1e-7, -3.0e+22, 0.1, 123456.789, float('inf'), float('nan')]).hex()
              if False else repr(rng.choice([0.0, -0.0, 1.5, -2.25, 1e+30, 1e-7, -3.0e+22, 0.1, 123456.789, float('inf'), float('-inf'), float('nan')]))]
    if k < 0.5:
      return ['b', rng.random() < 0.5]
    if k < 0.57:
      return ['n']
    if k < 0.63:
      return ['by', rng.choice([b'', b'ab', b'\x00\xff', b"it's", b'x' * 50]).hex()]
    if k < 0.66:
      return ['c', rng.choice(['1j', '2.5j', '(1+2j)'])]      # complex: repr is not in the literal grammar gin reads (except 1j)
    n = rng.choice([1, 1, 2, 3, 8, 20])      # long strings make pprint split the literal into adjacent pieces
    return ['s', ' '.join(rng.choice(WORDS) for _ in range(n))]
  if r < 0.6:
    return ['l', [gen_pyval(rng, depth - 1) for _ in range(rng.choice([0, 1, 2, 3, 7]))]]
  if r < 0.78:
    return ['t', [gen_pyval(rng, depth - 1) for _ in range(rng.choice([0, 1, 1, 2, 3, 6]))]]
  keys = []
  for _ in range(rng.choice([0, 1, 2, 3, 6])):
    k = rng.choice([['s', rng.choice(WORDS) + str(rng.randint(0, 9))], ['i', rng.randint(-5, 50)], ['t', [['i', rng.randint(0, 3)], ['s', 'k']]],
                    ['b', True], ['n'], ['f', repr(rng.choice([2.5, -1.0]))]])
    keys.append(k)
  return ['d', [[k, gen_pyval(rng, depth - 1)] for k in keys]]


def pyval(v):
  t = v[0]
  if t == 'i':
    return v[1]
  if t == 'f':
    return float(v[1])
  if t == 'b':
    return bool(v[1])
  if t == 'n':
    return None
  if t == 's':
    return v[1]
  if t == 'by':
    return bytes.fromhex(v[1])
  if t == 'c':
    return complex(v[1])
  if t == 'l':
    return [pyval(x) for x in v[1]]
  if t == 't':
    return tuple(pyval(x) for x in v[1])
  d = {}
  for k, x in v[1]:
    d[pyval(k)] = pyval(x)
  return d


def tok_coq(x):
  return '{| ty := %s; text := %s; srow := %d; scol := %d; erow := %d; ecol := %d |}' % (x[0], C.cstr(x[1]), x[2], x[3], x[4], x[5])


class Unmodelled(Exception):
  pass


def pv_coq(v):
  """the value tree of coq/Model/Repr.v (None: some atom is outside the modelled universe)"""
  try:
    return pv_coq_(v)
  except Unmodelled:
    return None


def pv_coq_(v):
  """atoms are the tokens of repr(atom)"""
  if isinstance(v, list):
    return '(PList %s)' % (C.clist([pv_coq_(x) for x in v]) if v else '[]')
  if isinstance(v, tuple):
    return '(PTuple %s)' % (C.clist([pv_coq_(x) for x in v]) if v else '[]')
  if isinstance(v, dict):
    return '(PDict %s)' % (C.clist(['(%s, %s)' % (pv_coq_(k), pv_coq_(x)) for k, x in v.items()]) if v else '[]')
  toks = [t for t in P.tokens_of(repr(v)) if t[0] not in ('NEWLINE', 'ENDMARKER', 'NL')]
  if len(toks) == 1 and toks[0][0] in ('NAME', 'NUMBER'):
    return '(PAtom %s)' % tok_coq(toks[0])
  if len(toks) == 1 and toks[0][0] == 'STRING':
    return '(PStr %s)' % tok_coq(toks[0])
  if len(toks) == 2 and toks[0][1] == '-' and toks[1][0] in ('NAME', 'NUMBER'):
    return '(PNeg %s)' % tok_coq(toks[1])
  raise Unmodelled(repr(v))      # an atom whose repr is not one token (complex in parentheses, ...)


def py_same(a, b):
  """equal values of the same type, at every depth"""
  if type(a) is not type(b):
    return False
  if isinstance(a, (list, tuple)):
    return len(a) == len(b) and all(py_same(x, y) for x, y in zip(a, b))
  if isinstance(a, dict):
    if len(a) != len(b):
      return False
    for k, x in a.items():
      ks = [j for j in b if py_same(j, k)]
      if len(ks) != 1 or not py_same(b[ks[0]], x):
        return False
    return True
  if isinstance(a, float) and a != a:
    return b != b
  return a == b


def norm_dicts(x):
  if isinstance(x, T):
    args = [norm_dicts(a) for a in x.args]
    return T(x.tag, *(sorted(args, key=repr) if x.tag == 'D' else args))
  if isinstance(x, list):
    return [norm_dicts(a) for a in x]
  return x


class ValueTextEngine(Engine):
  """'restores ... an equal value of the same type' / 'always parses': for generated Python values (nested lists, tuples,
  dicts; ints, floats incl. non-finite, bools, None, strings with quotes / escapes / non-ASCII / enough words to be
  split by pprint, bytes) the real repr(v) and the real pprint.pformat(v, width) are tokenised and given to the model:
  (1) Model/Repr.repr_toks spells exactly repr's tokens, (2)+(3) the parser model reads both texts as
  gin.config.parse_value does, (4) the tree denotes Python's value.  Theorems C06_value_* state the round trip for
  every tree and every layout."""
  name = 'value-text'
  imports = 'Model.Parser Model.ParserSpec Model.Repr'
  run_fn = 'Repr.run'

  def budget(self, tier):
    return 220 if tier == 'quick' else 6000

  def corpus(self):
    return [{'v': ['d', [[['s', 'zeta'], ['l', [['i', -1], ['f', '1.5'], ['n']]]], [['s', 'alpha'], ['t', [['s', 'one two three ' * 8]]]],
                          [['i', 3], ['d', []]]]], 'width': 30},
            {'v': ['t', [['s', 'word ' * 30]]], 'width': 40}, {'v': ['s', 'word ' * 30], 'width': 20},
            {'v': ['l', [['f', 'inf'], ['f', 'nan'], ['f', '-0.0']]], 'width': 80}, {'v': ['t', [['t', [['t', []]]]]], 'width': 5}]

  def gen(self, rng, tier):
    return {'v': gen_pyval(rng, rng.choice([0, 1, 2, 2, 3])), 'width': rng.choice([1, 5, 20, 40, 76, 80, 120])}

  def shrink(self, case):
    v = case['v']
    if v[0] in ('l', 't', 'd'):
      for i in range(len(v[1])):
        yield dict(case, v=[v[0], v[1][:i] + v[1][i + 1:]])
        yield dict(case, v=(v[1][i][1] if v[0] == 'd' else v[1][i]))

  def texts(self, case):
    v = pyval(case['v'])
    return v, repr(v), pprint.pformat(v, width=case['width'])

  def to_coq(self, case):
    v, r, pf = self.texts(case)
    tr, tp = P.tokens_of(r), P.tokens_of(pf)
    orc = dict(P.oracle_for(tr))
    orc.update(P.oracle_for(tp))
    o = C.clist(['(%s, %s)' % (C.cstr(k), 'None' if x is None else '(Some %s)' % C.out(x)) for k, x in orc.items()])
    pv = pv_coq(v)
    if pv is None:
      pv = '(PList [])'
    return '(%s, %s, %s, %s)' % (o, pv, C.clist([tok_coq(t) for t in tr]), C.clist([tok_coq(t) for t in tp]))

  def impl(self, case):
    gin = C.cached_gin()
    cfg = gin.config
    v, r, pf = self.texts(case)
    fails, tags = [], []

    def read(text):
      try:
        return T('Value', P.canon_lit(cfg.parse_value(text)))
      except SyntaxError as e:
        return T('SyntaxError', e.lineno or 0)
      except Exception as e:  # pylint: disable=broad-except
        return T('Err', type(e).__name__)
    modelled = pv_coq(v) is not None
    want = P.canon_lit(v)
    evaluates = P.lit_eval(r) is not None
    obs = [bool(modelled), read(r), read(pf), T('Value', want) if (modelled and evaluates) else T('NoValue')]
    if not modelled:
      obs = [False, read(r), read(pf), T('Value', T('L'))]      # the placeholder tree given to the model
      tags.append('atom-outside-model')
    representable = bool(cfg._is_literally_representable(v))  # pylint: disable=protected-access
    tags.append('representable' if representable else 'not-representable')
    if '\n' in pf:
      tags.append('multi-line')
    if representable:
      for what, text in (('repr', r), ('pformat(width=%d)' % case['width'], pf)):
        got = read(text)
        try:
          same = py_same(cfg.parse_value(text), v)
        except Exception:  # pylint: disable=broad-except
          same = False
        if not same:       # an equal value of the same type, at every depth (dict equality ignores insertion order)
          fails.append(('emitted-value-text-reads-back-differently', '%s of %r is %r, which gin reads as %r' % (what, v, text, C.jsonable(got))))
    return {'obs': obs, 'fails': fails[:2], 'nontrivial': representable and '\n' in pf and isinstance(v, (list, tuple, dict)), 'tags': tags}


class DynStrEngine(Engine):
  """'with or without dynamic registration': configs written against real module objects (the C19 universe: several
  files, every import form, aliases, colliding bound names, references); config_str() is parsed into the cleared
  configuration: the same objects get the same values, and serialising again yields the identical text.
  Implementation only (header and selector spelling are modelled and proved in C19 / Serial)."""
  name = 'config-str-dynamic'
  model = False

  def budget(self, tier):
    return 150 if tier == 'quick' else 4000

  def corpus(self):
    from harness.props import c19
    return [c for c in c19.DynEngine().corpus() if isinstance(c, list)]

  def gen(self, rng, tier):
    from harness.props import c19
    g = c19.DynEngine()
    while True:
      case = g.gen(rng, tier)
      if isinstance(case, list):
        return case

  def shrink(self, case):
    for i in range(len(case)):
      if len(case) > 1:
        yield case[:i] + case[i + 1:]
      for j in range(len(case[i])):
        yield case[:i] + [case[i][:j] + case[i][j + 1:]] + case[i + 1:]

  def impl(self, case):
    from harness.props import c19
    gin = C.fresh_gin()
    cfg = gin.config
    w = c19.World()
    fails = []
    try:
      try:
        for stmts in case:
          gin.parse_config(c19.render(stmts))
      except Exception as e:  # pylint: disable=broad-except
        return {'obs': T('ParseError', type(e).__name__), 'fails': [], 'nontrivial': False, 'tags': ['parse-error']}

      def store():
        out = {}
        for (s, q), d in cfg._CONFIG.items():  # pylint: disable=protected-access
          for p, v in d.items():
            if isinstance(v, cfg.ConfigurableReference):
              v = ('ref', '/'.join(v.scopes), id(v.configurable.wrapped), bool(v.evaluate))
            out[(s, id(cfg._REGISTRY[q].wrapped), p)] = v  # pylint: disable=protected-access
        return out
      first = store()
      text = gin.config_str()
      dyn = any(st[1] == '__gin__.dynamic_registration' for stmts in case for st in stmts if st[0] == 'import')
      gin.clear_config()
      try:
        gin.parse_config(text)
      except Exception as e:  # pylint: disable=broad-except
        fails.append(('config-str-does-not-parse', '%s: %s; text %r' % (type(e).__name__, str(e)[:160], text)))
      else:
        second = store()
        if second != first:
          fails.append(('round-trip-lost-or-changed', 'store (scope, object, parameter) -> value before %r, after parsing config_str() %r; '
                        'text %r' % (sorted(map(repr, first.items())), sorted(map(repr, second.items())), text)))
        else:
          text2 = gin.config_str()
          if text2 != text:
            fails.append(('not-idempotent', 'first %r second %r' % (text, text2)))
      return {'obs': T('Done'), 'fails': fails[:2], 'nontrivial': dyn and len(first) >= 2, 'tags': ['dynamic' if dyn else 'static']}
    finally:
      w.close()


# ---------------------------------------------------------------- corners of the text: reference spellings, late names, unordered keys, ...
CT_REGS = ['a.foo', 'b.bar', 'pkg.sub.h', 'user', 'pkg.other.k']
# registered AFTER the bindings were made: each makes a shorter spelling of an earlier name ambiguous
CT_LATE = ['b.foo', 'z.a.foo', 'x.bar', 'q.sub.h', 'late.user', 'w.k', 'w.other.k']
CT_BAD_REPRS = ['"abc', "'abc", "'''abc", '(1, 2', '[1,', '{', '1 \\', '\\', '1__0', '0x', "b'\\xff", '@user(', '@nosuch', '<Foo "x>', "<Foo it's>",
                '<Foo [1, 2>', '5', "'s'", '[1, 2))', '$', 'a b', '}', '@user']


class OddRepr:
  """an object that is no literal, whatever its repr looks like"""

  def __init__(self, text):
    self.text = text

  def __repr__(self):
    return self.text


def ct_spellings(sel, regs):
  return ginm.spellings(sel, [{'sel': x} for x in regs])


def ct_text(v, which):
  """gin text of a value tree; a reference is ['ref', scopes, selector, evaluate, [spelling A, spelling B]]"""
  t = v[0]
  if t == 'ref':
    return '@' + '/'.join(list(v[1]) + [v[4][which]]) + ('()' if v[3] else '')
  if t == 'macro':
    return '%' + v[1]
  if t in ('c', 'float'):
    return v[1]
  if t == 'l':
    return '[' + ', '.join(ct_text(x, which) for x in v[1]) + ']'
  if t == 't':
    return '(' + ', '.join(ct_text(x, which) for x in v[1]) + (',' if len(v[1]) == 1 else '') + ')'
  if t == 'd':
    return '{' + ', '.join(ct_text(k, which) + ': ' + ct_text(x, which) for k, x in v[1]) + '}'
  return ginm.val_text(v)


def ct_canon(cfg, v, by_object=False):
  """type-exact, spelling-free, order-free picture of a stored value"""
  if isinstance(v, cfg.ConfigurableReference):
    return ('Ref', '/'.join(v.scopes), id(v.configurable.wrapped) if by_object else v.configurable.selector, bool(v.evaluate))
  if type(v) in (list, tuple):
    return (type(v).__name__,) + tuple(ct_canon(cfg, x, by_object) for x in v)
  if type(v) is dict:
    return ('dict',) + tuple(sorted(((ct_canon(cfg, k, by_object), ct_canon(cfg, x, by_object)) for k, x in v.items()), key=repr))
  return (type(v).__name__, repr(v))


def ct_store(cfg, by_object=False):
  out = {}
  for (s, q), d in cfg._CONFIG.items():  # pylint: disable=protected-access
    for p, v in d.items():
      out[(s, id(cfg._REGISTRY[q].wrapped) if by_object else q, p)] = ct_canon(cfg, v, by_object)  # pylint: disable=protected-access
  return out


def ct_register(gin, sels):
  for sel in sels:
    name = sel.split('.')[-1]
    env = {}
    exec('def %s(p=None, q=None, r=None):\n  return None\n' % name, env)  # pylint: disable=exec-used
    fn = env[name]
    fn.__module__ = None
    gin.configurable(name, module='.'.join(sel.split('.')[:-1]) or None)(fn)


def ct_round_trip(gin, fails, expect_absent=(), by_object=False, maxlen=80):
  """config_str() of the current configuration: it is produced, parses into the cleared configuration, restores every
  binding (all but expect_absent) type-exactly with the same referents, and serialising again gives the identical text"""
  cfg = gin.config
  before = ct_store(cfg, by_object)
  try:
    text = gin.config_str(maxlen)
  except Exception as e:  # pylint: disable=broad-except
    fails.append(('config-str-raised', '%s: %s; the configuration holds %r' % (type(e).__name__, str(e)[:160], sorted(map(repr, before))[:8])))
    return None
  gin.clear_config()
  try:
    gin.parse_config(text)
  except Exception as e:  # pylint: disable=broad-except
    fails.append(('config-str-does-not-parse', '%s: %s; text %r' % (type(e).__name__, str(e)[:160], text)))
    return text
  after = ct_store(cfg, by_object)
  want = {k: v for k, v in before.items() if (k[0], k[2]) not in expect_absent and k[2] not in expect_absent}
  if after != want:
    diff = {repr(k): (want.get(k), after.get(k)) for k in set(want) | set(after) if want.get(k) != after.get(k)}
    fails.append(('round-trip-lost-or-changed', 'differences (bound, restored from the text): %r; text %r' % (diff, text)))
    return text
  text2 = gin.config_str(maxlen)
  if text2 != text:
    fails.append(('not-idempotent', 'first %r second %r' % (text, text2)))
  return text


class CornerEngine(Engine):
  """Configurations the serial engine's universe does not reach, each judged from the property text alone (implementation
  only; nothing here is modelled):
  respell   the same bindings with every reference spelled in two of its valid ways ('the text depends only on the set of
            bindings'), optionally followed by registrations that make a used spelling ambiguous (the text must still be
            produced, parse and restore the same referents);
  dynalias  dynamic registration, several files importing one module under different names, references inside lists,
            as dict keys and dict values;
  keys      dict values whose keys Python cannot order (references, macros, complex numbers, tuples of mixed types),
            written in every order: one text, and a fixed point;
  rootmacro gin.macro's own parameter bound in the root scope (macro.value = v) next to ordinary macros;
  unprintable  values whose repr cannot be produced, tokenised or parsed (nesting beyond the tokenizer's limit, integers
            beyond the int->str limit, objects whose repr has an unterminated quote / bracket): omitted, never an error."""
  name = 'config-str-corners'
  model = False

  def budget(self, tier):
    return 120 if tier == 'quick' else 3000

  def ref(self, rng, sel, scopes=None, evaluate=None):
    sp = ct_spellings(sel, CT_REGS)
    return ['ref', scopes if scopes is not None else rng.choice([[], [], ['s1'], ['s1', 's2']]), sel,
            rng.random() < 0.4 if evaluate is None else evaluate, [rng.choice(sp), rng.choice(sp)]]

  def corpus(self):
    R = lambda sel, a, b, sc=(), ev=False: ['ref', list(sc), sel, ev, [a, b]]
    cases = [
        {'kind': 'respell', 'late': [], 'binds': [['user.p', R('a.foo', 'foo', 'a.foo')]]},
        {'kind': 'respell', 'late': ['b.foo'], 'binds': [['user.p', R('a.foo', 'foo', 'foo')], ['user.q', ['i', 1]]]},
        {'kind': 'respell', 'late': ['q.sub.h', 'x.bar'], 'binds': [['s1/user.p', ['l', [R('pkg.sub.h', 'h', 'sub.h', ['s2'], True), R('b.bar', 'bar', 'b.bar')]]],
                                                                     ['foo.p', ['d', [[['s', 'k'], R('pkg.other.k', 'k', 'other.k')]]]]]},
        {'kind': 'dynalias', 'files': [['as', 'j', [['', 'f', 'x', ['i', 3]]]],
                                       ['as', 'k', [['', 'f', 'y', ['d', [[['dref', [], 'g', False], ['i', 1]]]]], ['', 'f', 'z', ['l', [['dref', [], 'g', False]]]]]]]},
        {'kind': 'dynalias', 'files': [['plain', None, [['s1', 'g', 'x', ['dref', [], 'f', True]]]],
                                       ['from', None, [['', 'C', 'y', ['d', [[['dref', ['s1'], 'C', False], ['dref', [], 'f', False]]]]]]]]},
        {'kind': 'keys', 'items': [[R('a.foo', 'foo', 'foo'), ['i', 1]], [R('b.bar', 'bar', 'bar'), ['i', 2]], [R('pkg.sub.h', 'h', 'h'), ['i', 3]]]},
        {'kind': 'keys', 'items': [[['c', '1j'], ['i', 1]], [['c', '2j'], ['i', 2]], [['c', '3j'], ['i', 3]]]},
        {'kind': 'keys', 'items': [[['macro', 'm1'], ['i', 1]], [R('a.foo', 'foo', 'foo', (), True), ['i', 2]], [['macro', 'm2'], ['i', 3]]]},
        {'kind': 'keys', 'items': [[['t', [['i', 1], ['s', 'a']]], ['i', 1]], [['t', [['i', 1], ['i', 2]]], ['i', 2]], [['t', [['i', 1], ['n']]], ['i', 3]]]},
        {'kind': 'rootmacro', 'spelling': 'macro.value', 'via': 'parse', 'value': ['i', 5], 'others': []},
        {'kind': 'rootmacro', 'spelling': 'gin.macro.value', 'via': 'bind', 'value': ['l', [['s', 'x']]], 'others': [['mm', ['i', 3]], ['s1/nn', ['s', 'v']]]},
        {'kind': 'unprintable', 'what': ['deep', 'l', 250], 'at': 'top'}, {'kind': 'unprintable', 'what': ['bigint', 5000], 'at': 'top'},
        {'kind': 'unprintable', 'what': ['deep', 't', 199], 'at': 'top'}, {'kind': 'unprintable', 'what': ['deep', 'd', 200], 'at': 'inlist'},
        {'kind': 'unprintable', 'what': ['bigint', 4300], 'at': 'inlist'}, {'kind': 'unprintable', 'what': ['bigint', 4301], 'at': 'macro'},
    ]
    cases += [{'kind': 'unprintable', 'what': ['repr', r], 'at': at} for r in CT_BAD_REPRS for at in (['top', 'macro'] if r in ('"abc', '5') else ['top'])]
    return cases

  def gen_refval(self, rng, depth=1):
    r = rng.random()
    sel = rng.choice(CT_REGS)
    if depth <= 0 or r < 0.4:
      return self.ref(rng, sel)
    if r < 0.6:
      return ['l', [self.gen_refval(rng, depth - 1) if rng.random() < 0.7 else ginm.gen_plain(rng, 0) for _ in range(rng.randint(1, 3))]]
    if r < 0.75:
      return ['t', [self.gen_refval(rng, depth - 1) for _ in range(rng.randint(1, 2))]]
    if r < 0.9:
      return ['d', [[['s', 'k%d' % i], self.gen_refval(rng, depth - 1)] for i in range(rng.randint(1, 2))]]
    sels = rng.sample(CT_REGS, rng.randint(1, 2))
    return ['d', [[self.ref(rng, x, scopes=[]), ginm.gen_plain(rng, 0)] for x in sels]]

  def gen(self, rng, tier):
    k = rng.random()
    if k < 0.4:
      binds, seen = [], set()
      for _ in range(rng.randint(1, 4)):
        key = '/'.join(ginm.gen_scope(rng, 2) + [rng.choice(ct_spellings(rng.choice(CT_REGS), CT_REGS)) + '.' + rng.choice('pqr')])
        if key not in seen:
          seen.add(key)
          binds.append([key, self.gen_refval(rng) if rng.random() < 0.8 else ginm.gen_plain(rng, 1)])
      return {'kind': 'respell', 'late': rng.sample(CT_LATE, rng.choice([0, 0, 1, 2, 3])), 'binds': binds}
    if k < 0.55:
      files = []
      for _ in range(rng.randint(1, 3)):
        form = rng.choice(['plain', 'as', 'as', 'from', 'fromas'])
        alias = rng.choice(['j', 'k', 'u']) if form in ('as', 'fromas') else None
        binds = []
        for _ in range(rng.randint(1, 3)):
          dref = lambda: ['dref', rng.choice([[], [], ['s1']]), rng.choice(['f', 'g', 'C']), rng.random() < 0.3]
          v = rng.choice([lambda: ['i', rng.randint(0, 9)], dref, lambda: ['l', [dref(), ['i', 1]]], lambda: ['d', [[dref(), ['i', 1]]]],
                          lambda: ['d', [[['s', 'k'], dref()]]], lambda: ['d', [[['dref', [], 'f', False], dref()], [['dref', [], 'g', False], ['i', 2]]]]])()
          binds.append([rng.choice(['', '', 's1']), rng.choice(['f', 'g', 'C']), rng.choice('xyz'), v])
        files.append([form, alias, binds])
      return {'kind': 'dynalias', 'files': files}
    if k < 0.75:
      pool = rng.choice([
          [self.ref(rng, x, scopes=[], evaluate=False) for x in CT_REGS],
          [['c', x] for x in ('1j', '2j', '3j', '2.5j', '10j')],
          [['macro', 'm1'], ['macro', 'm2'], ['macro', 's1/m1']] + [self.ref(rng, x, scopes=[]) for x in CT_REGS[:2]],
          [['t', [['i', 1], ['s', 'a']]], ['t', [['i', 1], ['i', 2]]], ['t', [['i', 1], ['n']]], ['t', [['s', 'a'], ['i', 0]]]],
          [['i', 1], ['s', 'a'], ['i', 10], ['s', 'b'], ['n']],              # control: pprint orders these by type name
      ])
      keys, seen = [], set()
      for x in rng.sample(pool, rng.randint(2, min(4, len(pool)))):
        if repr(x[:4]) not in seen:
          seen.add(repr(x[:4]))
          keys.append(x)
      return {'kind': 'keys', 'items': [[x, ginm.gen_plain(rng, 0)] for x in keys]}
    if k < 0.85:
      return {'kind': 'rootmacro', 'spelling': rng.choice(['macro.value', 'gin.macro.value']), 'via': rng.choice(['parse', 'bind']),
              'value': ginm.gen_plain(rng, 1), 'others': [[n, ginm.gen_plain(rng, 0)] for n in rng.sample(['mm', 'nn', 's1/mm'], rng.randint(0, 2))]}
    what = rng.choice([['deep', rng.choice('ltd'), rng.choice([20, 150, 198, 199, 200, 201, 250, 400])],
                       ['bigint', rng.choice([100, 4299, 4300, 4301, 6000])], ['repr', rng.choice(CT_BAD_REPRS)]])
    return {'kind': 'unprintable', 'what': what, 'at': rng.choice(['top', 'top', 'inlist', 'macro'])}

  def shrink(self, case):
    for f in ('binds', 'late', 'items', 'others', 'files'):
      if f in case:
        for i in range(len(case[f])):
          yield dict(case, **{f: case[f][:i] + case[f][i + 1:]})

  # -- the five families
  def respell(self, case, fails):
    texts, stores = [], []
    for which in (0, 1):
      gin = C.fresh_gin()
      ct_register(gin, CT_REGS)
      try:
        gin.parse_config(''.join('%s = %s\n' % (key, ct_text(v, which)) for key, v in case['binds']))
      except Exception as e:  # pylint: disable=broad-except
        return [T('ParseError', type(e).__name__)], ['parse-error']
      ct_register(gin, case['late'])
      stores.append(ct_store(gin.config))
      sub = []
      texts.append(ct_round_trip(gin, sub))
      fails += [(k, 'references spelled %s%s: %s' % ('AB'[which], ', then %r registered' % case['late'] if case['late'] else '', d)) for k, d in sub]
    if stores[0] == stores[1] and None not in texts and texts[0] != texts[1]:
      fails.append(('reference-spelling-dependent-text', 'the same bindings (equal values, same referents) written with other valid spellings of '
                    'the references give %r and %r' % (texts[0], texts[1])))
    return [T('Done')], ['late%d' % min(len(case['late']), 2)]

  def dynalias(self, case, fails):
    from harness.props import c19
    gin = C.fresh_gin()
    w = c19.World()
    try:
      for form, alias, binds in case['files']:
        imp = {'plain': 'import pkga.util', 'as': 'import pkga.util as %s' % alias, 'from': 'from pkga import util',
               'fromas': 'from pkga import util as %s' % alias}[form]
        name = alias or ('pkga.util' if form == 'plain' else 'util')

        def vt(v):
          if v[0] == 'dref':
            return '@' + '/'.join(list(v[1]) + [name + '.' + v[2]]) + ('()' if v[3] else '')
          if v[0] == 'l':
            return '[' + ', '.join(vt(x) for x in v[1]) + ']'
          if v[0] == 'd':
            return '{' + ', '.join(vt(a) + ': ' + vt(b) for a, b in v[1]) + '}'
          return ginm.val_text(v)
        text = 'from __gin__ import dynamic_registration\n%s\n' % imp
        text += ''.join('%s%s.%s.%s = %s\n' % (sc + '/' if sc else '', name, leaf, p, vt(v)) for sc, leaf, p, v in binds)
        try:
          gin.parse_config(text)
        except Exception as e:  # pylint: disable=broad-except
          return [T('ParseError', type(e).__name__)], ['parse-error']
      ct_round_trip(gin, fails, by_object=True)
      return [T('Done')], ['files%d' % len(case['files'])]
    finally:
      w.close()

  def keys(self, case, fails):
    import itertools
    items = case['items']
    perms = list(itertools.permutations(range(len(items))))
    if len(perms) > 6:
      perms = perms[:1] + perms[-1:] + perms[5::5][:4]
    texts = []
    for perm in perms:
      gin = C.fresh_gin()
      ct_register(gin, CT_REGS)
      src = 'm1 = 1\nm2 = 2\ns1/m1 = 3\nuser.p = {%s}\n' % ', '.join(ct_text(items[i][0], 0) + ': ' + ct_text(items[i][1], 0) for i in perm)
      try:
        gin.parse_config(src)
      except Exception as e:  # pylint: disable=broad-except
        return [T('ParseError', type(e).__name__)], ['parse-error']
      sub = []
      texts.append(ct_round_trip(gin, sub, maxlen=40 if len(items) > 3 else 80))
      if sub:
        fails += [(k, 'dict written as %r: %s' % (src.splitlines()[-1], d)) for k, d in sub]
        break
    if not fails and len(set(texts)) > 1:
      a, b = sorted(set(texts))[:2]
      fails.append(('dict-key-order-dependent-text', 'one dict value (same keys, same values) written in two orders gives %r and %r' % (a, b)))
    return [T('Done')], ['perms%d' % len(perms)]

  def rootmacro(self, case, fails):
    gin = C.fresh_gin()
    ct_register(gin, CT_REGS)
    b = Builder({'modules': [], 'sels': []})
    for name, v in case['others']:
      gin.parse_config('%s = %s\nfoo.p = %%%s' % (name, ginm.val_text(v), name))
    if case['via'] == 'parse':
      gin.parse_config('%s = %s' % (case['spelling'], ginm.val_text(case['value'])))
    else:
      gin.bind_parameter(case['spelling'], b.value(case['value']))
    gin.parse_config('user.p = %anything')
    ct_round_trip(gin, fails)
    return [T('Done')], [case['via']]

  def unprintable(self, case, fails):
    gin = C.fresh_gin()
    ct_register(gin, CT_REGS)
    what = case['what']
    literal = None       # None: gin may restore it or leave it out; False: it has no literal form and must not come back
    if what[0] == 'deep':
      v = {'l': [], 't': (), 'd': {}}[what[1]]
      for _ in range(what[2]):
        v = {'l': lambda x: [x], 't': lambda x: (x,), 'd': lambda x: {'k': x}}[what[1]](v)
      literal = True if what[2] + (case['at'] == 'inlist') < 150 else None
    elif what[0] == 'bigint':
      v = 10 ** (what[1] - 1)            # what[1] digits
      literal = True if what[1] <= 4000 else None
    else:
      v = OddRepr(what[1])
      literal = False
    key = 'user.p'
    if case['at'] == 'inlist':
      v = [1, v]
    if case['at'] == 'macro':
      key = 'mm/gin.macro.value'
      gin.parse_config('user.r = %mm')
    gin.bind_parameter(key, v)
    gin.bind_parameter('user.q', 1)
    cfg = gin.config
    try:
      text = gin.config_str()
    except Exception as e:  # pylint: disable=broad-except
      fails.append(('config-str-raised-for-unprintable-value', '%s: %s; %s bound to %s' % (type(e).__name__, str(e)[:120], key, case['what'])))
      return [T('Done')], [what[0]]
    gin.clear_config()
    try:
      gin.parse_config(text)
    except Exception as e:  # pylint: disable=broad-except
      fails.append(('config-str-does-not-parse', '%s: %s; text %r' % (type(e).__name__, str(e)[:160], text[:300])))
      return [T('Done')], [what[0]]
    store = {(s, q, p): x for (s, q), d in cfg._CONFIG.items() for p, x in d.items()}  # pylint: disable=protected-access
    k3 = ('mm', 'gin.macro', 'value') if case['at'] == 'macro' else ('', 'user', 'p')
    if store.get(('', 'user', 'q')) != 1:
      fails.append(('round-trip-lost-or-changed', 'user.q = 1 is not restored from %r' % text[:300]))
    elif k3 in store and (literal is False or not py_same(store[k3], v)):
      fails.append(('non-literal-value-emitted' if literal is False else 'restored-binding-differs',
                    '%s was bound to %s; the text restores %s' % (key, case['what'], repr(store[k3])[:80])))
    elif k3 not in store and literal:
      fails.append(('representable-binding-not-restored', '%s bound to %s is not restored' % (key, case['what'])))
    elif gin.config_str() != text:
      fails.append(('not-idempotent', 'first %r' % text[:300]))
    return [T('Done')], [what[0], 'restored' if k3 in store else 'omitted']

  def impl(self, case):
    fails = []
    obs, tags = getattr(self, case['kind'])(case, fails)
    return {'obs': obs, 'fails': fails[:3], 'nontrivial': 'parse-error' not in tags, 'tags': [case['kind']] + tags}


class AtomModelEngine(Engine):
  """coq/Model/StrLit.v (what repr writes for a str / bytes / int and what ast.literal_eval reads from ONE atom text)
  against CPython itself: harness/atoms/atoms.py generates values and literal texts (valid and malformed), and coqc
  evaluates the model on them.  This validates the model of the EXTERNAL functions that Props/AtomRoundTrip.v is about
  (gin calls repr and ast.literal_eval; they are not gin code), so a disagreement here says the atom theorems are about
  the wrong functions.  One case = one seed of that generator."""
  name = 'atom-model'
  model = False

  def budget(self, tier):
    return 0 if tier == 'quick' else 4

  def corpus(self):
    return [{'seed': 0, 'n': 120}]

  def gen(self, rng, tier):
    return {'seed': rng.randrange(1, 10 ** 6), 'n': 400}

  def impl(self, case):
    import os
    import subprocess
    work = os.path.join(C.WORK, 'atoms_%d' % case['seed'])
    p = subprocess.run([sys.executable, '-B', os.path.join(C.VERIF, 'harness', 'atoms', 'atoms.py'), '--seed', str(case['seed']),
                        '--n', str(case['n']), '--coq', C.COQ, '--work', work], capture_output=True, text=True, timeout=1500)
    out = p.stdout + p.stderr
    fails = []
    if p.returncode != 0:
      bad = [l for l in out.split('\n') if 'DISAGREE' in l or 'FAILED' in l or 'cannot read' in l]
      fails.append(('atom-model-disagrees-with-cpython', '; '.join(bad[:5]) or out[-600:]))
    import re as _re
    m = _re.search(r'seed \d+: (\d+) cases', out)
    return {'obs': T('Atoms', int(m.group(1)) if m else 0), 'fails': fails, 'nontrivial': bool(m and int(m.group(1)) > 100),
            'tags': ['atom-cases:%s' % (m.group(1) if m else '?')]}


class PPrintModelEngine(Engine):
  """coq/Model/PPrint.v against the real thing, text for text: `pformat w v` against pprint.pformat(value, width=w) of
  CPython, and `format_binding maxlen indent key v` against the binding lines of gin.config_str(maxlen, indent) on
  /repo's current source (harness/pprintm/pprint_corr.py: generated literal trees of depth <= 5, widths 1 .. 120).
  One case = one seed of that generator.  Strings / bytes that pprint would split are left out (not modelled)."""
  name = 'pprint-model'
  model = False
  script = 'pprint_corr.py'

  def args(self, case):
    return ['--seeds', str(case['seed']), '--n', str(case['n']), '--nbind', str(case['nbind'])]

  def budget(self, tier):
    return 0 if tier == 'quick' else 4

  def corpus(self):
    return [{'seed': 0, 'n': 200, 'nbind': 100}]

  def gen(self, rng, tier):
    return {'seed': rng.randrange(1, 10 ** 6), 'n': 1500, 'nbind': 400}

  def impl(self, case):
    import os
    import re as _re
    import subprocess
    env = dict(os.environ, PYTHONPATH=C.REPO + os.pathsep + C.VERIF)
    env['GIN_REPO'] = C.REPO
    p = subprocess.run([sys.executable, '-B', os.path.join(C.VERIF, 'harness', 'pprintm', self.script)] + self.args(case) + ['--coq', C.COQ],
                       capture_output=True, text=True, timeout=1500, env=env)
    out = p.stdout + p.stderr
    fails = []
    if p.returncode != 0:
      bad = [l.strip() for l in out.split('\n') if 'DISAGREE ' in l and 'TOTAL' not in l and 'cases' not in l]
      kind = ('config-text-differs-from-model' if self.script != 'pprint_corr.py' else
              'format-binding-differs-from-model' if any('format_binding' in b for b in bad) else 'pformat-model-disagrees-with-cpython')
      fails.append((kind, '; '.join(bad[:4]) or out[-800:]))
    m = _re.findall(r'cases (\d+)', out)
    n = sum(int(x) for x in m)
    return {'obs': T('PPrint', n), 'fails': fails, 'nontrivial': n > 100, 'tags': ['pprint-cases:%d' % n]}


class ConfigTextEngine(PPrintModelEngine):
  """coq/Model/ConfigText.v (`config_text`: the whole text of config_str() computed from the store, values through the
  pformat model) against gin.config_str() of /repo's current source, CHARACTER FOR CHARACTER, on generated stores
  (functions in modules, classes with registered methods, scopes, macros incl. the root-scope gin.macro binding, opaque
  values, every line width); this is the tie of Props/ConfigText.v (`ConfigText_reads_back`, `ConfigText_roundtrip`: the
  characters are lexed and parsed back into exactly the emitted bindings, and re-serialise to the same text) to the code.
  One case = one seed of harness/pprintm/config_text_corr.py."""
  name = 'config-text'
  script = 'config_text_corr.py'

  def corpus(self):
    return [{'seed': 0, 'n': 120}]

  def gen(self, rng, tier):
    return {'seed': rng.randrange(1, 10 ** 6), 'n': 400}

  def args(self, case):
    return ['--seeds', str(case['seed']), '--n', str(case['n'])]


class PPrintStrEngine(PPrintModelEngine):
  """coq/Model/PPrintStr.v (`pformat_s`: pformat INCLUDING pprint's splitting of long strings into adjacent literals,
  over trees whose string atoms carry their content, through Model/StrLit.v's repr) against pprint.pformat of CPython,
  character for character; every case also asserts ast.literal_eval(text) == value on the Python side."""
  name = 'pprint-str-model'
  script = 'pprint_str_corr.py'

  def corpus(self):
    return [{'seed': 0, 'n': 150}]

  def gen(self, rng, tier):
    return {'seed': rng.randrange(1, 10 ** 6), 'n': 1200}

  def args(self, case):
    return ['--seeds', str(case['seed']), '--n', str(case['n'])]


class ConfigTextStrEngine(ConfigTextEngine):
  """coq/Model/ConfigTextStr.v (`config_text_s`: the config_str text with values formatted by `pformat_s`, i.e. including
  pprint's string splitting) against gin.config_str() of /repo, character for character, on stores with long strings."""
  name = 'config-text-str'
  script = 'config_text_str_corr.py'

  def corpus(self):
    return [{'seed': 0, 'n': 80}]


class ModelledTextsEngine(Engine):
  """The five correspondences between the Coq models of TEXTS and the real thing, run side by side (each is a separate
  process driving coqc): atom-model (Model/StrLit.v vs CPython's repr / literal_eval), pprint-model and pprint-str-model
  (Model/PPrint.v, Model/PPrintStr.v vs pprint.pformat; format_binding vs gin), config-text and config-text-str
  (Model/ConfigText*.v vs gin.config_str() of /repo, character for character).  One case = one seed of one generator."""
  name = 'modelled-texts'
  model = False
  parallel_small = True
  PARTS = [AtomModelEngine(), PPrintModelEngine(), ConfigTextEngine(), PPrintStrEngine(), ConfigTextStrEngine()]

  def budget(self, tier):
    return 0 if tier == 'quick' else 15

  def corpus(self):
    return [dict(c, which=e.name) for e in self.PARTS for c in e.corpus()]

  def gen(self, rng, tier):
    e = rng.choice(self.PARTS)
    return dict(e.gen(rng, tier), which=e.name)

  def impl(self, case):
    e = [x for x in self.PARTS if x.name == case['which']][0]
    r = e.impl({k: v for k, v in case.items() if k != 'which'})
    r['tags'] = [case['which'] + ':' + t for t in r.get('tags', [])]
    return r


ENGINES = [SerialEngine(), ValueTextEngine(), DynStrEngine(), CornerEngine(), ModelledTextsEngine()]
