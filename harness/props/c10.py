"""C10 — REQUIRED parameters are filled from the config or the call fails cleanly."""
from harness import common as C
from harness import ginm
from harness.common import T
from harness.main import Engine
from harness.props import c01

PID = 'C10'
LEVEL = 'proof'
RULE = ('gin-machine/call with gin.REQUIRED markers: every subset of positional / keyword / signature-default / '
        '**kwargs-only names marked, random subsets of them bound over scopes of depth 0-2; plus registrations '
        'with signature-level REQUIRED on denylisted / non-allowlisted parameters. non-trivial = a call with >= 2 '
        'markers of different kinds of which a proper non-empty subset has an applicable binding. '
        'bound-callable (implementation only): external configurables made from a classmethod reached through its class, '
        'a bound method, a callable instance (controls: staticmethod, plain function) with every placement of markers '
        'and every subset of bindings.')
TRUSTED_BASE = c01.TRUSTED_BASE
ASSUMPTIONS = ['the names in the RuntimeError are parsed back from the message text (the property names them)',
               'bindings whose value is the %gin.REQUIRED constant itself are not generated here (see DESIGN.md F15)']


def contains_required(x):
  if isinstance(x, T):
    return x.tag == 'REQUIRED' or any(contains_required(a) for a in x.args)
  if isinstance(x, list):
    return any(contains_required(a) for a in x)
  return False


def check_required(ctx, regs_by_sel, own, m):
  c = regs_by_sel[ctx['sel']]
  sg = c['sig']
  args, kwargs = ctx['args'], dict((k, v) for k, v in ctx['kwargs'])
  names = sg['args']
  kwonly = [n for n, _ in sg['kwonly']]
  nd = len(sg['defaults'])
  dflt = {a: d for a, d in zip(names[len(names) - nd:], sg['defaults'])}
  dflt.update({n: d for n, d in sg['kwonly'] if d is not None})
  bound = c01.overlay_spec(ctx['config'], ctx['scope'], ctx['sel'])
  fails = []
  err = ctx.get('error')
  # the marker never reaches the function
  if own is not None and own[0] == ctx['sel'] and err is None:
    for p, v in own[2]:
      if contains_required(v):
        fails.append(('required-leaked', 'function %s received gin.REQUIRED for %r; args=%r kwargs=%r bound=%r' %
                      (ctx['sel'], p, args, ctx['kwargs'], bound)))
  if any(a == ['req'] for a in args[len(names):]):
    if err != 'ValueError':
      fails.append(('vararg-marker-accepted', 'REQUIRED passed as *args element: outcome %r' % (err,)))
    return fails
  if err == 'ValueError' and not any(c01.has_ref(v) for v in bound.values()):
    fails.append(('vararg-marker-misjudged', 'call %s args=%r kwargs=%r: no element of *args is the marker (a value whose __eq__ '
                  'answers True to everything is not the marker), yet the call was refused with ValueError' %
                  (ctx['sel'], args, ctx['kwargs'])))
    return fails
  pos_marked = [names[i] for i in range(min(len(args), len(names))) if args[i] == ['req']]
  pos_supplied = [names[i] for i in range(min(len(args), len(names))) if args[i] != ['req']]
  kw_marked = [k for k, v in ctx['kwargs'] if v == ['req']]
  sig_marked = [p for p in names + kwonly if dflt.get(p) == ['req']
                and p not in names[:len(args)] and p not in kwargs]
  marked = pos_marked + [k for k in kw_marked if k not in pos_marked] + \
      [p for p in sig_marked if p not in pos_marked and p not in kw_marked]
  if not marked:
    return fails
  missing = [p for p in marked if p not in bound]
  order = [p for p in names + kwonly if p in missing] + [p for p in missing if p not in names + kwonly]
  nested_ref = any(c01.has_ref(v) for v in bound.values())
  if missing:
    want = 'RuntimeError:' + ','.join(order)
    if err != want and not nested_ref:
      fails.append(('missing-required-report', 'call %s args=%r kwargs=%r scope=%r bound=%r: expected %r, got %r' %
                    (ctx['sel'], args, ctx['kwargs'], ctx['scope'], sorted(bound), want, err)))
    if own is not None and own[0] == ctx['sel'] and own[3] >= 0 and err is not None and ctx['log_end'] > ctx['log_start'] \
       and m.log[ctx['log_end'] - 1][0] == ctx['sel'] and not nested_ref:
      fails.append(('body-ran-despite-missing', 'function body ran although %r unfilled' % (missing,)))
    return fails
  # every marker has a binding: filled in place
  if err is not None and err.startswith('RuntimeError'):
    fails.append(('spurious-missing', 'all of %r are bound (%r) yet %r' % (marked, sorted(bound), err)))
    return fails
  if err is None and own is not None and own[0] == ctx['sel']:
    env = dict((k, v) for k, v in own[2])
    for p in marked:
      if p in names + kwonly and not c01.has_ref(bound[p]) and env.get(p, '<absent>') != bound[p]:
        fails.append(('required-not-filled', 'parameter %r marked REQUIRED, bound to %r, function saw %r' %
                      (p, bound[p], env.get(p, '<absent>'))))
    for i in range(min(len(args), len(names))):
      if args[i] != ['req'] and env.get(names[i]) != c01.canon_plain(args[i]):
        fails.append(('caller-arg-changed', 'positional %r: passed %r, function saw %r' %
                      (names[i], args[i], env.get(names[i]))))
  return fails


class ReqEngine(c01.CallEngine):
  name = 'gin-required'
  allow_req = True

  def gen_arg(self, rng):
    r = rng.random()
    if r < 0.3:
      return ['req']
    if r < 0.4:
      return ['obj', 'ANY']       # an argument whose __eq__ answers True to everything
    return ginm.gen_plain(rng, 1)

  def corpus(self):
    f = {'sel': 'm.f', 'sig': {'args': ['a', 'b', 'c'], 'defaults': [['req']], 'varargs': True,
                               'kwonly': [['k1', ['req']], ['k2', None]], 'varkw': True}, 'allow': [], 'deny': []}
    return [{'regs': [f], 'ops': [
        ['call', 'm.f', [['req'], ['i', 1]], [['k2', ['req']], ['z', ['req']]]],
        ['bind', 'f.a', ['i', 5]], ['bind', 's1/f.k2', ['i', 6]],
        ['call', 'm.f', [['req'], ['i', 1]], [['k2', ['req']], ['z', ['req']]]],
        ['with', 's1', [['call', 'm.f', [['req'], ['i', 1]], [['k2', ['req']]]],
                        ['bind', 'f.c', ['i', 7]], ['bind', 'f.k1', ['i', 8]],
                        ['call', 'm.f', [['req'], ['i', 1]], [['k2', ['req']]]],
                        ['call', 'm.f', [['req'], ['i', 1], ['i', 2], ['req']], []]]],
        ['dumpcalls']]},
            {'regs': [], 'ops': [
                ['register', {'sel': 'q.g', 'sig': {'args': ['a'], 'defaults': [['req']], 'varargs': False,
                                                    'kwonly': [], 'varkw': False}, 'allow': [], 'deny': ['a']}],
                ['register', {'sel': 'q.h', 'sig': {'args': ['a', 'b'], 'defaults': [['req'], ['i', 1]],
                                                    'varargs': False, 'kwonly': [], 'varkw': False},
                              'allow': ['b'], 'deny': []}],
                ['bind', 'g.a', ['i', 1]], ['bind', 'h.b', ['i', 1]], ['dumpconfig']]}]

  def gen(self, rng, tier):
    case = super().gen(rng, tier)
    if rng.random() < 0.25:
      # a registration that must be rejected (or accepted) because of signature-level REQUIRED vs lists
      sg = ginm.gen_sig(rng, True)
      names = ginm.sig_names(sg)
      c = {'sel': 'r.' + rng.choice(['u', 'v']), 'sig': sg, 'allow': [], 'deny': []}
      if names:
        c['allow' if rng.random() < 0.5 else 'deny'] = rng.sample(names, rng.randint(1, len(names)))
      case['ops'].insert(rng.randint(0, len(case['ops'])), ['register', c])
    return case

  def check(self, ctx, regs_by_sel, own, m):
    return check_required(ctx, regs_by_sel, own, m)

  def nontrivial(self, ctx, regs_by_sel):
    sg = regs_by_sel[ctx['sel']]['sig']
    kinds = set()
    if any(a == ['req'] for a in ctx['args']):
      kinds.add('pos')
    if any(v == ['req'] for _, v in ctx['kwargs']):
      kinds.add('kw')
    if ['req'] in sg['defaults'] or any(d == ['req'] for _, d in sg['kwonly']):
      kinds.add('sig')
    bound = c01.overlay_spec(ctx['config'], ctx['scope'], ctx['sel'])
    return len(kinds) >= 2 and bool(bound)

  def impl(self, case):
    r = super().impl(case)
    # registration checks from the trace
    m = self._last
    for t in m.trace:
      if t['kind'] == 'register':
        c = t['op'][1]
        sg = c['sig']
        nd = len(sg['defaults'])
        dflt = {a: d for a, d in zip(sg['args'][len(sg['args']) - nd:], sg['defaults'])}
        dflt.update({n: d for n, d in sg['kwonly'] if d is not None})
        reqd = [p for p, d in dflt.items() if d == ['req']]
        bad = [p for p in reqd if p in c['deny'] or (c['allow'] and p not in c['allow'])]
        if bad and not t['before']['locked']:
          if t['exc'] != 'ValueError' or t['after']['registry'] != t['before']['registry']:
            r['fails'].append(('required-listed-registration-accepted',
                               'registering %r with REQUIRED %r denylisted/not allowlisted: outcome %r, registry %s' %
                               (c['sel'], bad, t['exc'],
                                'changed' if t['after']['registry'] != t['before']['registry'] else 'unchanged')))
    return r


class BoundCallableEngine(Engine):
  """configurables made (gin.external_configurable) from callables whose first parameter is already bound: a classmethod
  reached through its class, a method of an instance, an instance with __call__ — next to a staticmethod and a plain
  function with the same visible signature (a, b, c=<30|REQUIRED>, *, k=<40|REQUIRED>).  Every placement of markers among
  the positional and keyword arguments and the signature defaults, every subset of bindings.  The predicate is the
  property text on the signature the CALLER sees: a marked parameter receives its own binding (in its own position),
  unmarked arguments arrive unchanged, unfilled markers give a RuntimeError naming the configurable and exactly the
  unfilled names in signature order before the body runs, the marker never arrives.  Implementation only: the
  Gin-machine model has no pre-bound first parameter."""
  name = 'bound-callable'
  model = False
  KINDS = ('classmethod', 'boundmethod', 'instance', 'staticmethod', 'function')
  NAMES, KWONLY = ['a', 'b', 'c'], ['k']

  def budget(self, tier):
    return 150 if tier == 'quick' else 3000

  def corpus(self):
    out = []
    for kind in self.KINDS:
      out.append({'kind': kind, 'sigreq': [], 'args': [1, 'REQ'], 'kwargs': [], 'bound': [['a', 100]], 'scope': ''})
      out.append({'kind': kind, 'sigreq': [], 'args': ['REQ'], 'kwargs': [['b', 12]], 'bound': [['a', 100]], 'scope': 's'})
      out.append({'kind': kind, 'sigreq': ['c'], 'args': [1, 2, 3], 'kwargs': [], 'bound': [], 'scope': ''})
      out.append({'kind': kind, 'sigreq': ['c', 'k'], 'args': ['REQ', 2], 'kwargs': [['k', 'REQ']],
                  'bound': [['b', 101], ['k', 103]], 'scope': ''})
    return out

  def gen(self, rng, tier):
    names = self.NAMES
    args = [('REQ' if rng.random() < 0.4 else i + 1) for i in range(rng.randint(0, 3))]
    rest = names[len(args):] + self.KWONLY
    kwargs = [[n, 'REQ' if rng.random() < 0.4 else 11 + (names + self.KWONLY).index(n)]
              for n in rest if rng.random() < 0.35]
    bound = [[n, 100 + i] for i, n in enumerate(names + self.KWONLY) if rng.random() < 0.5]
    have = set(names[:len(args)]) | {n for n, _ in kwargs} | {n for n, _ in bound}
    for n in ('a', 'b'):          # keep the call legal Python: a parameter without default gets a value from somewhere
      if n not in have:
        bound.append([n, 100 + names.index(n)])
    return {'kind': rng.choice(self.KINDS), 'sigreq': [n for n in ('c', 'k') if rng.random() < 0.4],
            'args': args, 'kwargs': kwargs, 'bound': sorted(bound), 'scope': rng.choice(['', '', 's', 's/t'])}

  def shrink(self, case):
    for key in ('bound', 'kwargs', 'sigreq'):
      for i in range(len(case[key])):
        c = dict(case, **{key: case[key][:i] + case[key][i + 1:]})
        have = set(self.NAMES[:len(c['args'])]) | {n for n, _ in c['kwargs']} | {n for n, _ in c['bound']}
        if 'a' in have and 'b' in have:
          yield c
    if case['scope']:
      yield dict(case, scope='')

  @staticmethod
  def expected(case):
    """(missing names in signature order, or None; what the body must see) — from the property text alone."""
    names, kwonly = BoundCallableEngine.NAMES, BoundCallableEngine.KWONLY
    dflt = {'c': 'REQ' if 'c' in case['sigreq'] else 30, 'k': 'REQ' if 'k' in case['sigreq'] else 40}
    pos = dict(zip(names, case['args']))
    kw = dict((n, v) for n, v in case['kwargs'])
    bound = dict((n, v) for n, v in case['bound'])
    marked, env = [], {}
    for n in names + kwonly:
      given = pos.get(n, kw.get(n, '<none>'))
      if given == 'REQ' or (given == '<none>' and dflt.get(n) == 'REQ'):
        marked.append(n)
        env[n] = bound.get(n)
      elif given != '<none>':
        env[n] = given
      else:
        env[n] = bound.get(n, dflt.get(n))
    missing = [n for n in marked if n not in bound]
    return marked, missing, env

  def impl(self, case):
    gin = C.fresh_gin()
    REQ = gin.REQUIRED
    seen = []
    dc = REQ if 'c' in case['sigreq'] else 30
    dk = REQ if 'k' in case['sigreq'] else 40

    def body(a, b, c, k):
      seen.append({'a': a, 'b': b, 'c': c, 'k': k})
      return len(seen)

    class Holder(object):
      @classmethod
      def cm(cls, a, b, c=dc, *, k=dk):
        return body(a, b, c, k)

      def bm(self, a, b, c=dc, *, k=dk):
        return body(a, b, c, k)

      def __call__(self, a, b, c=dc, *, k=dk):
        return body(a, b, c, k)

      @staticmethod
      def sm(a, b, c=dc, *, k=dk):
        return body(a, b, c, k)

    def fn(a, b, c=dc, *, k=dk):
      return body(a, b, c, k)

    target = {'classmethod': Holder.cm, 'boundmethod': Holder().bm, 'instance': Holder(), 'staticmethod': Holder.sm,
              'function': fn}[case['kind']]
    w = gin.external_configurable(target, name='probe', module='c10mod')
    for n, v in case['bound']:
      gin.bind_parameter((case['scope'] + '/' if case['scope'] else '') + 'c10mod.probe.' + n, v)
    real = lambda v: REQ if v == 'REQ' else v
    marked, missing, env = self.expected(case)
    what = '%s probe(%s) with bindings %r in scope %r' % (
        case['kind'], ', '.join([repr(v) for v in case['args']] + ['%s=%r' % (n, v) for n, v in case['kwargs']]),
        case['bound'], case['scope'])
    fails = []
    try:
      with gin.config_scope(case['scope'] or None):
        w(*[real(v) for v in case['args']], **{n: real(v) for n, v in case['kwargs']})
      outcome = 'ok'
    except Exception as e:  # pylint: disable=broad-except
      outcome = '%s: %s' % (type(e).__name__, str(e).split('\n')[0][:160])
      err = e
    got = seen[-1] if seen else None
    if got is not None and any(v is REQ for v in got.values()):
      fails.append(('required-leaked', '%s: the body received the marker: %r' % (what, {k: ('REQ' if v is REQ else v) for k, v in got.items()})))
    if not marked:
      pass          # a call without any marker: what it receives is C01's subject, not C10's
    elif missing:
      if seen:
        fails.append(('body-ran-despite-missing', '%s: %r unfilled, yet the body ran' % (what, missing)))
      want = "Required bindings for `probe` not provided in config: %r" % (missing,)
      if not (outcome.startswith('RuntimeError') and str(err).split('\n')[0] == want):
        fails.append(('missing-required-report', '%s: marked %r, unfilled %r: expected RuntimeError %r, got %s' %
                      (what, marked, missing, want, outcome)))
    elif outcome != 'ok':
      kind = 'spurious-missing' if outcome.startswith('RuntimeError: Required bindings') else 'valid-call-raised'
      fails.append((kind, '%s: every marked parameter %r has a binding, yet %s' % (what, marked, outcome)))
    elif got != env:
      wrong = sorted(n for n in env if got.get(n) != env[n])
      kind = 'required-not-filled' if any(n in marked for n in wrong) else 'caller-arg-changed'
      fails.append((kind, '%s: marked %r; the body must see %r, it saw %r' % (what, marked, env, got)))
    nontrivial = case['kind'] in ('classmethod', 'boundmethod', 'instance') and bool(marked) and bool(case['bound'])
    tags = [case['kind'], 'missing' if missing else 'filled' if marked else 'unmarked']
    return {'obs': T('Done'), 'fails': fails[:3], 'nontrivial': nontrivial, 'tags': tags}


# CallEngine.impl keeps the machine for subclasses
_orig_impl = c01.CallEngine.impl


def _impl_keep(self, case):
  m = ginm.Machine()
  self._last = m
  obs = m.run(case)
  regs_by_sel = {c['sel']: c for c in case['regs']}
  for t in m.trace:
    if t['kind'] == 'register' and t['exc'] is None:
      regs_by_sel[t['op'][1]['sel']] = t['op'][1]
  fails, nontrivial, tags = [], False, []
  for ctx in m.calls:
    own = m.log[ctx['log_end'] - 1] if ctx['log_end'] > ctx['log_start'] else None
    if ctx['sel'] in regs_by_sel:
      fails += self.check(ctx, regs_by_sel, own, m)
      nontrivial = nontrivial or self.nontrivial(ctx, regs_by_sel)
    tags.append('depth%d' % len(ctx['scope']))
    tags.append('err:' + ctx['error'].split(':')[0] if 'error' in ctx else 'ok')
  return {'obs': obs, 'fails': fails[:3], 'nontrivial': nontrivial, 'tags': tags}


c01.CallEngine.impl = _impl_keep
ENGINES = [ReqEngine(), BoundCallableEngine()]
