"""C10 — REQUIRED parameters are filled from the config or the call fails cleanly."""
from harness import common as C
from harness import ginm
from harness.common import T
from harness.main import Engine
from harness.props import c01

PID = 'C10'
LEVEL = 'proof'
RULE = ('gin-machine/call with gin.REQUIRED markers: every subset of positional / keyword / signature-default / '
        '**kwargs-only names marked, random subsets of them bound over scopes of depth 0-2; plus registrations '
        'with signature-level REQUIRED on denylisted / non-allowlisted parameters. non-trivial = a call with >= 2 '
        'markers of different kinds of which a proper non-empty subset has an applicable binding.')
TRUSTED_BASE = c01.TRUSTED_BASE
ASSUMPTIONS = ['the names in the RuntimeError are parsed back from the message text (the property names them)',
               'bindings whose value is the %gin.REQUIRED constant itself are not generated here (see DESIGN.md F15)']


def contains_required(x):
  if isinstance(x, T):
    return x.tag == 'REQUIRED' or any(contains_required(a) for a in x.args)
  if isinstance(x, list):
    return any(contains_required(a) for a in x)
  return False


def check_required(ctx, regs_by_sel, own, m):
  c = regs_by_sel[ctx['sel']]
  sg = c['sig']
  args, kwargs = ctx['args'], dict((k, v) for k, v in ctx['kwargs'])
  names = sg['args']
  kwonly = [n for n, _ in sg['kwonly']]
  nd = len(sg['defaults'])
  dflt = {a: d for a, d in zip(names[len(names) - nd:], sg['defaults'])}
  dflt.update({n: d for n, d in sg['kwonly'] if d is not None})
  bound = c01.overlay_spec(ctx['config'], ctx['scope'], ctx['sel'])
  fails = []
  err = ctx.get('error')
  # the marker never reaches the function
  if own is not None and own[0] == ctx['sel'] and err is None:
    for p, v in own[2]:
      if contains_required(v):
        fails.append(('required-leaked', 'function %s received gin.REQUIRED for %r; args=%r kwargs=%r bound=%r' %
                      (ctx['sel'], p, args, ctx['kwargs'], bound)))
  if any(a == ['req'] for a in args[len(names):]):
    if err != 'ValueError':
      fails.append(('vararg-marker-accepted', 'REQUIRED passed as *args element: outcome %r' % (err,)))
    return fails
  if err == 'ValueError' and not any(c01.has_ref(v) for v in bound.values()):
    fails.append(('vararg-marker-misjudged', 'call %s args=%r kwargs=%r: no element of *args is the marker (a value whose __eq__ '
                  'answers True to everything is not the marker), yet the call was refused with ValueError' %
                  (ctx['sel'], args, ctx['kwargs'])))
    return fails
  pos_marked = [names[i] for i in range(min(len(args), len(names))) if args[i] == ['req']]
  pos_supplied = [names[i] for i in range(min(len(args), len(names))) if args[i] != ['req']]
  kw_marked = [k for k, v in ctx['kwargs'] if v == ['req']]
  sig_marked = [p for p in names + kwonly if dflt.get(p) == ['req']
                and p not in names[:len(args)] and p not in kwargs]
  marked = pos_marked + [k for k in kw_marked if k not in pos_marked] + \
      [p for p in sig_marked if p not in pos_marked and p not in kw_marked]
  if not marked:
    return fails
  missing = [p for p in marked if p not in bound]
  order = [p for p in names + kwonly if p in missing] + [p for p in missing if p not in names + kwonly]
  nested_ref = any(c01.has_ref(v) for v in bound.values())
  if missing:
    want = 'RuntimeError:' + ','.join(order)
    if err != want and not nested_ref:
      fails.append(('missing-required-report', 'call %s args=%r kwargs=%r scope=%r bound=%r: expected %r, got %r' %
                    (ctx['sel'], args, ctx['kwargs'], ctx['scope'], sorted(bound), want, err)))
    if own is not None and own[0] == ctx['sel'] and own[3] >= 0 and err is not None and ctx['log_end'] > ctx['log_start'] \
       and m.log[ctx['log_end'] - 1][0] == ctx['sel'] and not nested_ref:
      fails.append(('body-ran-despite-missing', 'function body ran although %r unfilled' % (missing,)))
    return fails
  # every marker has a binding: filled in place
  if err is not None and err.startswith('RuntimeError'):
    fails.append(('spurious-missing', 'all of %r are bound (%r) yet %r' % (marked, sorted(bound), err)))
    return fails
  if err is None and own is not None and own[0] == ctx['sel']:
    env = dict((k, v) for k, v in own[2])
    for p in marked:
      if p in names + kwonly and not c01.has_ref(bound[p]) and env.get(p, '<absent>') != bound[p]:
        fails.append(('required-not-filled', 'parameter %r marked REQUIRED, bound to %r, function saw %r' %
                      (p, bound[p], env.get(p, '<absent>'))))
    for i in range(min(len(args), len(names))):
      if args[i] != ['req'] and env.get(names[i]) != c01.canon_plain(args[i]):
        fails.append(('caller-arg-changed', 'positional %r: passed %r, function saw %r' %
                      (names[i], args[i], env.get(names[i]))))
  return fails


class ReqEngine(c01.CallEngine):
  name = 'gin-required'
  allow_req = True

  def gen_arg(self, rng):
    r = rng.random()
    if r < 0.3:
      return ['req']
    if r < 0.4:
      return ['obj', 'ANY']       # an argument whose __eq__ answers True to everything
    return ginm.gen_plain(rng, 1)

  def corpus(self):
    f = {'sel': 'm.f', 'sig': {'args': ['a', 'b', 'c'], 'defaults': [['req']], 'varargs': True,
                               'kwonly': [['k1', ['req']], ['k2', None]], 'varkw': True}, 'allow': [], 'deny': []}
    return [{'regs': [f], 'ops': [
        ['call', 'm.f', [['req'], ['i', 1]], [['k2', ['req']], ['z', ['req']]]],
        ['bind', 'f.a', ['i', 5]], ['bind', 's1/f.k2', ['i', 6]],
        ['call', 'm.f', [['req'], ['i', 1]], [['k2', ['req']], ['z', ['req']]]],
        ['with', 's1', [['call', 'm.f', [['req'], ['i', 1]], [['k2', ['req']]]],
                        ['bind', 'f.c', ['i', 7]], ['bind', 'f.k1', ['i', 8]],
                        ['call', 'm.f', [['req'], ['i', 1]], [['k2', ['req']]]],
                        ['call', 'm.f', [['req'], ['i', 1], ['i', 2], ['req']], []]]],
        ['dumpcalls']]},
            {'regs': [], 'ops': [
                ['register', {'sel': 'q.g', 'sig': {'args': ['a'], 'defaults': [['req']], 'varargs': False,
                                                    'kwonly': [], 'varkw': False}, 'allow': [], 'deny': ['a']}],
                ['register', {'sel': 'q.h', 'sig': {'args': ['a', 'b'], 'defaults': [['req'], ['i', 1]],
                                                    'varargs': False, 'kwonly': [], 'varkw': False},
                              'allow': ['b'], 'deny': []}],
                ['bind', 'g.a', ['i', 1]], ['bind', 'h.b', ['i', 1]], ['dumpconfig']]}]

  def gen(self, rng, tier):
    case = super().gen(rng, tier)
    if rng.random() < 0.25:
      # a registration that must be rejected (or accepted) because of signature-level REQUIRED vs lists
      sg = ginm.gen_sig(rng, True)
      names = ginm.sig_names(sg)
      c = {'sel': 'r.' + rng.choice(['u', 'v']), 'sig': sg, 'allow': [], 'deny': []}
      if names:
        c['allow' if rng.random() < 0.5 else 'deny'] = rng.sample(names, rng.randint(1, len(names)))
      case['ops'].insert(rng.randint(0, len(case['ops'])), ['register', c])
    return case

  def check(self, ctx, regs_by_sel, own, m):
    return check_required(ctx, regs_by_sel, own, m)

  def nontrivial(self, ctx, regs_by_sel):
    sg = regs_by_sel[ctx['sel']]['sig']
    kinds = set()
    if any(a == ['req'] for a in ctx['args']):
      kinds.add('pos')
    if any(v == ['req'] for _, v in ctx['kwargs']):
      kinds.add('kw')
    if ['req'] in sg['defaults'] or any(d == ['req'] for _, d in sg['kwonly']):
      kinds.add('sig')
    bound = c01.overlay_spec(ctx['config'], ctx['scope'], ctx['sel'])
    return len(kinds) >= 2 and bool(bound)

  def impl(self, case):
    r = super().impl(case)
    # registration checks from the trace
    m = self._last
    for t in m.trace:
      if t['kind'] == 'register':
        c = t['op'][1]
        sg = c['sig']
        nd = len(sg['defaults'])
        dflt = {a: d for a, d in zip(sg['args'][len(sg['args']) - nd:], sg['defaults'])}
        dflt.update({n: d for n, d in sg['kwonly'] if d is not None})
        reqd = [p for p, d in dflt.items() if d == ['req']]
        bad = [p for p in reqd if p in c['deny'] or (c['allow'] and p not in c['allow'])]
        if bad and not t['before']['locked']:
          if t['exc'] != 'ValueError' or t['after']['registry'] != t['before']['registry']:
            r['fails'].append(('required-listed-registration-accepted',
                               'registering %r with REQUIRED %r denylisted/not allowlisted: outcome %r, registry %s' %
                               (c['sel'], bad, t['exc'],
                                'changed' if t['after']['registry'] != t['before']['registry'] else 'unchanged')))
    return r


# CallEngine.impl keeps the machine for subclasses
_orig_impl = c01.CallEngine.impl


def _impl_keep(self, case):
  m = ginm.Machine()
  self._last = m
  obs = m.run(case)
  regs_by_sel = {c['sel']: c for c in case['regs']}
  for t in m.trace:
    if t['kind'] == 'register' and t['exc'] is None:
      regs_by_sel[t['op'][1]['sel']] = t['op'][1]
  fails, nontrivial, tags = [], False, []
  for ctx in m.calls:
    own = m.log[ctx['log_end'] - 1] if ctx['log_end'] > ctx['log_start'] else None
    if ctx['sel'] in regs_by_sel:
      fails += self.check(ctx, regs_by_sel, own, m)
      nontrivial = nontrivial or self.nontrivial(ctx, regs_by_sel)
    tags.append('depth%d' % len(ctx['scope']))
    tags.append('err:' + ctx['error'].split(':')[0] if 'error' in ctx else 'ok')
  return {'obs': obs, 'fails': fails[:3], 'nontrivial': nontrivial, 'tags': tags}


c01.CallEngine.impl = _impl_keep
ENGINES = [ReqEngine()]
