"""C04 — references deliver the configurable or a fresh result, in the right scope."""
import os

from harness import common as C
from harness import ginm
from harness.common import T
from harness.main import Engine
from harness.props import c01

PID = 'C04'
LEVEL = 'proof'
RULE = ('gin-machine/refs: 2-4 probe configurables; bindings whose values nest @q, @q(), @s/q(), @s1/s2/q up to depth 3 '
        'inside lists / tuples / dict values (acyclic by construction); ambient scope depth 0-2; every parameter '
        'overridden positionally / by keyword / not at all; 1-3 consecutive consumer calls; the probes MUTATE every '
        'container they receive; the store, queries and get_bindings are re-observed after each call. Independent '
        'predicate: the exact sequence of (configurable, scope) body executions predicted from the store snapshot by '
        'the rules of the property text, and store equality before/after each call. '
        'non-trivial = a consumer call whose Gin-supplied bindings contain >= 2 evaluated references of which one is '
        'scoped, or a caller override of a parameter bound to an evaluated reference. '
        'ref-shapes (implementation only): @make() alone / in a list / in a dict inside a tuple, scoped or not, bound to '
        'parameters of a consumer of every shape of c01.SHAPES (signature behind decorators, behind Gin\'s wrapper of a '
        'configurable base class, behind a bound self / cls), every split positional / keyword / omitted, two consecutive '
        'calls with mutation of what was received; expected runs of make (and their scopes) from the property text. '
        'ref-parse-modes (implementation only): references of scope depth 0-3 to a registered make (three selector spellings), '
        'evaluated and unevaluated, mixed inside lists / tuples / dict values, read through parse_config (string / lines), '
        'parse_config_file, parse_config_files_and_bindings and an include, with skip_unknown omitted / False / True / list / tuple '
        '/ set (the only unknown name, ghost, is bound in its own statements and / or referenced by a parameter the caller always '
        'supplies); per occurrence: a fresh result run under the written scope or else the ambient one (tag bound for that scope), '
        'an unevaluated reference is a callable that runs make under exactly the written scope whenever called; nothing else runs; '
        'mutation of everything received leaves query_parameter and config_str unchanged.')
TRUSTED_BASE = c01.TRUSTED_BASE
ASSUMPTIONS = ['copy.deepcopy on plain containers is CPython; handles are compared by the configurable they denote']


def refs_in(v):
  """evaluated/unevaluated references of a canonical bound value, in deepcopy traversal order"""
  if isinstance(v, T):
    if v.tag == 'Ref':
      yield v
    elif v.tag in ('L', 'T'):
      for a in v.args:
        yield from refs_in(a)
    elif v.tag == 'D':
      for k, x in v.args:
        # y[deepcopy(key)] = deepcopy(value): CPython evaluates the right-hand side, the VALUE, first
        yield from refs_in(x)
        yield from refs_in(k)


def expected_runs(store, regs_by_sel, sel, scope, skip_params, depth=0):
  """sequence of (selector, scope) body executions caused by one call of sel under scope"""
  if depth > 12 or sel not in regs_by_sel:
    raise RecursionError
  bound = c01.overlay_spec(store, scope, sel)
  out = []
  for p, v in bound.items():
    if p in skip_params:
      continue
    for r in refs_in(v):
      if r.args[2]:
        sc = list(r.args[0]) or scope
        out += expected_runs(store, regs_by_sel, r.args[1], sc, set(), depth + 1)
  out.append((sel, list(scope)))
  return out


class RefEngine(c01.CallEngine):
  name = 'gin-refs'

  def budget(self, tier):
    return 800 if tier == 'quick' else 25000

  def corpus(self):
    def fn(sel):
      return {'sel': sel, 'sig': {'args': ['a', 'b'], 'defaults': [['n'], ['n']], 'varargs': False, 'kwonly': [],
                                  'varkw': False}, 'allow': [], 'deny': []}
    regs = [fn('m.f'), fn('n.g'), fn('k')]
    return [{'regs': regs, 'ops': [
        ['pbind', 'f.a', ['ref', [], 'g', True]], ['call', 'm.f', [], []], ['call', 'm.f', [['i', 5]], []],
        ['call', 'm.f', [], [['a', ['i', 5]]]],            # F6: keyword override must not evaluate @g()
        ['pbind', 'f.b', ['l', [['ref', ['s1'], 'g', True], ['d', [[['s', 'x'], ['t', [['ref', [], 'k', False], ['ref', ['s1', 's2'], 'k', True]]]]]]]]],
        ['pbind', 's1/g.a', ['ref', [], 'k', True]],
        ['with', 's2', [['call', 'm.f', [], []], ['call', 'm.f', [], []]]],
        ['query', 'f.b'], ['getbindings', 'm.f', False, True], ['dumpconfig'], ['dumpcalls'], ['dumpoper']]}]

  def gen_value(self, rng, regs, targets=None, depth=2):
    r = rng.random()
    targets = targets or [c['sel'] for c in regs]
    if depth <= 0 or r < 0.25:
      return ginm.gen_plain(rng, 1)
    if r < 0.6 and targets:
      t = rng.choice(targets)
      sc = [rng.choice(ginm.SCOPES) for _ in range(rng.choice([0, 0, 1, 2]))]
      return ['ref', sc, rng.choice(ginm.spellings(t, regs)), rng.random() < 0.65]
    if r < 0.75:
      return ['l', [self.gen_value(rng, regs, targets, depth - 1) for _ in range(rng.randint(1, 3))]]
    if r < 0.87:
      return ['t', [self.gen_value(rng, regs, targets, depth - 1) for _ in range(rng.randint(1, 3))]]
    return ['d', [[['s', 'k%d' % i], self.gen_value(rng, regs, targets, depth - 1)] for i in range(rng.randint(1, 2))]]

  def gen(self, rng, tier):
    # (same short name in different modules: a scoped reference to one must never deliver the other)
    sels = rng.sample(['m.f', 'n.g', 'k', 'pkg.h', 'n.f', 'pkg.g', 'pkg.sub.f'], rng.randint(2, 5))
    regs = []
    for sel in sels:
      n = rng.randint(1, 3)
      regs.append({'sel': sel, 'sig': {'args': ginm.PARAMS[:n], 'defaults': [['n']] * n, 'varargs': False,
                                      'kwonly': [['k1', ['n']]] if rng.random() < 0.3 else [], 'varkw': False},
                   'allow': [], 'deny': []})
    ops = []
    for i, c in enumerate(regs):
      later = [x['sel'] for x in regs[i + 1:]]
      for _ in range(rng.randint(0, 3)):
        p = rng.choice(ginm.sig_names(c['sig']))
        sc = ginm.gen_scope(rng, 2)
        v = self.gen_value(rng, regs, later, 3) if later else ginm.gen_plain(rng, 2)
        key = '/'.join(sc + [rng.choice(ginm.spellings(c['sel'], regs)) + '.' + p])
        ops.append(['pbind', key, v] if ginm.textable(v) else ['bind', key, v])
    rng.shuffle(ops)
    if rng.random() < 0.3:
      # a constant with a mutable value, delivered through %NAME (alone or inside a container) to the MUTATING probes
      cname = rng.choice(['lib.KST', 'KST', 'pkg.lib.KST'])
      cval = rng.choice([['l', [['i', 1], ['i', 2]]], ['d', [[['s', 'k'], ['l', [['i', 1]]]]]], ['l', [['l', []]]], ['t', [['l', [['i', 3]]]]]])
      ops.insert(0, ['constant', cname, cval])
      for _ in range(rng.randint(1, 2)):
        c = rng.choice(regs)
        p = rng.choice(ginm.sig_names(c['sig']))
        v = ['macro', 'KST'] if rng.random() < 0.6 else ['l', [['macro', 'KST'], ['i', 0]]]
        ops.append(['pbind', '/'.join(ginm.gen_scope(rng, 1) + [c['sel'] + '.' + p]), v])
    active = ginm.gen_scope(rng, 2)
    body = []
    for _ in range(rng.randint(1, 3)):
      c = regs[0] if rng.random() < 0.7 else rng.choice(regs)
      body.append(self.gen_call(rng, c))
      if rng.random() < 0.4:
        p = rng.choice(ginm.sig_names(c['sig']))
        body.append(['query', c['sel'] + '.' + p])
      if rng.random() < 0.3:
        body.append(['getbindings', c['sel'], rng.random() < 0.5, True])
    for s in reversed(active):
      body = [['with', s, body]]
    ops += body + [['dumpconfig'], ['dumpcalls'], ['dumpoper']]
    return {'regs': regs, 'ops': ops}

  def gen_arg(self, rng):
    return ginm.gen_plain(rng, 0)

  def check(self, ctx, regs_by_sel, own, m):
    fails = []
    sg = regs_by_sel[ctx['sel']]['sig']
    supplied = set(sg['args'][:len(ctx['args'])]) | {k for k, _ in ctx['kwargs']}
    try:
      want = expected_runs(ctx['config'], regs_by_sel, ctx['sel'], ctx['scope'], supplied)
    except RecursionError:
      return []
    got = [(e[0], e[1]) for e in m.log[ctx['log_start']:ctx['log_end']]]
    if 'error' in ctx:
      return []
    if got != want:
      kind = 'reference-evaluation-sequence'
      if len(got) > len(want) and any(p in supplied for p in c01.overlay_spec(ctx['config'], ctx['scope'], ctx['sel'])):
        kind = 'overridden-reference-still-called'
      fails.append((kind, 'call %s args=%r kwargs=%r under %r: bodies ran as %r; the property requires %r (store %r)' %
                    (ctx['sel'], ctx['args'], ctx['kwargs'], ctx['scope'], got, want, ctx['config'])))
    if ctx['config_after'] != ctx['config']:
      fails.append(('store-changed-by-call', 'store before %r after %r' % (ctx['config'], ctx['config_after'])))
    # delivered values: unevaluated references arrive as the configurable, evaluated ones as fresh results
    if own is not None and not fails:
      env = dict((k, v) for k, v in own[2])
      bound = c01.overlay_spec(ctx['config'], ctx['scope'], ctx['sel'])
      seen = []

      def shape(v, d):
        if isinstance(v, T) and v.tag == 'Ref':
          if v.args[2]:
            ok = isinstance(d, T) and d.tag == 'Ret' and d.args[0] == v.args[1]
            if ok:
              seen.append(d.args[1])
            return ok
          return d == T('H', v.args[1])
        if isinstance(v, T) and v.tag in ('L', 'T', 'D'):
          return isinstance(d, T) and d.tag == v.tag and len(d.args) == len(v.args) and \
              all(shape(a, b) for a, b in zip(v.args, d.args))
        if isinstance(v, list):
          return isinstance(d, list) and len(v) == len(d) and all(shape(a, b) for a, b in zip(v, d))
        return v == d
      for p, v in bound.items():
        if p in supplied or p not in env:
          continue
        if not shape(v, env[p]):
          fails.append(('wrong-delivery', 'parameter %r bound to %r was delivered as %r' % (p, v, env[p])))
      if len(set(seen)) != len(seen):
        fails.append(('result-not-fresh', 'two evaluated references received the same call result %r' % (seen,)))
    return fails

  def nontrivial(self, ctx, regs_by_sel):
    bound = c01.overlay_spec(ctx['config'], ctx['scope'], ctx['sel'])
    ev = [r for v in bound.values() for r in refs_in(v) if r.args[2]]
    sg = regs_by_sel[ctx['sel']]['sig']
    supplied = set(sg['args'][:len(ctx['args'])]) | {k for k, _ in ctx['kwargs']}
    over = any(p in supplied and any(r.args[2] for r in refs_in(v)) for p, v in bound.items())
    return (len(ev) >= 2 and any(r.args[0] for r in ev)) or over


class RefShapesEngine(Engine):
  """'@make()' (alone, in a list, in a dict inside a tuple) bound to parameters of a consumer whose signature Gin has to look
  for (c01.SHAPES: under functools.wraps decorators, behind Gin's own wrapper of a configurable base class, behind a bound
  self / cls, behind the metaclass wrapper).  From the property text: make runs once per occurrence in the bindings of the
  parameters the caller does NOT supply (positionally or by keyword) and not at all for those it supplies; the caller's values
  arrive unchanged, every evaluated reference delivers its own fresh result, under the scope written in the reference or else
  the scope active at the consuming call.  Implementation only (the model is given the signature)."""
  name = 'ref-shapes'
  model = False
  FORMS = {'bare': ('@%smake()', 1), 'list': ('[@%smake(), 1]', 1), 'nested': ("({'k': [@%smake()]}, @%smake())", 2)}

  def budget(self, tier):
    return 120 if tier == 'quick' else 3000

  def corpus(self):
    out = []
    for shape in c01.SHAPES:
      for npos, kw in ((1, []), (0, ['a']), (2, []), (0, [])):
        out.append({'shape': shape, 'params': ['a', 'b'], 'active': ['s1'], 'npos': npos, 'kw': kw,
                    'binds': [['a', 'list', ''], ['b', 'bare', 's2']]})
    return out

  def gen(self, rng, tier):
    params = list(rng.choice([['a', 'b', 'c'], ['a', 'b'], ['x']]))
    npos = rng.randint(0, len(params))
    return {'shape': rng.choice(c01.SHAPES), 'params': params, 'active': ginm.gen_scope(rng, 2), 'npos': npos,
            'kw': [p for p in params[npos:] if rng.random() < 0.35],
            'binds': [[p, rng.choice(sorted(self.FORMS)), rng.choice(['', '', 's2', 's1/s3'])] for p in params if rng.random() < 0.8]}

  def impl(self, case):
    gin = C.fresh_gin()
    runs = []

    def make():
      runs.append(gin.current_scope_str())
      return ['result', len(runs)]
    gin.configurable('make', module=c01.SHAPE_MODULE)(make)
    call = c01.build_shape(gin, case['shape'], case['params'])
    text = ''
    for p, form, rs in case['binds']:
      tmpl, n = self.FORMS[form]
      text += 'probe.%s = %s\n' % (p, tmpl % ((rs + '/' if rs else '',) * n))
    gin.parse_config(text)
    before = gin.config_str()
    args = ['pos:%d' % i for i in range(case['npos'])]
    kwargs = {p: 'kw:' + p for p in case['kw']}
    supplied = set(case['params'][:case['npos']]) | set(case['kw'])
    ambient = '/'.join(case['active'])
    want_runs = []
    for p, form, rs in case['binds']:
      if p not in supplied:
        want_runs += [rs or ambient] * self.FORMS[form][1]
    what = '%s probe(%s) with %r called with args=%r kwargs=%r under scope %r' % (
        case['shape'], ', '.join(case['params']), text, args, kwargs, ambient)
    fails = []
    for nth in (1, 2):                 # twice: a fresh result each time the consumer is called
      del runs[:]
      try:
        with gin.config_scope(list(case['active']) or None):
          got = call(*args, **kwargs)
      except Exception as e:  # pylint: disable=broad-except
        got = None
        err = '%s: %s' % (type(e).__name__, str(e).splitlines()[0][:140])
      if runs != want_runs and any(p in supplied for p, _, _ in case['binds']) and len(runs) > len(want_runs):
        fails.append(('overridden-reference-still-called', '%s (call %d): make ran under scopes %r although the caller supplies %r; '
                      'the property requires runs %r%s' % (what, nth, runs, sorted(supplied), want_runs,
                                                          '' if got is not None else '; the call then raised ' + err)))
      elif got is None:
        fails.append(('consumer-call-raised', '%s (call %d) raised %s' % (what, nth, err)))
      elif runs != want_runs:
        fails.append(('reference-evaluation-sequence', '%s (call %d): make ran under scopes %r, the property requires %r' %
                      (what, nth, runs, want_runs)))
      if got is not None:
        for i, p in enumerate(case['params']):
          if p in supplied and got[p] != ('pos:%d' % i if i < case['npos'] else 'kw:' + p):
            fails.append(('caller-value-not-delivered', '%s: %r received %r' % (what, p, got[p])))
        # the consumer mutates what it received: the next call, and the config string, must not see it
        for p, _, _ in case['binds']:
          v = got.get(p)
          while isinstance(v, (list, tuple, dict)) and v:
            inner = v[0] if not isinstance(v, dict) else v['k']
            if isinstance(v, list):
              v.append('mutated')
            v = inner
      if gin.config_str() != before:
        fails.append(('store-changed-by-call', '%s: config_str changed from %r to %r' % (what, before, gin.config_str())))
      if fails:
        break
    nontrivial = case['shape'] != 'fn' and any(p in supplied for p, _, _ in case['binds'])
    return {'obs': T('Done'), 'fails': fails[:3], 'nontrivial': nontrivial, 'tags': [case['shape']]}


E, H = '<E>', '<H>'         # an evaluated reference '@…make()' / an unevaluated one '@…make' inside a form


class RefParseEngine(Engine):
  """The same references, reaching the store through every way of PARSING a config.  The property quantifies over binding
  values, not over how the text was read: '@s1/s3/make()' written in a string, a list of lines, a file, a file plus a list of
  bindings or an included file, parsed with skip_unknown omitted / False / True / a list, tuple or set of names (skip_unknown
  only concerns names nobody registered: here `ghost`, bound in a statement of its own and / or referenced by a parameter the
  caller always supplies), is a reference to the REGISTERED configurable make and must be delivered like any other.
  Reference scopes of depth 0-3, the selector spelled `make`, `refmod.make` or `pkg.refmod.make`, evaluated and unevaluated
  references mixed inside lists / tuples / dict values; make.tag bound under some of the scopes.
  From the property text: every evaluated occurrence in the binding of a parameter the caller does not supply is delivered as
  its own fresh result of make, run under the scope written in the reference or else the scope active at the consuming call
  (and so with the tag bound for that scope); every unevaluated occurrence is delivered as a callable that has not run and
  that, whenever called later, runs make under exactly the written scope (unscoped: it is the configurable itself and runs
  under whatever scope is active then); nothing else runs; supplied parameters arrive unchanged and their references do not
  run; mutation of everything received changes neither the next call nor query_parameter nor config_str.
  Implementation only (the model's input language has statements, not parse entry points)."""
  name = 'ref-parse-modes'
  model = False
  FORMS = {
      'bare': E,
      'handle': H,
      'list': [E, 1],
      'nested': ({'k': [E]}, E),
      'mixed': {'k': (E, [H]), 'j': [E]},
      'handles': [H, (H,)],
  }
  REF_SCOPES = ['', 's2', 's1/s3', 's2/s1', 's1/s3/s2', 's3/s3']
  SPELLINGS = ['make', 'refmod.make', 'pkg.refmod.make']
  ENTRIES = ['string', 'lines', 'file', 'files_bindings', 'include']
  SKIPS = [None, False, True, ['list', ['ghost']], ['tuple', ['ghost', 'make']], ['set', ['ghost', 'pkg.refmod.make']],
           ['list', []]]

  def budget(self, tier):
    return 150 if tier == 'quick' else 4000

  def corpus(self):
    out = []
    for skip, ghost in ((True, ['stmt']), (True, []), (['list', ['ghost']], ['stmt', 'ref']), (None, []), (False, [])):
      for entry in ('string', 'file', 'include'):
        out.append({'entry': entry, 'skip': skip, 'ghost': ghost, 'spelling': 'make', 'params': ['a', 'b', 'c'],
                    'active': ['s9'], 'npos': 0, 'kw': [], 'tags': ['s1', 's1/s3', 's2'],
                    'binds': [['a', 'list', 's2'], ['b', 'mixed', 's1/s3'], ['c', 'handle', 's1/s3/s2']]})
    out.append({'entry': 'files_bindings', 'skip': True, 'ghost': ['stmt', 'ref'], 'spelling': 'pkg.refmod.make',
                'params': ['a', 'b'], 'active': [], 'npos': 1, 'kw': [], 'tags': ['s2/s1'],
                'binds': [['a', 'bare', 's1/s3'], ['b', 'nested', 's2/s1']]})
    out.append({'entry': 'lines', 'skip': ['set', ['ghost', 'pkg.refmod.make']], 'ghost': ['ref'], 'spelling': 'refmod.make',
                'params': ['a', 'b'], 'active': ['s1', 's2'], 'npos': 0, 'kw': ['b'], 'tags': [''],
                'binds': [['a', 'handles', 's3/s3'], ['b', 'bare', 's1/s3/s2']]})
    return out

  def gen(self, rng, tier):
    params = list(rng.choice([['a', 'b', 'c'], ['a', 'b'], ['x']]))
    npos = rng.choice([0, 0, 1, len(params)])
    skip = rng.choice(self.SKIPS)
    covers = skip is True or (isinstance(skip, list) and 'ghost' in skip[1])
    return {'entry': rng.choice(self.ENTRIES), 'skip': skip,
            'ghost': [g for g in ('stmt', 'ref') if covers and rng.random() < 0.6],
            'spelling': rng.choice(self.SPELLINGS), 'params': params, 'active': ginm.gen_scope(rng, 2), 'npos': npos,
            'kw': [p for p in params[npos:] if rng.random() < 0.25],
            'tags': sorted(set(rng.choice(['', 's1', 's2', 's1/s3', 's2/s1', 's1/s3/s2', 's3']) for _ in range(rng.randint(0, 3)))),
            'binds': [[p, rng.choice(sorted(self.FORMS)), rng.choice(self.REF_SCOPES)] for p in params if rng.random() < 0.85]}

  def shrink(self, case):
    def but(**kw):
      c = dict(case)
      c.update(kw)
      return c
    for i in range(len(case['binds'])):
      yield but(binds=case['binds'][:i] + case['binds'][i + 1:])
    for i in range(len(case['tags'])):
      yield but(tags=case['tags'][:i] + case['tags'][i + 1:])
    for i in range(len(case['ghost'])):
      yield but(ghost=case['ghost'][:i] + case['ghost'][i + 1:])
    if case['entry'] != 'string':
      yield but(entry='string')
    if case['active']:
      yield but(active=case['active'][1:])
    if case['kw']:
      yield but(kw=case['kw'][1:])
    if case['npos']:
      yield but(npos=case['npos'] - 1)
    if case['spelling'] != 'make':
      yield but(spelling='make')
    for i, (p, form, rs) in enumerate(case['binds']):
      for f2 in ('bare', 'handle'):
        if form not in ('bare', 'handle'):
          yield but(binds=case['binds'][:i] + [[p, f2, rs]] + case['binds'][i + 1:])
      if rs.count('/') > 1:
        yield but(binds=case['binds'][:i] + [[p, form, rs.split('/', 1)[1]]] + case['binds'][i + 1:])

  @classmethod
  def render(cls, v, ref):
    if v == E:
      return '@%s()' % ref
    if v == H:
      return '@%s' % ref
    if isinstance(v, list):
      return '[%s]' % ', '.join(cls.render(x, ref) for x in v)
    if isinstance(v, tuple):
      return '(%s,)' % ', '.join(cls.render(x, ref) for x in v)
    if isinstance(v, dict):
      return '{%s}' % ', '.join('%r: %s' % (k, cls.render(x, ref)) for k, x in v.items())
    return repr(v)

  @classmethod
  def occurrences(cls, v, which):
    if v == which:
      yield v
    elif isinstance(v, (list, tuple)):
      for x in v:
        yield from cls.occurrences(x, which)
    elif isinstance(v, dict):
      for x in v.values():
        yield from cls.occurrences(x, which)

  def impl(self, case):
    import shutil
    import tempfile
    gin = C.fresh_gin()
    runs = []

    class Res(object):
      def __init__(self, scope, tag):
        self.scope, self.tag, self.marks = scope, tag, []

      def __repr__(self):
        return 'Res(scope=%r, tag=%r)' % (self.scope, self.tag)

    def make(tag='untagged'):
      r = Res(gin.current_scope_str(), tag)
      runs.append(r)
      return r
    make_cfg = gin.configurable('make', module='pkg.refmod')(make)
    params = case['params'] + ['z']
    ns = {}
    exec('def consumer(%s):\n  return dict(%s)\n' % (', '.join('%s="unset"' % p for p in params),      # pylint: disable=exec-used
                                                    ', '.join('%s=%s' % (p, p) for p in params)), ns)
    call = gin.configurable('consumer', module='pkg.usermod')(ns['consumer'])

    def ref_text(rs):
      return (rs + '/' if rs else '') + case['spelling']

    def want_tag(scope):
      parts = scope.split('/') if scope else []
      for n in range(len(parts), -1, -1):       # the most specific enclosing scope that binds make.tag
        if '/'.join(parts[:n]) in case['tags']:
          return 'T:' + '/'.join(parts[:n])
      return 'untagged'

    tag_lines = ['%smake.tag = %r' % (t + '/' if t else '', 'T:' + t) for t in case['tags']]
    ghost_lines = ['ghost.learning_rate = 0.1', 's1/ghost.decay = [1, 2]'] if 'stmt' in case['ghost'] else []
    bind_lines = ['consumer.%s = %s' % (p, self.render(self.FORMS[form], ref_text(rs))) for p, form, rs in case['binds']]
    if 'ref' in case['ghost']:
      bind_lines.append("consumer.z = [@s1/s3/ghost(), {'k': @ghost}]")
    kw = {}
    sk = case['skip']
    if sk is not None:
      kw['skip_unknown'] = sk if isinstance(sk, bool) else {'list': list, 'tuple': tuple, 'set': set}[sk[0]](sk[1])
    text = '\n'.join(ghost_lines[:1] + tag_lines + ghost_lines[1:] + bind_lines) + '\n'
    what = 'entry=%s skip_unknown=%r text %r' % (case['entry'], sk, text)
    tmp = None
    try:
      try:
        if case['entry'] == 'string':
          gin.parse_config(text, **kw)
        elif case['entry'] == 'lines':
          gin.parse_config(text.splitlines(), **kw)
        else:
          tmp = tempfile.mkdtemp(prefix='ginverif_c04_')
          path = os.path.join(tmp, 'refs.gin')
          if case['entry'] == 'file':
            with open(path, 'w') as f:
              f.write(text)
            gin.parse_config_file(path, **kw)
          elif case['entry'] == 'files_bindings':
            with open(path, 'w') as f:
              f.write('\n'.join(ghost_lines[:1] + tag_lines) + '\n')
            gin.parse_config_files_and_bindings([path], ghost_lines[1:] + bind_lines, finalize_config=False, **kw)
          else:
            with open(path, 'w') as f:
              f.write(text)
            outer = os.path.join(tmp, 'outer.gin')
            with open(outer, 'w') as f:
              f.write('include %r\n' % path)
            gin.parse_config_file(outer, **kw)
      except Exception as e:  # pylint: disable=broad-except
        return {'obs': T('Done'), 'nontrivial': False, 'tags': [case['entry']],
                'fails': [('parse-of-known-references-raised', '%s: every name but ghost is registered and skip_unknown covers '
                           'ghost, yet parsing raised %s: %s' % (what, type(e).__name__, str(e).splitlines()[0][:200]))]}
    finally:
      if tmp:
        shutil.rmtree(tmp, ignore_errors=True)

    def snapshot():
      return (gin.config_str(), [repr(gin.query_parameter('consumer.' + p)) for p, _, _ in case['binds']])
    before = snapshot()
    args = ['pos:%d' % i for i in range(case['npos'])]
    kwargs = {p: 'kw:' + p for p in case['kw']}
    kwargs['z'] = 'kw:z'            # z (possibly bound to references to the unknown ghost) is always supplied by the caller
    supplied = set(case['params'][:case['npos']]) | set(kwargs)
    ambient = '/'.join(case['active'])
    what += ' consumer called with args=%r kwargs=%r under scope %r' % (args, kwargs, ambient)
    fails = []

    def match(form, d, rs, path, results, handles):
      """delivery shape; collects the delivered results / handles with the scope their occurrence was written with"""
      if form == E:
        if not isinstance(d, Res):
          return '%s: an evaluated reference was delivered as %r' % (path, d)
        results.append((d, rs, path))
      elif form == H:
        if isinstance(d, Res) or not callable(d):
          return '%s: an unevaluated reference was delivered as %r' % (path, d)
        handles.append((d, rs, path))
      elif isinstance(form, (list, tuple)):
        if type(d) is not type(form) or len(d) != len(form):
          return '%s: %r was delivered as %r' % (path, form, d)
        for i, (f, x) in enumerate(zip(form, d)):
          m = match(f, x, rs, '%s[%d]' % (path, i), results, handles)
          if m:
            return m
      elif isinstance(form, dict):
        if type(d) is not dict or list(d) != list(form):
          return '%s: %r was delivered as %r' % (path, form, d)
        for k in form:
          m = match(form[k], d[k], rs, '%s[%r]' % (path, k), results, handles)
          if m:
            return m
      elif d != form or type(d) is not type(form):
        return '%s: %r was delivered as %r' % (path, form, d)
      return None

    def scribble(d):
      if isinstance(d, Res):
        d.marks.append('mutated')
      elif isinstance(d, (list, tuple)):
        for x in d:
          scribble(x)
        if isinstance(d, list):
          d.append('mutated')
          d[0] = 'mutated'
      elif isinstance(d, dict):
        for x in list(d.values()):
          scribble(x)
        d.clear()
        d['mutated'] = True

    all_results = []
    for nth in (1, 2):                 # twice: a fresh result each time the consumer is called
      del runs[:]
      try:
        with gin.config_scope(list(case['active']) or None):
          got = call(*args, **kwargs)
      except Exception as e:  # pylint: disable=broad-except
        fails.append(('consumer-call-raised', '%s (call %d) raised %s: %s' % (
            what, nth, type(e).__name__, str(e).splitlines()[0][:200])))
        break
      during = list(runs)
      results, handles = [], []
      for i, p in enumerate(params):
        if p in supplied:
          want = 'pos:%d' % i if i < case['npos'] else 'kw:' + p
          if got[p] != want:
            fails.append(('caller-value-not-delivered', '%s: %r received %r' % (what, p, got[p])))
      for p, form, rs in case['binds']:
        if p in supplied:
          continue
        m = match(self.FORMS[form], got[p], rs, p, results, handles)
        if m:
          fails.append(('wrong-delivery', '%s (call %d): %s' % (what, nth, m)))
      if fails:
        break
      # every evaluated occurrence: its own result, of a run made during THIS call, under the written scope or else the ambient
      if len(set(id(r) for r, _, _ in results)) != len(results) or any(r is o for r, _, _ in results for o in all_results):
        fails.append(('result-not-fresh', '%s (call %d): two evaluated references received the same result object: %r' %
                      (what, nth, [(path, r) for r, _, path in results])))
      for r, rs, path in results:
        ws = rs or ambient
        if (r.scope, r.tag) != (ws, want_tag(ws)) or r.marks:
          fails.append(('reference-run-in-wrong-scope', '%s (call %d): %s received %r%s; the property requires a fresh result of '
                        'make run under scope %r (tag %r)' % (what, nth, path, r, ' already mutated' if r.marks else '', ws, want_tag(ws))))
      if sorted(id(r) for r in during) != sorted(id(r) for r, _, _ in results):
        kind = 'overridden-reference-still-called' if len(during) > len(results) and any(p in supplied for p, _, _ in case['binds']) \
            else 'reference-evaluation-sequence'
        fails.append((kind, '%s (call %d): make ran %r, but the evaluated references of the parameters the caller did not supply '
                      '(%r) are %r' % (what, nth, during, sorted(supplied), [path for _, _, path in results])))
      all_results += [r for r, _, _ in results]
      # every unevaluated occurrence: a callable which, whenever called, runs make once under exactly the written scope
      for h, rs, path in handles:
        if not rs and h is not make_cfg:
          fails.append(('wrong-delivery', '%s (call %d): %s is bound to the unscoped @%s and received %r, not the configurable '
                        'itself' % (what, nth, path, case['spelling'], h)))
          continue
        for later in ('', 'late/r'):
          del runs[:]
          try:
            with gin.config_scope(later or None):
              r = h()
          except Exception as e:  # pylint: disable=broad-except
            fails.append(('delivered-configurable-raised', '%s (call %d): calling what %s received under scope %r raised %s: %s' %
                          (what, nth, path, later, type(e).__name__, str(e).splitlines()[0][:200])))
            break
          ws = rs or later
          if not isinstance(r, Res) or len(runs) != 1 or runs[0] is not r or (r.scope, r.tag) != (ws, want_tag(ws)):
            fails.append(('reference-run-in-wrong-scope', '%s (call %d): calling what %s received under scope %r returned %r '
                          '(runs %r); the property requires one run of make under %r (tag %r)' %
                          (what, nth, path, later, r, runs, ws, want_tag(ws))))
      # the consumer scribbles on everything it received
      for p, _, _ in case['binds']:
        if p not in supplied:
          scribble(got[p])
      after = snapshot()
      if after != before:
        fails.append(('store-changed-by-call', '%s: config_str / query_parameter changed from %r to %r' % (what, before, after)))
      if fails:
        break
    live = [(form, rs) for p, form, rs in case['binds'] if p not in supplied]
    nontrivial = (bool(kw.get('skip_unknown')) or case['entry'] != 'string') and any(rs for _, rs in live)
    return {'obs': T('Done'), 'fails': fails[:3], 'nontrivial': nontrivial,
            'tags': [case['entry'], 'skip=%s' % (sk if isinstance(sk, bool) or sk is None else sk[0]),
                     'depth%d' % max([0] + [len(rs.split('/')) for _, rs in live if rs])]}


ENGINES = [RefEngine(), RefShapesEngine(), RefParseEngine()]
