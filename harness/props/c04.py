"""C04 — references deliver the configurable or a fresh result, in the right scope."""
import os

from harness import common as C
from harness import ginm
from harness.common import T
from harness.main import Engine
from harness.props import c01

PID = 'C04'
LEVEL = 'proof'
RULE = ('gin-machine/refs: 2-4 probe configurables; bindings whose values nest @q, @q(), @s/q(), @s1/s2/q up to depth 3 '
        'inside lists / tuples / dict values and as dict KEYS (2-3 keys referencing one configurable under different scopes, now and '
        'then with the other evaluate flag or another configurable; acyclic by construction); ambient scope depth 0-2; every parameter '
        'overridden positionally / by keyword / not at all; 1-3 consecutive consumer calls; the probes MUTATE every '
        'container they receive; the store, queries and get_bindings are re-observed after each call. Independent '
        'predicate: the exact sequence of (configurable, scope) body executions predicted from the store snapshot by '
        'the rules of the property text, and store equality before/after each call; after a binding whose value holds a dict '
        'literal with reference keys the store holds what the TEXT denotes (every written reference an entry of its own). '
        'non-trivial = a consumer call whose Gin-supplied bindings contain >= 2 evaluated references of which one is '
        'scoped, or a caller override of a parameter bound to an evaluated reference. '
        'ref-shapes (implementation only): @make() alone / in a list / in a dict inside a tuple, scoped or not, bound to '
        'parameters of a consumer of every shape of c01.SHAPES (signature behind decorators, behind Gin\'s wrapper of a '
        'configurable base class, behind a bound self / cls), every split positional / keyword / omitted, two consecutive '
        'calls with mutation of what was received; expected runs of make (and their scopes) from the property text. '
        'ref-parse-modes (implementation only): references of scope depth 0-3 to a registered make (three selector spellings), '
        'evaluated and unevaluated, mixed inside lists / tuples / dict values, read through parse_config (string / lines), '
        'parse_config_file, parse_config_files_and_bindings and an include, with skip_unknown omitted / False / True / list / tuple '
        '/ set (the only unknown name, ghost, is bound in its own statements and / or referenced by a parameter the caller always '
        'supplies); per occurrence: a fresh result run under the written scope or else the ambient one (tag bound for that scope), '
        'an unevaluated reference is a callable that runs make under exactly the written scope whenever called; nothing else runs; '
        'mutation of everything received leaves query_parameter and config_str unchanged. '
        'ref-dict-keys (implementation only): dict literals (top level or up to 3 containers deep) whose KEYS are pairwise different '
        'references -- one configurable under 2-4 different scopes, evaluated / unevaluated, %macros (plain or reference-valued), '
        '%constants (strings, tuples, enum members; short and full spellings), tuple keys holding a reference, a second configurable, '
        'plain keys -- with such trees as values; three selector spellings, ambient scope depth 0-2, tags per scope, caller overrides; '
        'per written occurrence (key or value): its own fresh result under the written scope or else the ambient one, macro / constant '
        'value, or a callable that runs under exactly the written scope; as many entries as keys were written, in order; nothing else '
        'runs; two calls with mutation of everything received; non-trivial = a live dict with >= 2 keys that reference one configurable '
        'and differ only in scope.')
TRUSTED_BASE = c01.TRUSTED_BASE
ASSUMPTIONS = ['copy.deepcopy on plain containers is CPython; handles are compared by the configurable they denote']


def refs_in(v):
  """evaluated/unevaluated references of a canonical bound value, in deepcopy traversal order"""
  if isinstance(v, T):
    if v.tag == 'Ref':
      yield v
    elif v.tag in ('L', 'T'):
      for a in v.args:
        yield from refs_in(a)
    elif v.tag == 'D':
      for k, x in v.args:
        # y[deepcopy(key)] = deepcopy(value): CPython evaluates the right-hand side, the VALUE, first
        yield from refs_in(x)
        yield from refs_in(k)


def expected_runs(store, regs_by_sel, sel, scope, skip_params, depth=0):
  """sequence of (selector, scope) body executions caused by one call of sel under scope"""
  if depth > 12 or sel not in regs_by_sel:
    raise RecursionError
  bound = c01.overlay_spec(store, scope, sel)
  out = []
  for p, v in bound.items():
    if p in skip_params:
      continue
    for r in refs_in(v):
      if r.args[2]:
        sc = list(r.args[0]) or scope
        out += expected_runs(store, regs_by_sel, r.args[1], sc, set(), depth + 1)
  out.append((sel, list(scope)))
  return out


def refkey_dicts(v):
  """the dict literals inside a written value that have a reference among their keys"""
  if v[0] in ('l', 't'):
    for x in v[1]:
      yield from refkey_dicts(x)
  elif v[0] == 'd':
    if any(k[0] == 'ref' for k, _ in v[1]):
      yield v
    for k, x in v[1]:
      yield from refkey_dicts(k)
      yield from refkey_dicts(x)


def written_value(v, sels):
  """what a WRITTEN value denotes, from its text alone: every reference is the reference that was written -- its scopes, the one
  registered configurable its selector names, its evaluate flag -- and a dict literal has one entry per distinct key that was
  written (two references are the same key only if all three agree; dict literals with other keys than references and strings,
  and %names, are left to the other predicates: None)."""
  t = v[0]
  if t == 'ref':
    m = [x for x in sels if x == v[2]] or [x for x in sels if x.endswith('.' + v[2])]
    if len(m) != 1:
      raise LookupError(v[2])
    return T('Ref', list(v[1]), m[0], bool(v[3]))
  if t in ('l', 't'):
    return T('L' if t == 'l' else 'T', *[written_value(x, sels) for x in v[1]])
  if t == 'd':
    items = []
    for k, x in v[1]:
      if k[0] not in ('ref', 's'):
        raise LookupError(k)
      ck, cx = written_value(k, sels), written_value(x, sels)
      same = [it for it in items if C.strict_eq(it[0], ck)]
      if same:
        same[0][1] = cx            # {k: 1, k: 2}: one entry, the later value
      else:
        items.append([ck, cx])
    return T('D', *items)
  if t in ('n', 'b', 'i', 's'):
    return c01.canon_plain(v)
  raise LookupError(t)


def written_fails(m, case):
  """after a binding whose value holds a dict literal with references among its keys, the store holds what was written: every
  written reference is there (and so will be called / delivered), under its own scope, with its own value"""
  fails = []
  sels = [c['sel'] for c in case['regs']]
  for t in m.trace:
    if t['kind'] not in ('bind', 'pbind') or t.get('exc') is not None or not any(refkey_dicts(t['op'][2])):
      continue
    op = t['op']
    parts = op[1].split('/')
    if '.' not in parts[-1]:
      continue
    scope = '/'.join(parts[:-1])
    sel, param = parts[-1].rsplit('.', 1)
    try:
      want = written_value(op[2], sels)
    except LookupError:
      continue
    cands = [(q, dict((p, x) for p, x in pd)) for s, q, pd in t['after']['config'] if s == scope]
    cands = [c for c in cands if c[0] == sel] or [c for c in cands if c[0].endswith('.' + sel)]
    got = [c[1][param] for c in cands if param in c[1]]
    if got and not any(C.strict_eq(g, want) for g in got):
      fails.append(('written-reference-not-bound', 'after %s = %s the binding holds %r; what was written is %r: a reference '
                    'written as a dict key (however deeply nested) is a reference of its own, to be called under its own scope' %
                    (op[1], ginm.val_text(op[2]), got[0], want)))
  return fails[:1]


class RefEngine(c01.CallEngine):
  name = 'gin-refs'

  def budget(self, tier):
    return 800 if tier == 'quick' else 25000

  def corpus(self):
    def fn(sel):
      return {'sel': sel, 'sig': {'args': ['a', 'b'], 'defaults': [['n'], ['n']], 'varargs': False, 'kwonly': [],
                                  'varkw': False}, 'allow': [], 'deny': []}
    regs = [fn('m.f'), fn('n.g'), fn('k')]
    return [{'regs': regs, 'ops': [
        ['pbind', 'f.a', ['ref', [], 'g', True]], ['call', 'm.f', [], []], ['call', 'm.f', [['i', 5]], []],
        ['call', 'm.f', [], [['a', ['i', 5]]]],            # F6: keyword override must not evaluate @g()
        ['pbind', 'f.b', ['l', [['ref', ['s1'], 'g', True], ['d', [[['s', 'x'], ['t', [['ref', [], 'k', False], ['ref', ['s1', 's2'], 'k', True]]]]]]]]],
        ['pbind', 's1/g.a', ['ref', [], 'k', True]],
        ['with', 's2', [['call', 'm.f', [], []], ['call', 'm.f', [], []]]],
        ['query', 'f.b'], ['getbindings', 'm.f', False, True], ['dumpconfig'], ['dumpcalls'], ['dumpoper']]},
            # references as dict KEYS: the same configurable under different scopes, at the top and three containers deep
            {'regs': regs, 'ops': [
                ['pbind', 's1/g.a', ['s', 'x']],
                ['pbind', 'f.a', ['d', [[['ref', ['s1'], 'g', True], ['i', 1]], [['ref', ['s2'], 'g', True], ['i', 2]]]]],
                ['pbind', 'f.b', ['l', [['t', [['d', [[['s', 'deep'], ['d', [
                    [['ref', ['s2'], 'k', True], ['s', 'x']], [['ref', ['s1'], 'k', True], ['s', 'y']],
                    [['ref', [], 'k', True], ['s', 'z']], [['ref', ['s1'], 'k', False], ['ref', ['s3'], 'g', True]],
                    [['ref', ['s2'], 'k', False], ['i', 0]]]]]]]]]]]],
                ['call', 'm.f', [], []], ['with', 's3', [['call', 'm.f', [], []], ['call', 'm.f', [], [['a', ['i', 5]]]]]],
                ['query', 'f.a'], ['query', 'f.b'], ['getbindings', 'm.f', False, True], ['dumpconfig'], ['dumpcalls'],
                ['dumpoper']]}]

  def gen_value(self, rng, regs, targets=None, depth=2):
    r = rng.random()
    targets = targets or [c['sel'] for c in regs]
    if depth <= 0 or r < 0.25:
      return ginm.gen_plain(rng, 1)
    if r < 0.6 and targets:
      t = rng.choice(targets)
      sc = [rng.choice(ginm.SCOPES) for _ in range(rng.choice([0, 0, 1, 2]))]
      return ['ref', sc, rng.choice(ginm.spellings(t, regs)), rng.random() < 0.65]
    if r < 0.75:
      return ['l', [self.gen_value(rng, regs, targets, depth - 1) for _ in range(rng.randint(1, 3))]]
    if r < 0.87:
      return ['t', [self.gen_value(rng, regs, targets, depth - 1) for _ in range(rng.randint(1, 3))]]
    if targets and rng.random() < 0.45:
      # dict KEYS that are references: to one configurable under different scopes (now and then one of them with the other
      # evaluate flag, or to another configurable); each is a key of its own and is called / delivered like any other
      t = rng.choice(targets)
      ev = rng.random() < 0.7
      scs = rng.sample([[], ['s1'], ['s2'], ['s3'], ['s1', 's2'], ['s2', 's1'], ['s3', 's3']], rng.randint(2, 3))
      keys = [['ref', sc, rng.choice(ginm.spellings(t if rng.random() < 0.85 else rng.choice(targets), regs)),
               ev if rng.random() < 0.85 else not ev] for sc in scs]
      if rng.random() < 0.3:
        keys.insert(rng.randrange(len(keys) + 1), ['s', 'k0'])
      return ['d', [[k, self.gen_value(rng, regs, targets, depth - 1)] for k in keys]]
    return ['d', [[['s', 'k%d' % i], self.gen_value(rng, regs, targets, depth - 1)] for i in range(rng.randint(1, 2))]]

  def gen(self, rng, tier):
    # (same short name in different modules: a scoped reference to one must never deliver the other)
    sels = rng.sample(['m.f', 'n.g', 'k', 'pkg.h', 'n.f', 'pkg.g', 'pkg.sub.f'], rng.randint(2, 5))
    regs = []
    for sel in sels:
      n = rng.randint(1, 3)
      regs.append({'sel': sel, 'sig': {'args': ginm.PARAMS[:n], 'defaults': [['n']] * n, 'varargs': False,
                                      'kwonly': [['k1', ['n']]] if rng.random() < 0.3 else [], 'varkw': False},
                   'allow': [], 'deny': []})
    ops = []
    for i, c in enumerate(regs):
      later = [x['sel'] for x in regs[i + 1:]]
      for _ in range(rng.randint(0, 3)):
        p = rng.choice(ginm.sig_names(c['sig']))
        sc = ginm.gen_scope(rng, 2)
        v = self.gen_value(rng, regs, later, 3) if later else ginm.gen_plain(rng, 2)
        key = '/'.join(sc + [rng.choice(ginm.spellings(c['sel'], regs)) + '.' + p])
        ops.append(['pbind', key, v] if ginm.textable(v) else ['bind', key, v])
    rng.shuffle(ops)
    if rng.random() < 0.3:
      # a constant with a mutable value, delivered through %NAME (alone or inside a container) to the MUTATING probes
      cname = rng.choice(['lib.KST', 'KST', 'pkg.lib.KST'])
      cval = rng.choice([['l', [['i', 1], ['i', 2]]], ['d', [[['s', 'k'], ['l', [['i', 1]]]]]], ['l', [['l', []]]], ['t', [['l', [['i', 3]]]]]])
      ops.insert(0, ['constant', cname, cval])
      for _ in range(rng.randint(1, 2)):
        c = rng.choice(regs)
        p = rng.choice(ginm.sig_names(c['sig']))
        v = ['macro', 'KST'] if rng.random() < 0.6 else ['l', [['macro', 'KST'], ['i', 0]]]
        ops.append(['pbind', '/'.join(ginm.gen_scope(rng, 1) + [c['sel'] + '.' + p]), v])
    active = ginm.gen_scope(rng, 2)
    body = []
    for _ in range(rng.randint(1, 3)):
      c = regs[0] if rng.random() < 0.7 else rng.choice(regs)
      body.append(self.gen_call(rng, c))
      if rng.random() < 0.4:
        p = rng.choice(ginm.sig_names(c['sig']))
        body.append(['query', c['sel'] + '.' + p])
      if rng.random() < 0.3:
        body.append(['getbindings', c['sel'], rng.random() < 0.5, True])
    for s in reversed(active):
      body = [['with', s, body]]
    ops += body + [['dumpconfig'], ['dumpcalls'], ['dumpoper']]
    return {'regs': regs, 'ops': ops}

  def gen_arg(self, rng):
    return ginm.gen_plain(rng, 0)

  def impl(self, case):
    m = ginm.Machine()
    obs = m.run(case)
    regs_by_sel = {c['sel']: c for c in case['regs']}
    fails, nontrivial, tags = [], False, []
    for ctx in m.calls:
      own = m.log[ctx['log_end'] - 1] if ctx['log_end'] > ctx['log_start'] else None
      if ctx['sel'] in regs_by_sel:
        fails += self.check(ctx, regs_by_sel, own, m)
        nontrivial = nontrivial or self.nontrivial(ctx, regs_by_sel)
      tags.append('depth%d' % len(ctx['scope']))
      tags.append('err:' + ctx['error'].split(':')[0] if 'error' in ctx else 'ok')
    written = written_fails(m, case)
    if any(True for o in ginm.flatten_ops(case['ops']) if o[0] in ('bind', 'pbind') for _ in refkey_dicts(o[2])):
      tags.append('ref-keys')
    fails = written + m.readback_fails() + m.constant_fails() + fails
    return {'obs': obs, 'fails': fails[:3], 'nontrivial': nontrivial, 'tags': tags}

  def check(self, ctx, regs_by_sel, own, m):
    fails = []
    sg = regs_by_sel[ctx['sel']]['sig']
    supplied = set(sg['args'][:len(ctx['args'])]) | {k for k, _ in ctx['kwargs']}
    try:
      want = expected_runs(ctx['config'], regs_by_sel, ctx['sel'], ctx['scope'], supplied)
    except RecursionError:
      return []
    got = [(e[0], e[1]) for e in m.log[ctx['log_start']:ctx['log_end']]]
    if 'error' in ctx:
      return []
    if got != want:
      kind = 'reference-evaluation-sequence'
      if len(got) > len(want) and any(p in supplied for p in c01.overlay_spec(ctx['config'], ctx['scope'], ctx['sel'])):
        kind = 'overridden-reference-still-called'
      fails.append((kind, 'call %s args=%r kwargs=%r under %r: bodies ran as %r; the property requires %r (store %r)' %
                    (ctx['sel'], ctx['args'], ctx['kwargs'], ctx['scope'], got, want, ctx['config'])))
    if ctx['config_after'] != ctx['config']:
      fails.append(('store-changed-by-call', 'store before %r after %r' % (ctx['config'], ctx['config_after'])))
    # delivered values: unevaluated references arrive as the configurable, evaluated ones as fresh results
    if own is not None and not fails:
      env = dict((k, v) for k, v in own[2])
      bound = c01.overlay_spec(ctx['config'], ctx['scope'], ctx['sel'])
      seen = []

      def shape(v, d):
        if isinstance(v, T) and v.tag == 'Ref':
          if v.args[2]:
            ok = isinstance(d, T) and d.tag == 'Ret' and d.args[0] == v.args[1]
            if ok:
              seen.append(d.args[1])
            return ok
          return d == T('H', v.args[1])
        if isinstance(v, T) and v.tag in ('L', 'T', 'D'):
          return isinstance(d, T) and d.tag == v.tag and len(d.args) == len(v.args) and \
              all(shape(a, b) for a, b in zip(v.args, d.args))
        if isinstance(v, list):
          return isinstance(d, list) and len(v) == len(d) and all(shape(a, b) for a, b in zip(v, d))
        return v == d
      for p, v in bound.items():
        if p in supplied or p not in env:
          continue
        if not shape(v, env[p]):
          fails.append(('wrong-delivery', 'parameter %r bound to %r was delivered as %r' % (p, v, env[p])))
      if len(set(seen)) != len(seen):
        fails.append(('result-not-fresh', 'two evaluated references received the same call result %r' % (seen,)))
    return fails

  def nontrivial(self, ctx, regs_by_sel):
    bound = c01.overlay_spec(ctx['config'], ctx['scope'], ctx['sel'])
    ev = [r for v in bound.values() for r in refs_in(v) if r.args[2]]
    sg = regs_by_sel[ctx['sel']]['sig']
    supplied = set(sg['args'][:len(ctx['args'])]) | {k for k, _ in ctx['kwargs']}
    over = any(p in supplied and any(r.args[2] for r in refs_in(v)) for p, v in bound.items())
    return (len(ev) >= 2 and any(r.args[0] for r in ev)) or over


class RefShapesEngine(Engine):
  """'@make()' (alone, in a list, in a dict inside a tuple) bound to parameters of a consumer whose signature Gin has to look
  for (c01.SHAPES: under functools.wraps decorators, behind Gin's own wrapper of a configurable base class, behind a bound
  self / cls, behind the metaclass wrapper).  From the property text: make runs once per occurrence in the bindings of the
  parameters the caller does NOT supply (positionally or by keyword) and not at all for those it supplies; the caller's values
  arrive unchanged, every evaluated reference delivers its own fresh result, under the scope written in the reference or else
  the scope active at the consuming call.  Implementation only (the model is given the signature)."""
  name = 'ref-shapes'
  model = False
  FORMS = {'bare': ('@%smake()', 1), 'list': ('[@%smake(), 1]', 1), 'nested': ("({'k': [@%smake()]}, @%smake())", 2)}

  def budget(self, tier):
    return 120 if tier == 'quick' else 3000

  def corpus(self):
    out = []
    for shape in c01.SHAPES:
      for npos, kw in ((1, []), (0, ['a']), (2, []), (0, [])):
        out.append({'shape': shape, 'params': ['a', 'b'], 'active': ['s1'], 'npos': npos, 'kw': kw,
                    'binds': [['a', 'list', ''], ['b', 'bare', 's2']]})
    return out

  def gen(self, rng, tier):
    params = list(rng.choice([['a', 'b', 'c'], ['a', 'b'], ['x']]))
    npos = rng.randint(0, len(params))
    return {'shape': rng.choice(c01.SHAPES), 'params': params, 'active': ginm.gen_scope(rng, 2), 'npos': npos,
            'kw': [p for p in params[npos:] if rng.random() < 0.35],
            'binds': [[p, rng.choice(sorted(self.FORMS)), rng.choice(['', '', 's2', 's1/s3'])] for p in params if rng.random() < 0.8]}

  def impl(self, case):
    gin = C.fresh_gin()
    runs = []

    def make():
      runs.append(gin.current_scope_str())
      return ['result', len(runs)]
    gin.configurable('make', module=c01.SHAPE_MODULE)(make)
    call = c01.build_shape(gin, case['shape'], case['params'])
    text = ''
    for p, form, rs in case['binds']:
      tmpl, n = self.FORMS[form]
      text += 'probe.%s = %s\n' % (p, tmpl % ((rs + '/' if rs else '',) * n))
    gin.parse_config(text)
    before = gin.config_str()
    args = ['pos:%d' % i for i in range(case['npos'])]
    kwargs = {p: 'kw:' + p for p in case['kw']}
    supplied = set(case['params'][:case['npos']]) | set(case['kw'])
    ambient = '/'.join(case['active'])
    want_runs = []
    for p, form, rs in case['binds']:
      if p not in supplied:
        want_runs += [rs or ambient] * self.FORMS[form][1]
    what = '%s probe(%s) with %r called with args=%r kwargs=%r under scope %r' % (
        case['shape'], ', '.join(case['params']), text, args, kwargs, ambient)
    fails = []
    for nth in (1, 2):                 # twice: a fresh result each time the consumer is called
      del runs[:]
      try:
        with gin.config_scope(list(case['active']) or None):
          got = call(*args, **kwargs)
      except Exception as e:  # pylint: disable=broad-except
        got = None
        err = '%s: %s' % (type(e).__name__, str(e).splitlines()[0][:140])
      if runs != want_runs and any(p in supplied for p, _, _ in case['binds']) and len(runs) > len(want_runs):
        fails.append(('overridden-reference-still-called', '%s (call %d): make ran under scopes %r although the caller supplies %r; '
                      'the property requires runs %r%s' % (what, nth, runs, sorted(supplied), want_runs,
                                                          '' if got is not None else '; the call then raised ' + err)))
      elif got is None:
        fails.append(('consumer-call-raised', '%s (call %d) raised %s' % (what, nth, err)))
      elif runs != want_runs:
        fails.append(('reference-evaluation-sequence', '%s (call %d): make ran under scopes %r, the property requires %r' %
                      (what, nth, runs, want_runs)))
      if got is not None:
        for i, p in enumerate(case['params']):
          if p in supplied and got[p] != ('pos:%d' % i if i < case['npos'] else 'kw:' + p):
            fails.append(('caller-value-not-delivered', '%s: %r received %r' % (what, p, got[p])))
        # the consumer mutates what it received: the next call, and the config string, must not see it
        for p, _, _ in case['binds']:
          v = got.get(p)
          while isinstance(v, (list, tuple, dict)) and v:
            inner = v[0] if not isinstance(v, dict) else v['k']
            if isinstance(v, list):
              v.append('mutated')
            v = inner
      if gin.config_str() != before:
        fails.append(('store-changed-by-call', '%s: config_str changed from %r to %r' % (what, before, gin.config_str())))
      if fails:
        break
    nontrivial = case['shape'] != 'fn' and any(p in supplied for p, _, _ in case['binds'])
    return {'obs': T('Done'), 'fails': fails[:3], 'nontrivial': nontrivial, 'tags': [case['shape']]}


E, H = '<E>', '<H>'         # an evaluated reference '@…make()' / an unevaluated one '@…make' inside a form


class RefParseEngine(Engine):
  """The same references, reaching the store through every way of PARSING a config.  The property quantifies over binding
  values, not over how the text was read: '@s1/s3/make()' written in a string, a list of lines, a file, a file plus a list of
  bindings or an included file, parsed with skip_unknown omitted / False / True / a list, tuple or set of names (skip_unknown
  only concerns names nobody registered: here `ghost`, bound in a statement of its own and / or referenced by a parameter the
  caller always supplies), is a reference to the REGISTERED configurable make and must be delivered like any other.
  Reference scopes of depth 0-3, the selector spelled `make`, `refmod.make` or `pkg.refmod.make`, evaluated and unevaluated
  references mixed inside lists / tuples / dict values; make.tag bound under some of the scopes.
  From the property text: every evaluated occurrence in the binding of a parameter the caller does not supply is delivered as
  its own fresh result of make, run under the scope written in the reference or else the scope active at the consuming call
  (and so with the tag bound for that scope); every unevaluated occurrence is delivered as a callable that has not run and
  that, whenever called later, runs make under exactly the written scope (unscoped: it is the configurable itself and runs
  under whatever scope is active then); nothing else runs; supplied parameters arrive unchanged and their references do not
  run; mutation of everything received changes neither the next call nor query_parameter nor config_str.
  Implementation only (the model's input language has statements, not parse entry points)."""
  name = 'ref-parse-modes'
  model = False
  FORMS = {
      'bare': E,
      'handle': H,
      'list': [E, 1],
      'nested': ({'k': [E]}, E),
      'mixed': {'k': (E, [H]), 'j': [E]},
      'handles': [H, (H,)],
  }
  REF_SCOPES = ['', 's2', 's1/s3', 's2/s1', 's1/s3/s2', 's3/s3']
  SPELLINGS = ['make', 'refmod.make', 'pkg.refmod.make']
  ENTRIES = ['string', 'lines', 'file', 'files_bindings', 'include']
  SKIPS = [None, False, True, ['list', ['ghost']], ['tuple', ['ghost', 'make']], ['set', ['ghost', 'pkg.refmod.make']],
           ['list', []]]

  def budget(self, tier):
    return 150 if tier == 'quick' else 4000

  def corpus(self):
    out = []
    for skip, ghost in ((True, ['stmt']), (True, []), (['list', ['ghost']], ['stmt', 'ref']), (None, []), (False, [])):
      for entry in ('string', 'file', 'include'):
        out.append({'entry': entry, 'skip': skip, 'ghost': ghost, 'spelling': 'make', 'params': ['a', 'b', 'c'],
                    'active': ['s9'], 'npos': 0, 'kw': [], 'tags': ['s1', 's1/s3', 's2'],
                    'binds': [['a', 'list', 's2'], ['b', 'mixed', 's1/s3'], ['c', 'handle', 's1/s3/s2']]})
    out.append({'entry': 'files_bindings', 'skip': True, 'ghost': ['stmt', 'ref'], 'spelling': 'pkg.refmod.make',
                'params': ['a', 'b'], 'active': [], 'npos': 1, 'kw': [], 'tags': ['s2/s1'],
                'binds': [['a', 'bare', 's1/s3'], ['b', 'nested', 's2/s1']]})
    out.append({'entry': 'lines', 'skip': ['set', ['ghost', 'pkg.refmod.make']], 'ghost': ['ref'], 'spelling': 'refmod.make',
                'params': ['a', 'b'], 'active': ['s1', 's2'], 'npos': 0, 'kw': ['b'], 'tags': [''],
                'binds': [['a', 'handles', 's3/s3'], ['b', 'bare', 's1/s3/s2']]})
    return out

  def gen(self, rng, tier):
    params = list(rng.choice([['a', 'b', 'c'], ['a', 'b'], ['x']]))
    npos = rng.choice([0, 0, 1, len(params)])
    skip = rng.choice(self.SKIPS)
    covers = skip is True or (isinstance(skip, list) and 'ghost' in skip[1])
    return {'entry': rng.choice(self.ENTRIES), 'skip': skip,
            'ghost': [g for g in ('stmt', 'ref') if covers and rng.random() < 0.6],
            'spelling': rng.choice(self.SPELLINGS), 'params': params, 'active': ginm.gen_scope(rng, 2), 'npos': npos,
            'kw': [p for p in params[npos:] if rng.random() < 0.25],
            'tags': sorted(set(rng.choice(['', 's1', 's2', 's1/s3', 's2/s1', 's1/s3/s2', 's3']) for _ in range(rng.randint(0, 3)))),
            'binds': [[p, rng.choice(sorted(self.FORMS)), rng.choice(self.REF_SCOPES)] for p in params if rng.random() < 0.85]}

  def shrink(self, case):
    def but(**kw):
      c = dict(case)
      c.update(kw)
      return c
    for i in range(len(case['binds'])):
      yield but(binds=case['binds'][:i] + case['binds'][i + 1:])
    for i in range(len(case['tags'])):
      yield but(tags=case['tags'][:i] + case['tags'][i + 1:])
    for i in range(len(case['ghost'])):
      yield but(ghost=case['ghost'][:i] + case['ghost'][i + 1:])
    if case['entry'] != 'string':
      yield but(entry='string')
    if case['active']:
      yield but(active=case['active'][1:])
    if case['kw']:
      yield but(kw=case['kw'][1:])
    if case['npos']:
      yield but(npos=case['npos'] - 1)
    if case['spelling'] != 'make':
      yield but(spelling='make')
    for i, (p, form, rs) in enumerate(case['binds']):
      for f2 in ('bare', 'handle'):
        if form not in ('bare', 'handle'):
          yield but(binds=case['binds'][:i] + [[p, f2, rs]] + case['binds'][i + 1:])
      if rs.count('/') > 1:
        yield but(binds=case['binds'][:i] + [[p, form, rs.split('/', 1)[1]]] + case['binds'][i + 1:])

  @classmethod
  def render(cls, v, ref):
    if v == E:
      return '@%s()' % ref
    if v == H:
      return '@%s' % ref
    if isinstance(v, list):
      return '[%s]' % ', '.join(cls.render(x, ref) for x in v)
    if isinstance(v, tuple):
      return '(%s,)' % ', '.join(cls.render(x, ref) for x in v)
    if isinstance(v, dict):
      return '{%s}' % ', '.join('%r: %s' % (k, cls.render(x, ref)) for k, x in v.items())
    return repr(v)

  @classmethod
  def occurrences(cls, v, which):
    if v == which:
      yield v
    elif isinstance(v, (list, tuple)):
      for x in v:
        yield from cls.occurrences(x, which)
    elif isinstance(v, dict):
      for x in v.values():
        yield from cls.occurrences(x, which)

  def impl(self, case):
    import shutil
    import tempfile
    gin = C.fresh_gin()
    runs = []

    class Res(object):
      def __init__(self, scope, tag):
        self.scope, self.tag, self.marks = scope, tag, []

      def __repr__(self):
        return 'Res(scope=%r, tag=%r)' % (self.scope, self.tag)

    def make(tag='untagged'):
      r = Res(gin.current_scope_str(), tag)
      runs.append(r)
      return r
    make_cfg = gin.configurable('make', module='pkg.refmod')(make)
    params = case['params'] + ['z']
    ns = {}
    exec('def consumer(%s):\n  return dict(%s)\n' % (', '.join('%s="unset"' % p for p in params),      # pylint: disable=exec-used
                                                    ', '.join('%s=%s' % (p, p) for p in params)), ns)
    call = gin.configurable('consumer', module='pkg.usermod')(ns['consumer'])

    def ref_text(rs):
      return (rs + '/' if rs else '') + case['spelling']

    def want_tag(scope):
      parts = scope.split('/') if scope else []
      for n in range(len(parts), -1, -1):       # the most specific enclosing scope that binds make.tag
        if '/'.join(parts[:n]) in case['tags']:
          return 'T:' + '/'.join(parts[:n])
      return 'untagged'

    tag_lines = ['%smake.tag = %r' % (t + '/' if t else '', 'T:' + t) for t in case['tags']]
    ghost_lines = ['ghost.learning_rate = 0.1', 's1/ghost.decay = [1, 2]'] if 'stmt' in case['ghost'] else []
    bind_lines = ['consumer.%s = %s' % (p, self.render(self.FORMS[form], ref_text(rs))) for p, form, rs in case['binds']]
    if 'ref' in case['ghost']:
      bind_lines.append("consumer.z = [@s1/s3/ghost(), {'k': @ghost}]")
    kw = {}
    sk = case['skip']
    if sk is not None:
      kw['skip_unknown'] = sk if isinstance(sk, bool) else {'list': list, 'tuple': tuple, 'set': set}[sk[0]](sk[1])
    text = '\n'.join(ghost_lines[:1] + tag_lines + ghost_lines[1:] + bind_lines) + '\n'
    what = 'entry=%s skip_unknown=%r text %r' % (case['entry'], sk, text)
    tmp = None
    try:
      try:
        if case['entry'] == 'string':
          gin.parse_config(text, **kw)
        elif case['entry'] == 'lines':
          gin.parse_config(text.splitlines(), **kw)
        else:
          tmp = tempfile.mkdtemp(prefix='ginverif_c04_')
          path = os.path.join(tmp, 'refs.gin')
          if case['entry'] == 'file':
            with open(path, 'w') as f:
              f.write(text)
            gin.parse_config_file(path, **kw)
          elif case['entry'] == 'files_bindings':
            with open(path, 'w') as f:
              f.write('\n'.join(ghost_lines[:1] + tag_lines) + '\n')
            gin.parse_config_files_and_bindings([path], ghost_lines[1:] + bind_lines, finalize_config=False, **kw)
          else:
            with open(path, 'w') as f:
              f.write(text)
            outer = os.path.join(tmp, 'outer.gin')
            with open(outer, 'w') as f:
              f.write('include %r\n' % path)
            gin.parse_config_file(outer, **kw)
      except Exception as e:  # pylint: disable=broad-except
        return {'obs': T('Done'), 'nontrivial': False, 'tags': [case['entry']],
                'fails': [('parse-of-known-references-raised', '%s: every name but ghost is registered and skip_unknown covers '
                           'ghost, yet parsing raised %s: %s' % (what, type(e).__name__, str(e).splitlines()[0][:200]))]}
    finally:
      if tmp:
        shutil.rmtree(tmp, ignore_errors=True)

    def snapshot():
      return (gin.config_str(), [repr(gin.query_parameter('consumer.' + p)) for p, _, _ in case['binds']])
    before = snapshot()
    args = ['pos:%d' % i for i in range(case['npos'])]
    kwargs = {p: 'kw:' + p for p in case['kw']}
    kwargs['z'] = 'kw:z'            # z (possibly bound to references to the unknown ghost) is always supplied by the caller
    supplied = set(case['params'][:case['npos']]) | set(kwargs)
    ambient = '/'.join(case['active'])
    what += ' consumer called with args=%r kwargs=%r under scope %r' % (args, kwargs, ambient)
    fails = []

    def match(form, d, rs, path, results, handles):
      """delivery shape; collects the delivered results / handles with the scope their occurrence was written with"""
      if form == E:
        if not isinstance(d, Res):
          return '%s: an evaluated reference was delivered as %r' % (path, d)
        results.append((d, rs, path))
      elif form == H:
        if isinstance(d, Res) or not callable(d):
          return '%s: an unevaluated reference was delivered as %r' % (path, d)
        handles.append((d, rs, path))
      elif isinstance(form, (list, tuple)):
        if type(d) is not type(form) or len(d) != len(form):
          return '%s: %r was delivered as %r' % (path, form, d)
        for i, (f, x) in enumerate(zip(form, d)):
          m = match(f, x, rs, '%s[%d]' % (path, i), results, handles)
          if m:
            return m
      elif isinstance(form, dict):
        if type(d) is not dict or list(d) != list(form):
          return '%s: %r was delivered as %r' % (path, form, d)
        for k in form:
          m = match(form[k], d[k], rs, '%s[%r]' % (path, k), results, handles)
          if m:
            return m
      elif d != form or type(d) is not type(form):
        return '%s: %r was delivered as %r' % (path, form, d)
      return None

    def scribble(d):
      if isinstance(d, Res):
        d.marks.append('mutated')
      elif isinstance(d, (list, tuple)):
        for x in d:
          scribble(x)
        if isinstance(d, list):
          d.append('mutated')
          d[0] = 'mutated'
      elif isinstance(d, dict):
        for x in list(d.values()):
          scribble(x)
        d.clear()
        d['mutated'] = True

    all_results = []
    for nth in (1, 2):                 # twice: a fresh result each time the consumer is called
      del runs[:]
      try:
        with gin.config_scope(list(case['active']) or None):
          got = call(*args, **kwargs)
      except Exception as e:  # pylint: disable=broad-except
        fails.append(('consumer-call-raised', '%s (call %d) raised %s: %s' % (
            what, nth, type(e).__name__, str(e).splitlines()[0][:200])))
        break
      during = list(runs)
      results, handles = [], []
      for i, p in enumerate(params):
        if p in supplied:
          want = 'pos:%d' % i if i < case['npos'] else 'kw:' + p
          if got[p] != want:
            fails.append(('caller-value-not-delivered', '%s: %r received %r' % (what, p, got[p])))
      for p, form, rs in case['binds']:
        if p in supplied:
          continue
        m = match(self.FORMS[form], got[p], rs, p, results, handles)
        if m:
          fails.append(('wrong-delivery', '%s (call %d): %s' % (what, nth, m)))
      if fails:
        break
      # every evaluated occurrence: its own result, of a run made during THIS call, under the written scope or else the ambient
      if len(set(id(r) for r, _, _ in results)) != len(results) or any(r is o for r, _, _ in results for o in all_results):
        fails.append(('result-not-fresh', '%s (call %d): two evaluated references received the same result object: %r' %
                      (what, nth, [(path, r) for r, _, path in results])))
      for r, rs, path in results:
        ws = rs or ambient
        if (r.scope, r.tag) != (ws, want_tag(ws)) or r.marks:
          fails.append(('reference-run-in-wrong-scope', '%s (call %d): %s received %r%s; the property requires a fresh result of '
                        'make run under scope %r (tag %r)' % (what, nth, path, r, ' already mutated' if r.marks else '', ws, want_tag(ws))))
      if sorted(id(r) for r in during) != sorted(id(r) for r, _, _ in results):
        kind = 'overridden-reference-still-called' if len(during) > len(results) and any(p in supplied for p, _, _ in case['binds']) \
            else 'reference-evaluation-sequence'
        fails.append((kind, '%s (call %d): make ran %r, but the evaluated references of the parameters the caller did not supply '
                      '(%r) are %r' % (what, nth, during, sorted(supplied), [path for _, _, path in results])))
      all_results += [r for r, _, _ in results]
      # every unevaluated occurrence: a callable which, whenever called, runs make once under exactly the written scope
      for h, rs, path in handles:
        if not rs and h is not make_cfg:
          fails.append(('wrong-delivery', '%s (call %d): %s is bound to the unscoped @%s and received %r, not the configurable '
                        'itself' % (what, nth, path, case['spelling'], h)))
          continue
        for later in ('', 'late/r'):
          del runs[:]
          try:
            with gin.config_scope(later or None):
              r = h()
          except Exception as e:  # pylint: disable=broad-except
            fails.append(('delivered-configurable-raised', '%s (call %d): calling what %s received under scope %r raised %s: %s' %
                          (what, nth, path, later, type(e).__name__, str(e).splitlines()[0][:200])))
            break
          ws = rs or later
          if not isinstance(r, Res) or len(runs) != 1 or runs[0] is not r or (r.scope, r.tag) != (ws, want_tag(ws)):
            fails.append(('reference-run-in-wrong-scope', '%s (call %d): calling what %s received under scope %r returned %r '
                          '(runs %r); the property requires one run of make under %r (tag %r)' %
                          (what, nth, path, later, r, runs, ws, want_tag(ws))))
      # the consumer scribbles on everything it received
      for p, _, _ in case['binds']:
        if p not in supplied:
          scribble(got[p])
      after = snapshot()
      if after != before:
        fails.append(('store-changed-by-call', '%s: config_str / query_parameter changed from %r to %r' % (what, before, after)))
      if fails:
        break
    live = [(form, rs) for p, form, rs in case['binds'] if p not in supplied]
    nontrivial = (bool(kw.get('skip_unknown')) or case['entry'] != 'string') and any(rs for _, rs in live)
    return {'obs': T('Done'), 'fails': fails[:3], 'nontrivial': nontrivial,
            'tags': [case['entry'], 'skip=%s' % (sk if isinstance(sk, bool) or sk is None else sk[0]),
                     'depth%d' % max([0] + [len(rs.split('/')) for _, rs in live if rs])]}


class RefKeysEngine(Engine):
  """References written as dict KEYS (the two engines above write them as list / tuple items and dict values only).  A dict
  literal, at the top of a binding or up to three containers deep, whose keys are references to ONE configurable that differ
  in nothing but their scope (`{@a/make(): 1, @b/make(): 2, @make(): 3}`), evaluated or not, %macros and %constants (which are
  scoped references to gin.macro / gin.constant: `{%M0: 1, %M1: 2}`, `{%Color.RED: 'r', %Color.BLUE: 'b'}`), the same
  wrapped in tuple keys (`{(@a/make(), 1): .., (@b/make(), 1): ..}`), mixed with references to a second configurable and plain
  keys; the values are again such trees.  The keys written in one literal are pairwise different references (scope,
  configurable or evaluate flag differ) and deliver pairwise different objects, so the literal denotes a dict with exactly that
  many entries, in the written order.
  From the property text ("however deeply the reference is nested inside lists, tuples or dicts"): when the consumer is called
  without that parameter, every evaluated reference that was written -- key or value -- is delivered as its own fresh result of
  the configurable it names, run during this call under exactly the written scope or else the scope active at the consuming
  call (so with the tag bound for that scope); a %macro delivers the macro's value (a reference in it runs under the macro's
  own scope), a %constant the constant; every unevaluated reference is delivered as a callable that has not run and that,
  whenever called, runs its configurable once under exactly the written scope; nothing else runs; parameters the caller
  supplies arrive unchanged and none of their references run; scribbling on everything received changes neither the next
  call nor query_parameter nor config_str.  Implementation only (the model covers `@` keys through gin-refs; its input
  language has no enum constants, tuple-wrapped reference keys or macro values that are references)."""
  name = 'ref-dict-keys'
  model = False
  KEY_SCOPES = ['', 'a', 'b', 'a/b', 'b/a', 's1', 'a/a']
  TARGETS = ['make', 'other']
  PREFIXES = ['', 'refmod.', 'pkg.refmod.']
  # macro name -> the node its value is written as
  MACROS = {'M0': ['p', 'mv0'], 'M1': ['p', 'mv1'], 'M2': ['p', 5], 'MR': ['e', 'a', 'make'], 'MU': ['e', '', 'make']}
  # written spellings of the constants -> full name
  CONSTANTS = {'C0': 'lib.C0', 'lib.C0': 'lib.C0', 'C1': 'pkg.lib.C1', 'pkg.lib.C1': 'pkg.lib.C1', 'Color.RED': 'pkg.colors.Color.RED',
               'pkg.colors.Color.BLUE': 'pkg.colors.Color.BLUE', 'colors.Color.GREEN': 'pkg.colors.Color.GREEN'}
  PLAIN_KEYS = ['k0', 'k1', 7]

  def budget(self, tier):
    return 250 if tier == 'quick' else 6000

  def corpus(self):
    def e(sc, t='make'):
      return ['e', sc, t]

    def h(sc, t='make'):
      return ['h', sc, t]

    def p(x):
      return ['p', x]
    base = {'prefix': '', 'params': ['a', 'b', 'c'], 'active': ['outer'], 'npos': 0, 'kw': [], 'tags': ['a', 'b']}
    return [
        # the same configurable under two / three scopes as keys, at the top and three containers deep
        dict(base, binds=[['a', ['d', [[e('a'), p(1)], [e('b'), p(2)]]]],
                          ['b', ['l', [['t', [['d', [[p('deep'), ['d', [[e('b'), p('x')], [e('a'), p('y')], [e(''), p('z')]]]]]]]]]]]]),
        # macros and constants are scoped references to one configurable each
        dict(base, active=[], tags=[''], binds=[['a', ['d', [[['m', 'M0'], p(1)], [['m', 'M1'], e('a')], [['m', 'MR'], p(3)]]]],
                                                ['c', ['d', [[['c', 'Color.RED'], p('r')], [['c', 'pkg.colors.Color.BLUE'], p('b')],
                                                             [['c', 'C0'], ['l', [e('b/a')]]]]]]]),
        # unevaluated references and tuple-wrapped keys; one bound parameter is supplied by the caller
        dict(base, prefix='refmod.', active=['s1', 'b'], npos=1, tags=['a/b', 's1'],
             binds=[['a', ['d', [[e('a'), p(1)], [e('b'), p(2)]]]],
                    ['b', ['d', [[h('a'), p(1)], [h('b'), e('a/a', 'other')], [h(''), p(3)], [e('a'), h('a')]]]],
                    ['c', ['t', [['d', [[['t', [e('a'), p(1)]], p('x')], [['t', [e('b'), p(1)]], p('y')], [['t', [e('a', 'other'), p(1)]], p('z')]]]]]]]),
    ]

  # -- generation
  def gen_keys(self, rng):
    n = rng.randint(2, 4)
    fam = rng.random()
    refs = [[k, sc, t] for k in 'eh' for sc in self.KEY_SCOPES for t in self.TARGETS]
    consts = {}
    for sp, full in sorted(self.CONSTANTS.items()):
      consts.setdefault(full, []).append(sp)
    consts = [['c', rng.choice(sps)] for _, sps in sorted(consts.items())]       # one spelling of each constant
    if fam < 0.5:
      # references to ONE configurable that differ only in their scope (sometimes one with the other evaluate flag)
      t, kind = rng.choice(self.TARGETS), 'e' if rng.random() < 0.75 else 'h'
      keys = [[kind, sc, t] for sc in rng.sample(self.KEY_SCOPES, n)]
      if rng.random() < 0.3:
        keys.append(['h' if kind == 'e' else 'e', keys[0][1], t])
    elif fam < 0.62:
      keys = [['m', m] for m in rng.sample(sorted(self.MACROS), n)]
    elif fam < 0.74:
      keys = rng.sample(consts, n)
    else:
      keys = rng.sample(refs + [['m', m] for m in sorted(self.MACROS)] + consts + [['p', x] for x in self.PLAIN_KEYS], n)
    rng.shuffle(keys)
    # a key may be a tuple holding the reference
    return [k if rng.random() < 0.8 else ['t', [k] + ([['p', 1]] if rng.random() < 0.5 else [])] for k in keys]

  def gen_leaf(self, rng):
    r = rng.random()
    if r < 0.45:
      return ['e', rng.choice(self.KEY_SCOPES), rng.choice(self.TARGETS)]
    if r < 0.6:
      return ['h', rng.choice(self.KEY_SCOPES), rng.choice(self.TARGETS)]
    if r < 0.7:
      return ['m', rng.choice(sorted(self.MACROS))]
    if r < 0.8:
      return ['c', rng.choice(sorted(self.CONSTANTS))]
    return ['p', rng.choice(['x', 0, None, True])]

  def gen_tree(self, rng, depth):
    r = rng.random()
    if depth <= 0 or r < 0.3:
      return self.gen_leaf(rng)
    if r < 0.42:
      return ['l', [self.gen_tree(rng, depth - 1) for _ in range(rng.randint(1, 3))]]
    if r < 0.52:
      return ['t', [self.gen_tree(rng, depth - 1) for _ in range(rng.randint(1, 2))]]
    keys = self.gen_keys(rng) if rng.random() < 0.85 else [['p', 'k%d' % i] for i in range(rng.randint(1, 2))]
    return ['d', [[k, self.gen_tree(rng, depth - 1)] for k in keys]]

  def gen(self, rng, tier):
    params = list(rng.choice([['a', 'b', 'c'], ['a', 'b'], ['x']]))
    npos = rng.choice([0, 0, 0, 1, len(params)])
    binds = []
    for p in params:
      if rng.random() < 0.85:
        binds.append([p, self.gen_tree(rng, 3) if rng.random() < 0.5 else
                      ['d', [[k, self.gen_tree(rng, 2)] for k in self.gen_keys(rng)]]])
    return {'prefix': rng.choice(self.PREFIXES), 'params': params,
            'active': [rng.choice(['s1', 's2', 'a', 'b']) for _ in range(rng.choice([0, 1, 1, 2]))], 'npos': npos,
            'kw': [p for p in params[npos:] if rng.random() < 0.2],
            'tags': sorted(set(rng.choice(['', 'a', 'b', 'a/b', 'b/a', 's1', 's1/a', 'M0', 'MU']) for _ in range(rng.randint(0, 3)))),
            'binds': binds}

  # -- the written keys of every dict literal are pairwise different (what the generator guarantees; shrinking must keep it)
  @classmethod
  def wellformed(cls, node):
    if node[0] in ('l', 't'):
      return all(cls.wellformed(x) for x in node[1])
    if node[0] == 'd':
      keys = [repr(cls.key_id(k)) for k, _ in node[1]]
      return len(set(keys)) == len(keys) and all(cls.wellformed(k) and cls.wellformed(x) for k, x in node[1])
    return True

  @classmethod
  def key_id(cls, k):
    if k[0] == 'c':
      return ['c', cls.CONSTANTS[k[1]]]
    if k[0] == 't':
      return ['t', [cls.key_id(x) for x in k[1]]]
    return k

  @classmethod
  def smaller(cls, node, is_key=False):
    t = node[0]
    if t in ('l', 't'):
      for i, x in enumerate(node[1]):
        if not is_key or x[0] != 'p':
          yield x
        if len(node[1]) > 1:
          yield [t, node[1][:i] + node[1][i + 1:]]
        for y in cls.smaller(x, is_key):
          yield [t, node[1][:i] + [y] + node[1][i + 1:]]
    elif t == 'd':
      items = node[1]
      for i, (k, x) in enumerate(items):
        yield x
        if len(items) > 1:
          yield ['d', items[:i] + items[i + 1:]]
      for i, (k, x) in enumerate(items):
        for y in cls.smaller(x):
          yield ['d', items[:i] + [[k, y]] + items[i + 1:]]
        for y in cls.smaller(k, True):
          yield ['d', items[:i] + [[y, x]] + items[i + 1:]]
    elif t != 'p' and not is_key:
      yield ['p', 0]

  def shrink(self, case):
    def but(**kw):
      c = dict(case)
      c.update(kw)
      return c
    binds = case['binds']
    for i in range(len(binds)):
      yield but(binds=binds[:i] + binds[i + 1:])
    for i, (p, tree) in enumerate(binds):
      for y in self.smaller(tree):
        if self.wellformed(y):
          yield but(binds=binds[:i] + [[p, y]] + binds[i + 1:])
    for i in range(len(case['tags'])):
      yield but(tags=case['tags'][:i] + case['tags'][i + 1:])
    if case['active']:
      yield but(active=case['active'][1:])
    if case['kw']:
      yield but(kw=case['kw'][1:])
    if case['npos']:
      yield but(npos=case['npos'] - 1)
    if case['prefix']:
      yield but(prefix='')

  @classmethod
  def render(cls, node, prefix):
    t = node[0]
    if t in ('e', 'h'):
      return '@%s%s%s%s' % (node[1] + '/' if node[1] else '', prefix, node[2], '()' if t == 'e' else '')
    if t in ('m', 'c'):
      return '%' + node[1]
    if t == 'p':
      return repr(node[1])
    if t == 'l':
      return '[%s]' % ', '.join(cls.render(x, prefix) for x in node[1])
    if t == 't':
      return '(%s,)' % ', '.join(cls.render(x, prefix) for x in node[1])
    return '{%s}' % ', '.join('%s: %s' % (cls.render(k, prefix), cls.render(x, prefix)) for k, x in node[1])

  @classmethod
  def scope_families(cls, node):
    """sizes of the groups of keys of one dict literal that reference one configurable and differ only in scope"""
    if node[0] in ('l', 't'):
      for x in node[1]:
        yield from cls.scope_families(x)
    elif node[0] == 'd':
      groups = {}
      for k, x in node[1]:
        while k[0] == 't':
          k = k[1][0]
        if k[0] in ('e', 'h'):
          groups.setdefault((k[0], k[2]), set()).add(k[1])
        elif k[0] in ('m', 'c'):
          groups.setdefault(k[0], set()).add(k[1])
        yield from cls.scope_families(x)
      for g, scs in groups.items():
        if len(scs) >= 2:
          yield (g if isinstance(g, str) else g[0], len(scs))

  def impl(self, case):
    import enum
    gin = C.fresh_gin()
    runs = []

    class Res(object):
      def __init__(self, fn, scope, tag):
        self.fn, self.scope, self.tag, self.marks = fn, scope, tag, []

      def __repr__(self):
        return 'Res(%s under scope %r, tag=%r)' % (self.fn, self.scope, self.tag)

    def make(tag='untagged'):
      r = Res('make', gin.current_scope_str(), tag)
      runs.append(r)
      return r

    def other(tag='untagged'):
      r = Res('other', gin.current_scope_str(), tag)
      runs.append(r)
      return r
    cfgs = {'make': gin.configurable('make', module='pkg.refmod')(make),
            'other': gin.configurable('other', module='pkg.refmod')(other)}

    class Color(enum.Enum):
      RED = 1
      BLUE = 2
      GREEN = 3
    gin.constants_from_enum(Color, module='pkg.colors')
    constvals = {'lib.C0': 'cv0', 'pkg.lib.C1': ('cv1', 1), 'pkg.colors.Color.RED': Color.RED, 'pkg.colors.Color.BLUE': Color.BLUE,
                 'pkg.colors.Color.GREEN': Color.GREEN}
    gin.constant('lib.C0', constvals['lib.C0'])
    gin.constant('pkg.lib.C1', constvals['pkg.lib.C1'])
    constants = self.CONSTANTS
    params = case['params']
    ns = {}
    exec('def consumer(%s):\n  return dict(%s)\n' % (', '.join('%s="unset"' % p for p in params),      # pylint: disable=exec-used
                                                    ', '.join('%s=%s' % (p, p) for p in params)), ns)
    call = gin.configurable('consumer', module='pkg.usermod')(ns['consumer'])
    prefix = case['prefix']

    def want_tag(fn, scope):
      if fn != 'make':
        return 'untagged'
      parts = scope.split('/') if scope else []
      for n in range(len(parts), -1, -1):       # the most specific enclosing scope that binds make.tag
        if '/'.join(parts[:n]) in case['tags']:
          return 'T:' + '/'.join(parts[:n])
      return 'untagged'

    lines = ['%smake.tag = %r' % (t + '/' if t else '', 'T:' + t) for t in case['tags']]
    lines += ['%s = %s' % (m, self.render(v, prefix)) for m, v in sorted(self.MACROS.items())]
    lines += ['consumer.%s = %s' % (p, self.render(tree, prefix)) for p, tree in case['binds']]
    text = '\n'.join(lines) + '\n'
    what = 'text %r' % text
    if not all(self.wellformed(tree) for _, tree in case['binds']):
      return {'obs': T('Done'), 'fails': [], 'nontrivial': False, 'tags': ['not-wellformed']}
    try:
      gin.parse_config(text)
    except Exception as e:  # pylint: disable=broad-except
      return {'obs': T('Done'), 'nontrivial': False, 'tags': ['parse-raised'],
              'fails': [('parse-of-known-references-raised', '%s: every name is registered and every key can be hashed, yet parsing '
                         'raised %s: %s' % (what, type(e).__name__, str(e).splitlines()[0][:200]))]}

    def snapshot():
      return (gin.config_str(), [repr(gin.query_parameter('consumer.' + p)) for p, _ in case['binds']])
    before = snapshot()
    args = ['pos:%d' % i for i in range(case['npos'])]
    kwargs = {p: 'kw:' + p for p in case['kw']}
    supplied = set(params[:case['npos']]) | set(kwargs)
    ambient = '/'.join(case['active'])
    what += ' consumer called with args=%r kwargs=%r under scope %r' % (args, kwargs, ambient)
    fails = []

    def match(node, d, amb, path, results, handles):
      """delivery shape; collects the delivered results / handles with the configurable and scope they were written with"""
      t = node[0]
      if t == 'e':
        if not isinstance(d, Res):
          return '%s: the evaluated reference %s was delivered as %r' % (path, self.render(node, prefix), d)
        results.append((d, node[2], node[1] or amb, path))
      elif t == 'h':
        if isinstance(d, Res) or not callable(d):
          return '%s: the unevaluated reference %s was delivered as %r' % (path, self.render(node, prefix), d)
        handles.append((d, node[2], node[1], path))
      elif t == 'm':
        # %M is @M/gin.macro(): it delivers the macro's value; a reference in that value runs under the macro's scope
        return match(self.MACROS[node[1]], d, node[1], path + '<%' + node[1] + '>', results, handles)
      elif t == 'c':
        want = constvals[constants[node[1]]]
        if not (d is want or (not isinstance(want, enum.Enum) and type(d) is type(want) and d == want)):
          return '%s: the constant %%%s (%r) was delivered as %r' % (path, node[1], want, d)
      elif t == 'p':
        if d != node[1] or type(d) is not type(node[1]):
          return '%s: %r was delivered as %r' % (path, node[1], d)
      elif t in ('l', 't'):
        if type(d) is not (list if t == 'l' else tuple) or len(d) != len(node[1]):
          return '%s: %s was delivered as %r' % (path, self.render(node, prefix), d)
        for i, (n, x) in enumerate(zip(node[1], d)):
          m = match(n, x, amb, '%s[%d]' % (path, i), results, handles)
          if m:
            return m
      else:
        if type(d) is not dict or len(d) != len(node[1]):
          return '%s: the dict %s, written with %d different keys, was delivered as %r' % (
              path, self.render(node, prefix), len(node[1]), d)
        for (kn, xn), (dk, dx) in zip(node[1], list(d.items())):
          here = '%s{%s}' % (path, self.render(kn, prefix))
          m = match(kn, dk, amb, here + '<key>', results, handles) or match(xn, dx, amb, here, results, handles)
          if m:
            return m
      return None

    def scribble(d):
      if isinstance(d, Res):
        d.marks.append('mutated')
      elif isinstance(d, (list, tuple)):
        for x in d:
          scribble(x)
        if isinstance(d, list):
          d.append('mutated')
          d[0] = 'mutated'
      elif isinstance(d, dict):
        for k, x in list(d.items()):
          scribble(k)
          scribble(x)
        d.clear()
        d['mutated'] = True

    all_results = []
    for nth in (1, 2):                 # twice: a fresh result each time the consumer is called
      del runs[:]
      try:
        with gin.config_scope(list(case['active']) or None):
          got = call(*args, **kwargs)
      except Exception as e:  # pylint: disable=broad-except
        fails.append(('consumer-call-raised', '%s (call %d) raised %s: %s' % (
            what, nth, type(e).__name__, str(e).splitlines()[0][:200])))
        break
      during = list(runs)
      results, handles = [], []
      for i, p in enumerate(params):
        if p in supplied:
          want = 'pos:%d' % i if i < case['npos'] else 'kw:' + p
          if got[p] != want:
            fails.append(('caller-value-not-delivered', '%s: %r received %r' % (what, p, got[p])))
      for p, tree in case['binds']:
        if p in supplied:
          continue
        m = match(tree, got[p], ambient, p, results, handles)
        if m:
          fails.append(('wrong-delivery', '%s (call %d): %s' % (what, nth, m)))
      if fails:
        break
      # every evaluated occurrence: its own result, of a run made during THIS call, under the written scope or else the ambient
      if len(set(id(r) for r, _, _, _ in results)) != len(results) or any(r is o for r, _, _, _ in results for o in all_results):
        fails.append(('result-not-fresh', '%s (call %d): two evaluated references received the same result object: %r' %
                      (what, nth, [(path, r) for r, _, _, path in results])))
      for r, fn, ws, path in results:
        if (r.fn, r.scope, r.tag) != (fn, ws, want_tag(fn, ws)) or r.marks:
          fails.append(('reference-run-in-wrong-scope', '%s (call %d): %s received %r%s; the property requires a fresh result of '
                        '%s run under scope %r (tag %r)' % (what, nth, path, r, ' already mutated' if r.marks else '', fn, ws,
                                                           want_tag(fn, ws))))
      if sorted(id(r) for r in during) != sorted(id(r) for r, _, _, _ in results):
        kind = 'overridden-reference-still-called' if len(during) > len(results) and any(p in supplied for p, _ in case['binds']) \
            else 'reference-evaluation-sequence'
        fails.append((kind, '%s (call %d): the bodies ran as %r, but the evaluated references written for the parameters the caller '
                      'did not supply (%r supplied) are %r' % (what, nth, during, sorted(supplied), [path for _, _, _, path in results])))
      all_results += [r for r, _, _, _ in results]
      # every unevaluated occurrence: a callable which, whenever called, runs its configurable once under exactly the written scope
      for h, fn, rs, path in handles:
        if not rs and h is not cfgs[fn]:
          fails.append(('wrong-delivery', '%s (call %d): %s is the unscoped @%s%s and received %r, not the configurable itself' %
                        (what, nth, path, prefix, fn, h)))
          continue
        for later in ('', 'late/r'):
          del runs[:]
          try:
            with gin.config_scope(later or None):
              r = h()
          except Exception as e:  # pylint: disable=broad-except
            fails.append(('delivered-configurable-raised', '%s (call %d): calling what %s received under scope %r raised %s: %s' %
                          (what, nth, path, later, type(e).__name__, str(e).splitlines()[0][:200])))
            break
          ws = rs or later
          if not isinstance(r, Res) or len(runs) != 1 or runs[0] is not r or (r.fn, r.scope, r.tag) != (fn, ws, want_tag(fn, ws)):
            fails.append(('reference-run-in-wrong-scope', '%s (call %d): calling what %s received under scope %r returned %r '
                          '(runs %r); the property requires one run of %s under %r (tag %r)' %
                          (what, nth, path, later, r, runs, fn, ws, want_tag(fn, ws))))
      # the consumer scribbles on everything it received
      for p, _ in case['binds']:
        if p not in supplied:
          scribble(got[p])
      after = snapshot()
      if after != before:
        fails.append(('store-changed-by-call', '%s: config_str / query_parameter changed from %r to %r' % (what, before, after)))
      if fails:
        break
    fams = [f for p, tree in case['binds'] if p not in supplied for f in self.scope_families(tree)]
    return {'obs': T('Done'), 'fails': fails[:3], 'nontrivial': bool(fams),
            'tags': sorted(set('keys:' + g for g, _ in fams)) + (['supplied'] if any(p in supplied for p, _ in case['binds']) else [])}


ENGINES = [RefEngine(), RefShapesEngine(), RefParseEngine(), RefKeysEngine()]
