"""C18 — shared records stay consistent under threads; singletons are constructed once."""
import itertools

from harness import common as C
from harness import sched
from harness.common import T
from harness.main import Engine

PID = 'C18'
LEVEL = 'proof'
RULE = ('threads/sched: 2-4 REAL threads, each running a generated program of configurable calls (shared and distinct '
        'scopes; calls that record parameters and calls that record nothing but themselves: parameterless, or every '
        'parameter supplied by the caller), operative_config_str() reads and first uses of the same / different singletons; a sys.settrace line '
        'tracer pauses a thread at every line of gin/config.py that touches the operative record, its lock or the '
        'singleton cache (lines found from the AST of the current file), and a central scheduler follows a generated '
        'schedule (thorough: every interleaving of 2 threads at this granularity for small programs). Observed: '
        'exceptions per thread, every read text (must parse), final operative record vs a sequential run of the same '
        'programs, constructions per singleton name and the identities the users received. non-trivial = >= 2 threads '
        'with a context switch inside a critical section or inside singleton_value.')
TRUSTED_BASE = [
    'Coq 8.16.1 kernel; vm_compute in refutation witnesses and in the correspondence run; no native_compute',
    'hand-written model coq/Model/Threads.v (atomic steps = source lines; schedules = arbitrary lists of thread ids); tied to /repo through schedule-independent observations only (failure flag, final look-ups, constructions per name)',
    'the GIL / bytecode-level atomicity and CPython dict internals are NOT modelled: preemption happens at line granularity only',
    'the harness substitutes cooperative lock objects with the same interface for config._OPERATIVE_CONFIG_LOCK (and the singleton lock) so that a blocked thread yields to the scheduler',
]
ASSUMPTIONS = ['interleavings inside one source line are not explored']

SCOPES = ['', 's1', 's2', 's1/s2']
NAMES = ['sa', 'sb']


# ---- what a singleton's constructor returns.  The property does not depend on what the constructed object looks like:
# a shared, initially EMPTY container (falsy until something is put into it), None / 0 / '' (falsy and interned), objects
# whose truth value, length or equality is unusual or raises (array-like) are all objects "constructed at most once".
class _LenZero:
  def __len__(self):
    return 0


class _BoolFalse:
  def __bool__(self):
    return False


class _BoolRaises:
  def __bool__(self):
    raise ValueError('the truth value of this object is ambiguous')


class _EqAll:
  def __eq__(self, other):
    return True

  def __hash__(self):
    return 0


class _EqRaises:
  def __eq__(self, other):
    raise ValueError('this object cannot be compared')

  __hash__ = object.__hash__


class _Plain:
  pass


def _deque(*a):
  import collections  # pylint: disable=g-import-not-at-top
  return collections.deque(*a)


KINDS = {
    # fresh object per construction (identity tells constructions apart)
    'obj': _Plain, 'deque': _deque, 'dict': dict, 'list': list, 'set': set, 'bytearray': bytearray,
    'lenzero': _LenZero, 'boolfalse': _BoolFalse, 'boolraises': _BoolRaises, 'eqall': _EqAll, 'eqraises': _EqRaises,
    'list1': lambda: [1], 'deque1': lambda: _deque([1]), 'dict1': lambda: {'k': 1},
    # interned / immutable values (only the number of constructions tells)
    'none': lambda: None, 'zero': lambda: 0, 'false': lambda: False, 'emptystr': lambda: '', 'emptytuple': lambda: (),
    'one': lambda: 1,
}
FALSY = ['deque', 'dict', 'list', 'set', 'bytearray', 'lenzero', 'boolfalse', 'none', 'zero', 'false', 'emptystr', 'emptytuple']
ODD = ['boolraises', 'eqall', 'eqraises']
TRUTHY = ['obj', 'list1', 'deque1', 'dict1', 'one']
FILL = {'deque': lambda o: o.append(7), 'list': lambda o: o.append(7), 'set': lambda o: o.add(7), 'dict': lambda o: o.update(k=7),
        'bytearray': lambda o: o.append(7), 'list1': lambda o: o.append(7), 'deque1': lambda o: o.append(7), 'dict1': lambda o: o.update(k=7)}


class ThreadEngine(Engine):
  name = 'threads-sched'
  imports = 'Model.Values Model.Threads Model.ThreadsEngine'
  run_fn = 'run_final'

  def budget(self, tier):
    return 150 if tier == 'quick' else 3000

  def corpus(self):
    return [
        {'progs': [[['singleton', 'sa']], [['singleton', 'sa']]], 'schedule': [0, 1] * 12},
        # the constructed object is falsy / has no usable truth value: still one construction, one object
        {'progs': [[['singleton', 'sa', 'deque'], ['singleton', 'sb', 'none']], [['singleton', 'sa', 'deque'], ['singleton', 'sb', 'none']]],
         'schedule': [0, 1] * 20},
        {'progs': [[['singleton', 'sa', 'boolraises'], ['singleton', 'sa', 'boolraises']], [['singleton', 'sb', 'lenzero'], ['singleton', 'sb', 'lenzero']]],
         'schedule': [0, 0, 1] * 20},
        {'progs': [[['call', 0, 's1'], ['read']], [['call', 1, ''], ['call', 0, 's1'], ['read']]], 'schedule': [0, 1, 1, 0] * 8},
    ] + [
        # a whole writer (new section) run at every single point of a reader's critical section, and vice versa
        {'progs': [[['call', 0, ''], ['call', 1, 's1'], ['read']], [['call', 0, 's2'], ['call', 1, 's1/s2']]],
         'schedule': [0] * k + [1] * 120 + [0] * 200} for k in range(0, 70, 2)
    ] + [
        {'progs': [[['call', 0, 's1', 'p'], ['read']], [['call', 0, 's1', '']]],
         'schedule': [0] * k + [1] * 120 + [0] * 300} for k in range(0, 120, 2)
    ] + [
        {'progs': [[['singleton', 'sa'], ['read']], [['call', 0, 's2'], ['singleton', 'sa']]],
         'schedule': [0] * k + [1] * 120 + [0] * 200} for k in range(0, 30, 3)
    ] + self.sweeps(stride=3) + self.nothing_to_record()

  # a call that has NOTHING TO RECORD but itself (every parameter supplied by the caller, or a configurable without
  # parameters) made for the first time in its scope -- a new, empty section -- while a read of a non-empty record is
  # under way: the reader stopped at every one of its preemption points while the whole call runs, and the call stopped
  # at every one of its points while the whole read runs.  (pre, the call)
  EMPTY_CALLS = [
      ([['call', 1, '', 'q'], ['call', 0, 's2', '']], ['call', 0, 's1', 'pq']),
      ([['call', 1, '', ''], ['call', 2, '']], ['call', 2, 's1']),
      ([['call', 0, 's1', 'p'], ['call', 2, 's2']], ['call', 1, 's1/s2', 'pq']),
  ]

  def nothing_to_record(self):
    out = []
    for i, (pre, call) in enumerate(self.EMPTY_CALLS):
      r_max = self.steps_alone(pre, [['read']])
      w_max = self.steps_alone(pre, [call])
      for k in range(1, r_max):
        out.append({'pre': pre, 'progs': [[['read']], [call]], 'schedule': [0] * k + [1] * (w_max + 5) + [0] * (r_max + 5)})
      for k in range(1 + i % 2, w_max, 2):
        out.append({'pre': pre, 'progs': [[call, ['read']], [['read']]], 'schedule': [0] * k + [1] * (r_max + 5) + [0] * (w_max + r_max + 5)})
    return out

  # two-dimensional sweeps: thread 0 runs a steps, thread 1 runs b steps, thread 0 runs to its end, thread 1 to its
  # end -- three context switches placed at EVERY pair of preemption points (a, b) of the two programs (the numbers of
  # steps are measured on the current source).  (pre, program of thread 0, program of thread 1)
  SWEEPS = [
      ([['call', 0, 's1', 'p']], [['call', 0, 's1', '']], [['read']]),      # an existing section gains a parameter
      ([], [['call', 0, 's1', '']], [['read']]),                              # a section is created
      ([['call', 1, '', 'q']], [['call', 1, '', 'p'], ['call', 0, 's2', '']], [['read']]),
      ([], [['singleton', 'sa']], [['singleton', 'sa']]),                     # first use by both
      ([['singleton', 'sb']], [['singleton', 'sa']], [['singleton', 'sa'], ['read']]),
      ([], [['singleton', 'sa', 'dict']], [['singleton', 'sa', 'dict'], ['singleton', 'sa', 'dict']]),   # an empty container
  ]

  def steps_alone(self, pre, prog):
    gin, fns = self.setup()
    _, _, _, _, _, trace = self.run_programs(gin, fns, [prog], [], pre)
    return len(trace)

  def sweeps(self, stride=1):
    out = []
    for pre, p0, p1 in self.SWEEPS:
      a_max = self.steps_alone(pre, p0)
      b_max = self.steps_alone(pre, p1)
      for a in range(1, a_max):
        for b in range(1 + a % stride, b_max, stride):
          out.append({'pre': pre, 'progs': [p0, p1], 'schedule': [0] * a + [1] * b + [0] * (a_max + 5) + [1] * (b_max + 5)})
    return out

  kinds = {name: None for name in NAMES}

  def gen_prog(self, rng):
    acts = []
    for _ in range(rng.randint(1, 4)):
      r = rng.random()
      if r < 0.45:
        # probe 2 has no parameters; 'pq': the caller supplies everything -- such calls record nothing but themselves
        probe = rng.choice([0, 1, 0, 1, 2])
        acts.append(['call', probe, rng.choice(SCOPES), rng.choice(['', '', 'p', 'q', 'pq', 'pq']) if probe < 2 else ''])
      elif r < 0.7:
        acts.append(['read'])
      else:
        # the kind of object the constructor returns is a function of the name (one constructor per singleton)
        name = rng.choice(NAMES)
        acts.append(['singleton', name] + ([self.kinds[name]] if self.kinds[name] else []))
    return acts

  def gen(self, rng, tier):
    n = rng.randint(2, 4)
    self.kinds = {name: (None if rng.random() < 0.4 else rng.choice(FALSY + ODD + TRUTHY)) for name in NAMES}
    progs = [self.gen_prog(rng) for _ in range(n)]
    schedule = [rng.randrange(n) for _ in range(rng.randint(5, 60))]
    case = {'progs': progs, 'schedule': schedule}
    if rng.random() < 0.5:
      # a sequential history before the threads start: the record the readers walk is not empty
      case['pre'] = [a for a in self.gen_prog(rng) if a[0] == 'call'][:3]
    return case

  def exhaustive(self):
    yield from self.sweeps()
    progs = [[['singleton', 'sa']], [['singleton', 'sa'], ['read']]]
    for s in itertools.product([0, 1], repeat=8):
      yield {'progs': progs, 'schedule': list(s)}
    progs = [[['call', 0, 's1']], [['read'], ['call', 1, 's1']]]
    for s in itertools.product([0, 1], repeat=8):
      yield {'progs': progs, 'schedule': list(s)}

  SEQ = {}     # the sequential run of the last (pre, programs) seen

  # parameters recorded by the two probes (fixed configuration): probe i has default p=i, bound q
  VALS = {0: [['p', 0], ['q', 10]], 1: [['p', 1], ['q', 11]], 2: []}

  def queries(self, case):
    qs = []
    for i in (0, 1):
      for sc in SCOPES:
        for p in ('p', 'q'):
          qs.append([sc, 'm.f%d' % i, p])
    for sc in SCOPES:
      qs.append([sc, 'm.f2', 'p'])       # the parameterless probe: is its section there
    return qs

  def to_coq(self, case):
    def act(a):
      if a[0] == 'call':
        sup = a[3] if len(a) > 3 else ''
        vals = [(p, v) for p, v in self.VALS[a[1]] if p not in sup]
        return '(ACall (%s, %s) %s)' % (C.cstr(a[2]), C.cstr('m.f%d' % a[1]),
                                        C.clist(['(%s, %s)' % (C.cstr(p), C.cz(v)) for p, v in vals]) if vals else '(@nil (string * Z))')
      if a[0] == 'read':
        return 'ARead'
      return '(ASingleton %s)' % C.cstr(a[1])
    plist = [list(p) for p in case['progs']]
    if case.get('pre'):
      plist[0] = list(case['pre']) + plist[0]
    progs = C.clist([C.clist([act(a) for a in p]) if p else '(@nil action)' for p in plist])
    qs = C.clist(['((%s, %s), %s)' % (C.cstr(s), C.cstr(q), C.cstr(p)) for s, q, p in self.queries(case)])
    # the model is run on the EMPTY schedule: the observations compared are schedule-independent (C18 theorems)
    return '((true, true), %s, (@nil nat), %s, %s)' % (progs, qs, C.cstrs(NAMES))

  def shrink(self, case):
    for i in range(len(case['schedule'])):
      yield dict(case, schedule=case['schedule'][:i] + case['schedule'][i + 1:])
    for t in range(len(case['progs'])):
      for i in range(len(case['progs'][t])):
        p = [list(x) for x in case['progs']]
        del p[t][i]
        yield dict(case, progs=p)
    for i in range(len(case.get('pre') or [])):
      yield dict(case, pre=case['pre'][:i] + case['pre'][i + 1:])

  def setup(self):
    gin = C.fresh_gin()
    fns = []
    for i in (0, 1):
      env = {}
      exec('def f%d(p=%d, q=None):\n  return (p, q)\n' % (i, i), env)  # pylint: disable=exec-used
      fn = env['f%d' % i]
      fn.__module__ = None
      fns.append(gin.configurable('f%d' % i, module='m')(fn))
      gin.bind_parameter('m.f%d.q' % i, 10 + i)
    env = {}
    exec('def f2():\n  return ()\n', env)  # pylint: disable=exec-used
    env['f2'].__module__ = None
    fns.append(gin.configurable('f2', module='m')(env['f2']))
    return gin, fns

  def run_programs(self, gin, fns, progs, schedule, pre=None):
    built = []
    reads = []
    got = {}
    keep = []      # every constructed object stays alive: an id is never reused

    class Obj:
      def __init__(self, name):
        self.name = name
        built.append(name)

    def construct(name, kind):
      if kind is None:
        return Obj(name)
      built.append(name)
      keep.append(KINDS[kind]())
      return keep[-1]

    def make(prog, t):
      def body():
        for a in prog:
          if a[0] == 'call':
            sup = a[3] if len(a) > 3 else ''
            with gin.config_scope(a[2] or None):
              fns[a[1]](**{k: 99 for k in sup})
          elif a[0] == 'read':
            reads.append(gin.operative_config_str())
          else:
            o = gin.config.singleton_value(a[1], lambda n=a[1], k=(a[2] if len(a) > 2 else None): construct(n, k))
            keep.append(o)
            got.setdefault(a[1], []).append(id(o))
      return body
    bodies = [make(p, t) for t, p in enumerate(progs)]
    if pre:
      make(pre, -1)()            # sequential history before the threads start
    if schedule is None:
      errors = []
      for b in bodies:
        try:
          b()
          errors.append(None)
        except Exception as e:  # pylint: disable=broad-except
          errors.append(e)
      trace = []
    else:
      s = sched.Scheduler(gin.config, bodies, schedule)
      sched.install(gin.config, s)
      errors = s.run()
      trace = s.trace
    oper = {(k[0], k[1], p): v for k, d in gin.config._OPERATIVE_CONFIG.items() for p, v in d.items()}  # pylint: disable=protected-access
    for k in gin.config._OPERATIVE_CONFIG:  # pylint: disable=protected-access
      oper[(k[0], k[1], None)] = True     # the section itself (it may hold no parameter)
    return errors, reads, built, got, oper, trace

  def impl(self, case):
    gin, fns = self.setup()
    errors, reads, built, got, oper, trace = self.run_programs(gin, fns, case['progs'], case['schedule'], case.get('pre'))
    fails = []
    failed = any(e is not None for e in errors)
    if failed:
      e = [e for e in errors if e is not None][0]
      fails.append(('thread-failed', 'schedule %r: a thread raised %s: %s' % (trace, type(e).__name__, str(e)[:200])))
    # every read parses
    cp = gin.config_parser

    class D(cp.ParserDelegate):
      def configurable_reference(self, a, b):
        return None

      def macro(self, a):
        return None
    for text in reads:
      try:
        list(cp.ConfigParser(text, D()))
      except Exception as e:  # pylint: disable=broad-except
        fails.append(('read-does-not-parse', '%s: %r' % (type(e).__name__, text)))
        break
    # final record == a sequential run of the same programs
    key = repr((case.get('pre'), case['progs']))
    if key not in self.SEQ:
      gin2, fns2 = self.setup()
      self.SEQ.clear()
      self.SEQ[key] = self.run_programs(gin2, fns2, case['progs'], None, case.get('pre'))[4]
    oper2 = self.SEQ[key]
    if oper != oper2 and not failed:
      fails.append(('final-operative-differs-from-sequential', 'threads %r; sequential %r' % (sorted(oper.items(), key=repr), sorted(oper2.items(), key=repr))))
    # singletons: constructed once per name, one object for all users
    for name in NAMES:
      if built.count(name) > 1:
        fails.append(('singleton-constructed-twice', '%r constructed %d times under schedule %r' % (name, built.count(name), trace)))
      if len(set(got.get(name, []))) > 1:
        fails.append(('singleton-users-got-different-objects', '%r under schedule %r' % (name, trace)))
    qs = self.queries(case)
    look = []
    sections = {(k[0], k[1]) for k in oper}
    for s, q, p in qs:
      if (s, q) not in sections:
        look.append(T('NoSection'))
      elif (s, q, p) not in oper:
        look.append(T('NoParam'))
      else:
        look.append(oper[(s, q, p)])
    finished = not failed
    obs = [failed, finished, look, [built.count(n) for n in NAMES]]
    switches = sum(1 for a, b in zip(trace, trace[1:]) if a != b)
    return {'obs': obs, 'fails': fails[:3], 'nontrivial': switches >= 3 and len(case['progs']) >= 2,
            'tags': ['threads%d' % len(case['progs']), 'switches%d' % min(switches // 5 * 5, 40)]}


class ScopedClassReadEngine(Engine):
  """a read of the operative config whose record holds a SCOPED reference to a class with a registered method, run against
  a thread that calls that method (looked up through Gin), calls the consumer of the reference, or reads too.  The reader
  is stopped at each of its preemption points, the other thread runs to its end, the reader finishes.  Written from the
  property text: no thread fails, every read parses, the final operative record is that of running the same programs one
  after another, and the call still receives its configured value.  Implementation only (Model/Threads.v has no
  references among its values)."""
  name = 'scoped-class-read'
  model = False
  rule = ('threads/sched: a reader of the operative config (which holds @scope/Class for a class with a registered method, '
          'directly or through a macro) stopped at every preemption point while a second thread looks the method up and '
          'calls it / calls the consumer / reads; no failure, reads parse, final record == sequential run')

  FORMS = {'binding': 'h.k = @sc/K\n', 'binding-eval': 'h.k = @sc/K()\n', 'macro': 'MAC = @sc/K\nh.k = %MAC\n',
           'nested': 'h.k = [1, {"a": @sc/K}]\n'}
  OTHERS = ('method', 'consumer', 'read', 'method+read')

  def budget(self, tier):
    return 0 if tier == 'quick' else 200

  def setup(self, form):
    gin = C.fresh_gin()
    ns = {'gin': gin, '__name__': 'c18mod'}
    exec('@gin.configurable\nclass K:\n  def __init__(self, z=0):\n    self.z = z\n'  # pylint: disable=exec-used
         '  @gin.register\n  def m(self, p=1):\n    return p\n\n'
         '@gin.configurable\ndef h(k=None):\n  return 0\n', ns)
    gin.parse_config(self.FORMS[form] + 'K.m.p = 7\n')
    return gin, ns

  def bodies(self, gin, ns, other, reads, results):
    obj = ns['K']()

    def reader():
      reads.append(gin.operative_config_str())

    def second():
      for act in other.split('+'):
        if act == 'method':
          results.append(gin.get_configurable('K.m')(obj))
        elif act == 'consumer':
          with gin.config_scope('s1'):
            ns['h']()
        else:
          reads.append(gin.operative_config_str())
    return [reader, second]

  def run(self, form, other, schedule, called_before):
    gin, ns = self.setup(form)
    reads, results = [], []
    if called_before:
      gin.get_configurable('K.m')(ns['K']())
    ns['h']()                       # the reference (or the macro holding it) is now part of the operative record
    bodies = self.bodies(gin, ns, other, reads, results)
    if schedule is None:
      errors, trace = [], []
      for b in reversed(bodies):     # one after another: the second thread, then the reader
        try:
          b()
          errors.append(None)
        except Exception as e:  # pylint: disable=broad-except
          errors.append(e)
    else:
      s = sched.Scheduler(gin.config, bodies, schedule)
      sched.install(gin.config, s)
      errors, trace = s.run(), s.trace
    # values by their text: references of two gin instances never compare equal
    oper = {k: {p: repr(x) for p, x in v.items()} for k, v in gin.config._OPERATIVE_CONFIG.items()}  # pylint: disable=protected-access
    return gin, errors, reads, results, oper, trace

  def reader_steps(self, form):
    _, _, _, _, _, trace = self.run(form, 'method', [0] * 5000, True)
    return sum(1 for t in trace if t == 0)

  def corpus(self):
    out = []
    # every preemption point of the reader for the plain form (the windows are one step wide), a stride for the others
    for form, stride in (('binding', 1), ('binding-eval', 3), ('macro', 4), ('nested', 3)):
      n = self.reader_steps(form)
      for i, a in enumerate(range(1, max(n, 2), stride)):
        other = self.OTHERS[i % len(self.OTHERS)] if form != 'binding' else 'method'
        out.append({'form': form, 'other': other, 'a': a, 'called_before': form != 'nested' or i % 2 == 0})
    return out

  def gen(self, rng, tier):
    form = rng.choice(sorted(self.FORMS))
    return {'form': form, 'other': rng.choice(self.OTHERS), 'a': rng.randint(0, 400), 'called_before': rng.random() < 0.7}

  def shrink(self, case):
    if case['other'] != 'method':
      yield dict(case, other='method')
    if case['form'] != 'binding':
      yield dict(case, form='binding')

  SEQ = {}

  def impl(self, case):
    form, other, a = case['form'], case['other'], case['a']
    schedule = [0] * a + [1] * 3000 + [0] * 5000
    gin, errors, reads, results, oper, trace = self.run(form, other, schedule, case['called_before'])
    fails = []
    failed = [(i, e) for i, e in enumerate(errors) if e is not None]
    for i, e in failed[:1]:
      fails.append(('read-failed' if i == 0 else 'other-thread-failed', '%s stopped after %d of its steps, the other thread (%s) run to its end, then resumed: '
                    'the %s raised %s: %s' % ('reader', a, other, 'reader' if i == 0 else 'other thread', type(e).__name__, str(e)[:160])))
    for text in reads:
      try:
        fresh = C.fresh_gin()
        ns = {'gin': fresh, '__name__': 'c18mod'}
        exec('@gin.configurable\nclass K:\n  def __init__(self, z=0):\n    self.z = z\n'  # pylint: disable=exec-used
             '  @gin.register\n  def m(self, p=1):\n    return p\n\n'
             '@gin.configurable\ndef h(k=None):\n  return 0\n', ns)
        fresh.parse_config(text)
      except Exception as e:  # pylint: disable=broad-except
        fails.append(('read-does-not-parse', '%s: %s: %r' % (type(e).__name__, str(e)[:100], text)))
        break
    if any(r != 7 for r in results):
      fails.append(('call-lost-its-binding', 'K.m.p = 7 is bound; the call made while the read was under way returned %r' % (results,)))
    key = repr((form, other, case['called_before']))
    if key not in self.SEQ:
      _, errors2, _, _, oper2, _ = self.run(form, other, None, case['called_before'])
      self.SEQ[key] = (oper2, [e for e in errors2 if e is not None])
    oper2, errors2 = self.SEQ[key]
    if errors2 and not failed:
      fails.append(('sequential-run-failed', '%s: %s' % (type(errors2[0]).__name__, str(errors2[0])[:160])))
    if not failed and not errors2 and oper != oper2:
      fails.append(('final-operative-differs-from-sequential', 'threads %r; sequential %r' % (sorted(oper.items(), key=repr), sorted(oper2.items(), key=repr))))
    switches = sum(1 for x, y in zip(trace, trace[1:]) if x != y)
    return {'obs': T('Done'), 'fails': fails[:3], 'nontrivial': switches >= 2, 'tags': [form, other]}


class NothingToRecordEngine(Engine):
  """a read of a non-empty operative config (sections and macros) against a thread that makes, for the first time in its
  scope, a call that has nothing to record but itself: a function or a class without parameters, a call whose every
  parameter the caller supplies, and the first evaluation of a constant (`%c18mod.LIMIT`, by a consumer that has ALREADY
  recorded its own parameters when the read starts).  The second thread runs `a` of its steps, the reader `b` of its
  steps, the second thread runs to its end, the reader finishes.  Written from the property text: no thread fails, the
  call returns its configured result, every read parses, and the operative config read when both have finished is the
  one read after running the same call and read one after another.  Implementation only (Model/Threads.v has neither
  macros nor constants, and these calls through it are exercised by threads-sched)."""
  name = 'nothing-to-record'
  model = False
  rule = ('threads/sched: a reader of an operative config with sections and macros, stopped at its preemption points, '
          'against the FIRST call in a scope of a parameterless function / parameterless class / fully caller-supplied '
          'call / consumer of a not yet evaluated constant (stopped at its own points too); no failure, the call returns '
          'its value, reads parse, final operative_config_str() == that of the sequential run')

  DEFS = ('@gin.configurable\ndef report(title="untitled", n=0):\n  return title\n\n'
          '@gin.configurable\ndef beat():\n  return "alive"\n\n'
          '@gin.configurable\nclass Box:\n  def __init__(self):\n    self.v = "box"\n\n'
          '@gin.configurable\ndef full(a, b=2):\n  return (a, b)\n\n'
          '@gin.configurable\ndef use_limit(limit=None, other=None):\n  return (limit, other)\n\n'
          'gin.constant("c18mod.LIMIT", 5)\ngin.constant("c18mod.OTHER", 6)\n')
  CONFIG = ('TITLE = "weekly"\nSUB = "daily"\nreport.title = %TITLE\nreport.n = 3\ns0/report.title = %SUB\n'
            'use_limit.limit = %c18mod.LIMIT\nlate/use_limit.other = %c18mod.OTHER\n')
  WRITERS = {
      'fn': ('w', lambda ns: ns['beat'](), 'alive'),
      'class': ('w', lambda ns: ns['Box']().v, 'box'),
      'supplied': ('w', lambda ns: ns['full'](1, b=7), (1, 7)),
      'supplied-nested': ('w/x', lambda ns: ns['full'](b=1, a=0), (0, 1)),
      'constant': ('', lambda ns: ns['use_limit'](), (5, None)),
      'constant-scoped': ('late', lambda ns: ns['use_limit'](), (5, 6)),
  }

  def budget(self, tier):
    return 40 if tier == 'quick' else 600

  def setup(self):
    gin = C.fresh_gin()
    ns = {'gin': gin, '__name__': 'c18mod'}
    exec(self.DEFS, ns)  # pylint: disable=exec-used
    gin.parse_config(self.CONFIG)
    return gin, ns

  def run(self, writer, schedule, again):
    gin, ns = self.setup()
    scope, call, _ = self.WRITERS[writer]
    ns['report']()
    with gin.config_scope('s0'):
      ns['report']()
    with gin.config_scope('w'):
      ns['report']()
    if again:
      with gin.config_scope(scope or None):
        call(ns)                    # control: the section (and the constant's) is already there
    reads, results = [], []

    def reader():
      reads.append(gin.operative_config_str())

    def second():
      with gin.config_scope(scope or None):
        results.append(call(ns))
    bodies = [reader, second]
    if schedule is None:
      errors, trace = [], []
      for b in reversed(bodies):
        try:
          b()
          errors.append(None)
        except Exception as e:  # pylint: disable=broad-except
          errors.append(e)
      errors.reverse()
    else:
      s = sched.Scheduler(gin.config, bodies, schedule)
      sched.install(gin.config, s)
      errors, trace = s.run(), s.trace
    final = None
    try:
      final = gin.operative_config_str()
    except Exception as e:  # pylint: disable=broad-except
      errors = list(errors) + [e]
    return errors, reads, results, final, trace

  STEPS = {}

  def steps(self, writer):
    """(steps of the reader, steps of the call) when each runs alone, on the current source"""
    if writer not in self.STEPS:
      trace = self.run(writer, [0] * 5000 + [1] * 5000, False)[4]
      self.STEPS[writer] = (trace.count(0), trace.count(1))
    return self.STEPS[writer]

  def corpus(self):
    out = []
    # (the parameterless function and the fully supplied call are swept point by point in threads-sched)
    for w in ('class', 'constant-scoped'):
      r, c = self.steps(w)
      if not w.startswith('constant'):
        # the whole call at the reader's preemption points
        out += [{'writer': w, 'a': 0, 'b': b, 'again': False} for b in range(1, r, 3)]
      else:
        # the consumer has gone some way (past its own record) when the read starts; the rest of it, with the first
        # evaluation of the constants, runs while the reader is stopped
        out += [{'writer': w, 'a': a, 'b': b, 'again': False}
                for j, a in enumerate(range(3, c, 9)) for b in range(1 + 3 * (j % 3), r, 10)]
    return out

  def gen(self, rng, tier):
    w = rng.choice(sorted(self.WRITERS))
    r, c = self.steps(w)
    return {'writer': w, 'a': rng.choice([0, rng.randint(0, c + 2)]), 'b': rng.randint(0, r + 2), 'again': rng.random() < 0.15}

  def shrink(self, case):
    if case['a']:
      yield dict(case, a=0)
    if case['again']:
      yield dict(case, again=False)

  SEQ = {}
  PARSER = None       # a second, separate gin with the same definitions: the reads are parsed there

  def impl(self, case):
    w, a, b = case['writer'], case['a'], case['b']
    schedule = [1] * a + [0] * b + [1] * 3000 + [0] * 5000
    errors, reads, results, final, trace = self.run(w, schedule, case['again'])
    fails = []
    failed = [(i, e) for i, e in enumerate(errors) if e is not None]
    who = {0: 'the reader', 1: 'the calling thread', 2: 'the read made after both threads had finished'}
    for i, e in failed[:1]:
      fails.append(('read-failed' if i != 1 else 'call-failed', 'the %s call stopped after %d of its steps, the reader run for %d of its steps, the call '
                    'resumed and run to its end, then the reader: %s raised %s: %s' % (w, a, b, who[i], type(e).__name__, str(e)[:160])))
    for text in reads + ([final] if final is not None else []):
      try:
        if self.PARSER is None:
          NothingToRecordEngine.PARSER = C.fresh_gin()
          exec(self.DEFS, {'gin': self.PARSER, '__name__': 'c18mod'})  # pylint: disable=exec-used
        self.PARSER.clear_config()
        self.PARSER.parse_config(text)
      except Exception as e:  # pylint: disable=broad-except
        fails.append(('read-does-not-parse', '%s: %s: %r' % (type(e).__name__, str(e)[:100], text)))
        break
    want = self.WRITERS[w][2]
    if not failed and results != [want]:
      fails.append(('call-lost-its-binding', 'the %s call made while the read was under way returned %r, not %r' % (w, results, want)))
    key = repr((w, case['again']))
    if key not in self.SEQ:
      errors2, _, _, final2, _ = self.run(w, None, case['again'])
      self.SEQ[key] = (final2, [e for e in errors2 if e is not None])
    final2, errors2 = self.SEQ[key]
    if errors2 and not failed:
      fails.append(('sequential-run-failed', '%s: %s' % (type(errors2[0]).__name__, str(errors2[0])[:160])))
    if not failed and not errors2 and final != final2:
      fails.append(('final-operative-differs-from-sequential', 'threads %r; sequential %r' % (final, final2)))
    switches = sum(1 for x, y in zip(trace, trace[1:]) if x != y)
    return {'obs': T('Done'), 'fails': fails[:3], 'nontrivial': switches >= 2 and not case['again'],
            'tags': [w, 'switches%d' % switches] + (['again'] if case['again'] else [])}


class SingletonHistoryEngine(Engine):
  """sequential histories (with bursts of free-running threads) of singleton USES THROUGH THE CONFIGURATION
  (`user.x = @buf/singleton()`, `buf/singleton.constructor = @mk0`), direct uses (`singleton_value(name[, constructor])`),
  mutations of the delivered object and clear_config, for every kind of constructed object in KINDS.  Written from the
  property text with the harness's own bookkeeping (each constructor records the objects it returned): within one
  lifetime of the configuration the constructor of a scope name runs exactly once, at the first use; every use, from any
  thread and any calling scope, is handed the object that construction returned; after clear_config the object is
  forgotten: a look-up without a constructor does not deliver it and the next use constructs a new one.  Implementation
  only (the sequential half, C18_singleton_seq / C18_clear_forgets, is a theorem about keys; objects have no shape in the
  model)."""
  name = 'singleton-histories'
  model = False
  rule = ('singletons: histories of uses through references @scope/singleton() from several configurables and calling '
          'scopes, direct singleton_value look-ups with and without a constructor, bursts of 2-4 threads using them at once, '
          'filling / emptying the delivered container and clear_config + re-parse, for constructors that return empty '
          'containers, None / 0 / empty strings, objects with a false, zero-length or raising truth value or an '
          'unusual __eq__, and ordinary objects; one construction per scope name and lifetime, every use gets that object, '
          'clear_config forgets it')

  SNAMES = ['buf', 'reg', 'plugins/reg']
  USERS = [0, 0, 1, 2]               # user i is bound to the singleton of scope SNAMES[USERS[i]]

  def budget(self, tier):
    return 120 if tier == 'quick' else 1500

  def config(self, shared):
    lines = ['u%d.x = @%s/singleton()' % (i, self.SNAMES[s]) for i, s in enumerate(self.USERS)]
    for s, nm in enumerate(self.SNAMES):
      lines.append('%s/singleton.constructor = @mk%d' % (nm, 0 if (shared and s == 1) else s))
    return '\n'.join(lines) + '\n'

  def corpus(self):
    hist = [['use', 0], ['use', 1], ['value', 0, True], ['value', 0, False], ['par', [0, 1, 0]], ['use', 3], ['use', 3],
            ['fill', 0], ['use', 1], ['drain', 0], ['use', 0], ['use-scoped', 1], ['value', 2, False],
            ['clear'], ['value', 0, False], ['use', 1], ['use', 0], ['use', 2], ['use', 2]]
    return [
        {'kinds': ['deque', 'dict', 'list'], 'shared': False, 'hist': hist},
        {'kinds': ['none', 'zero', 'emptystr'], 'shared': False, 'hist': hist},
        {'kinds': ['boolraises', 'lenzero', 'eqall'], 'shared': False, 'hist': hist},
        {'kinds': ['set', 'set', 'eqraises'], 'shared': True, 'hist': hist},
        {'kinds': ['obj', 'list1', 'one'], 'shared': False, 'hist': hist},
        {'kinds': ['deque1', 'boolfalse', 'false'], 'shared': False,
         'hist': [['use', 0], ['drain', 0], ['use', 1], ['par', [1, 0, 2, 2]], ['use', 2], ['clear'], ['par', [0, 1]], ['use', 0]]},
    ]

  def gen(self, rng, tier):
    pool = FALSY * 2 + ODD + TRUTHY
    kinds = [rng.choice(pool) for _ in self.SNAMES]
    hist = []
    for _ in range(rng.randint(3, 12)):
      r = rng.random()
      if r < 0.4:
        hist.append([rng.choice(['use', 'use', 'use-scoped']), rng.randrange(len(self.USERS))])
      elif r < 0.55:
        hist.append(['value', rng.randrange(len(self.SNAMES)), rng.random() < 0.6])
      elif r < 0.7:
        hist.append(['par', [rng.randrange(len(self.USERS)) for _ in range(rng.randint(2, 4))]])
      elif r < 0.85:
        hist.append([rng.choice(['fill', 'drain']), rng.randrange(len(self.SNAMES))])
      else:
        hist.append(['clear'])
    return {'kinds': kinds, 'shared': rng.random() < 0.25, 'hist': hist}

  def shrink(self, case):
    for i in range(len(case['hist'])):
      yield dict(case, hist=case['hist'][:i] + case['hist'][i + 1:])
    for i, a in enumerate(case['hist']):
      if a[0] == 'par' and len(a[1]) > 2:
        yield dict(case, hist=case['hist'][:i] + [['par', a[1][:-1]]] + case['hist'][i + 1:])
      if a[0] == 'par':
        yield dict(case, hist=case['hist'][:i] + [['use', u] for u in a[1]] + case['hist'][i + 1:])
    if case['shared']:
      yield dict(case, shared=False)

  def impl(self, case):
    import threading  # pylint: disable=g-import-not-at-top
    gin = C.fresh_gin()
    kinds = list(case['kinds'])
    shared = bool(case['shared'])
    if shared:
      kinds[1] = kinds[0]
    ctor_of = [0 if (shared and s == 1) else s for s in range(len(self.SNAMES))]
    made = {c: [] for c in range(len(self.SNAMES))}     # constructor -> objects it returned, in order (kept alive)
    mlock = threading.Lock()
    ctors, users = [], []
    for c in range(len(self.SNAMES)):
      def mk(c=c):
        o = KINDS[kinds[c]]()
        with mlock:
          made[c].append(o)
        return o
      mk.__name__ = mk.__qualname__ = 'mk%d' % c
      mk.__module__ = None
      ctors.append(gin.configurable('mk%d' % c)(mk))
    for i in range(len(self.USERS)):
      def u(x='unset'):
        return x
      u.__name__ = u.__qualname__ = 'u%d' % i
      u.__module__ = None
      users.append(gin.configurable('u%d' % i)(u))
    text = self.config(shared)
    gin.parse_config(text)

    fails = []
    current = {}       # scope index -> the object its construction returned in THIS lifetime of the configuration
    life = 0
    deliveries = repeated = after_clear = 0
    log = []

    def fail(kind, msg):
      fails.append((kind, 'after %r (lifetime %d, objects %r, config %r): %s' % (log, life, kinds, text, msg)))

    def deliver(s, thunks, what):
      """run the uses `thunks` of the singleton of scope s (several: each in its own thread, released together)"""
      nonlocal deliveries, repeated, after_clear
      c = ctor_of[s]
      before = len(made[c])
      res = [None] * len(thunks)
      errs = [None] * len(thunks)
      if len(thunks) == 1:
        try:
          res[0] = thunks[0]()
        except Exception as e:  # pylint: disable=broad-except
          errs[0] = e
      else:
        bar = threading.Barrier(len(thunks))

        def run(i):
          try:
            bar.wait(timeout=10)
            res[i] = thunks[i]()
          except Exception as e:  # pylint: disable=broad-except
            errs[i] = e
        ths = [threading.Thread(target=run, args=(i,)) for i in range(len(thunks))]
        for t in ths:
          t.start()
        for t in ths:
          t.join(20)
      constructed = len(made[c]) - before
      bad = [e for e in errs if e is not None]
      if bad:
        fail('singleton-use-failed', '%s raised %s: %s' % (what, type(bad[0]).__name__, str(bad[0])[:160]))
        if constructed and s not in current:
          current[s] = made[c][before]
        return
      first = s not in current
      if first:
        if constructed == 0:
          fail('first-use-did-not-construct', '%s: the first use of %r in this lifetime ran no constructor and delivered %s'
               % (what, self.SNAMES[s], [type(o).__name__ for o in res]))
          return
        current[s] = made[c][before]
        if life:
          after_clear += 1
      if constructed != (1 if first else 0):
        fail('singleton-constructed-twice', '%s: the constructor of %r ran %d more time(s); it %s'
             % (what, self.SNAMES[s], constructed, 'had not run in this lifetime' if first else 'had already run in this lifetime'))
      if any(o is not current[s] for o in res):
        fail('singleton-users-got-different-objects', '%s: %r was constructed as object %#x, the use(s) received %s'
             % (what, self.SNAMES[s], id(current[s]), [hex(id(o)) for o in res]))
      deliveries += len(res)
      if not first or len(res) > 1:
        repeated += 1

    def use_of(u, scoped):
      def thunk():
        if scoped:
          with gin.config_scope('s1'):
            return users[u]()
        return users[u]()
      return thunk

    for a in case['hist']:
      if len(fails) >= 3:
        break
      if a[0] in ('use', 'use-scoped'):
        log.append(a)
        deliver(self.USERS[a[1]], [use_of(a[1], a[0] == 'use-scoped')], 'u%d()%s' % (a[1], ' inside scope s1' if a[0] == 'use-scoped' else ''))
      elif a[0] == 'par':
        log.append(a)
        by_scope = {}
        for u in a[1]:
          by_scope.setdefault(self.USERS[u], []).append(u)
        if len(by_scope) == 1:
          (s, us), = by_scope.items()
          deliver(s, [use_of(u, False) for u in us], 'threads calling %s at once' % ', '.join('u%d()' % u for u in us))
        else:
          # users of different singletons: the bursts follow each other (the bookkeeping is per constructor)
          for s, us in sorted(by_scope.items()):
            deliver(s, [use_of(u, False) for u in us], 'threads calling %s at once' % ', '.join('u%d()' % u for u in us))
      elif a[0] == 'value':
        s, with_ctor = a[1], a[2]
        log.append(a)
        if with_ctor:
          deliver(s, [lambda s=s: gin.config.singleton_value(self.SNAMES[s], ctors[ctor_of[s]])], 'singleton_value(%r, mk%d)' % (self.SNAMES[s], ctor_of[s]))
        elif s in current:
          deliver(s, [lambda s=s: gin.config.singleton_value(self.SNAMES[s])], 'singleton_value(%r)' % self.SNAMES[s])
        else:
          before = len(made[ctor_of[s]])
          try:
            o = gin.config.singleton_value(self.SNAMES[s])
            fail('unbuilt-singleton-delivered', 'singleton_value(%r) without a constructor delivered a %s although nothing was '
                 'constructed for that name in this lifetime' % (self.SNAMES[s], type(o).__name__))
          except ValueError:
            pass
          except Exception as e:  # pylint: disable=broad-except
            fail('singleton-use-failed', 'singleton_value(%r) raised %s: %s' % (self.SNAMES[s], type(e).__name__, str(e)[:160]))
          if len(made[ctor_of[s]]) != before:
            fail('singleton-constructed-twice', 'a look-up without a constructor constructed something')
      elif a[0] in ('fill', 'drain'):
        s = a[1]
        if s in current and kinds[s] in FILL:
          log.append(a)
          if a[0] == 'fill':
            FILL[kinds[s]](current[s])
          else:
            current[s].clear()
      elif a[0] == 'clear':
        log.append(a)
        try:
          gin.clear_config()
          gin.parse_config(text)
        except Exception as e:  # pylint: disable=broad-except
          fail('clear-failed', '%s: %s' % (type(e).__name__, str(e)[:160]))
          break
        current = {}
        life += 1
    tags = sorted({'obj:' + kinds[s] for s in range(len(kinds))}) + (['cleared'] if life else []) + (['shared-ctor'] if shared else [])
    obs = T('Done')
    return {'obs': obs, 'fails': fails[:3], 'nontrivial': repeated >= 1 or after_clear >= 1, 'tags': tags}


ENGINES = [ThreadEngine(), ScopedClassReadEngine(), NothingToRecordEngine(), SingletonHistoryEngine()]
