"""C14 — includes act as in-place inclusion; files resolve through ordered locations."""
import copy
import posixpath

from harness import common as C
from harness import textm
from harness.common import T
from harness.main import Engine
from harness.props import c16

PID = 'C14'
LEVEL = 'proof'
RULE = ('include: 1-4 search locations x 1-3 readers (the default open() over a per-case temp dir + in-memory readers), '
        'files present in random subsets of (location x reader), include trees of depth <= 4 with conflicting bindings '
        'before and after each include, missing files at any position, absolute names, the three entry points called '
        'WITH THEIR DEFAULTS OMITTED; observed: store, returned include/import tree, error class + location chain, '
        'which physical file each reader opened. Independent oracle: a fresh gin parsing the textually flattened '
        'config (flattening done by the harness with its own location-major resolution rule). non-trivial = the same '
        'relative name readable through >= 2 (location, reader) pairs, or an include with conflicting bindings on both sides.')
TRUSTED_BASE = c16.TRUSTED_BASE
ASSUMPTIONS = ['package-relative names (gin/resource_reader.py) are exercised on the implementation only (engines package-names, package-portions: real directories and sys.path; importlib is not modelled)',
               'finalization inside parse_config_files_and_bindings is modelled as locking only; the generator keeps such configs free of macros and hooks']

BINDS = [('f', 'a'), ('f', 'b'), ('m.f', 'c'), ('g', 'a'), ('k', 'zz')]
UNKNOWN = [('nope.q', 'a'), ('ghost', 'a')]       # configurables nobody registered: an error unless skip_unknown covers them


def gen_file_items(rng, names_left, depth):
  items = []
  for _ in range(rng.randint(1, 5)):
    r = rng.random()
    if r < 0.6:
      sel, p = rng.choice(BINDS if rng.random() < 0.9 else UNKNOWN)
      items.append(['bind', rng.choice(['', '', 's1']), sel, p, str(rng.randint(0, 99))])
    elif r < 0.7:
      items.append(['import', rng.choice(c16.MODULES)])
    elif names_left and depth < 4:
      name = names_left.pop()
      items.append(['include', name])
      if rng.random() < 0.7:
        sel, p = rng.choice(BINDS)
        items.append(['bind', '', sel, p, str(rng.randint(100, 199))])
      if rng.random() < 0.3:      # the same file included again by the same file: it is applied again, at that point
        items.append(['include', name])
    else:
      sel, p = rng.choice(BINDS)
      items.append(['bind', '', sel, p, str(rng.randint(0, 99))])
  return items


def render(items):
  out = []
  for it in items:
    if it[0] == 'bind':
      out.append('%s%s.%s = %s' % (it[1] + '/' if it[1] else '', it[2], it[3], it[4]))
    elif it[0] == 'import':
      out.append('import ' + it[1])
    else:
      out.append("include '%s'" % it[1])
  return '\n'.join(out) + '\n'


def resolve(name, placed, prefixes, nreaders):
  """the property's rule: locations in the order registered, within a location each reader in order;
  absolute names bypass the locations.  placed: {reader: {full path: logical id}}"""
  for p in ([''] if name.startswith('/') else prefixes):
    full = posixpath.join(p, name)
    for r in range(nreaders):
      if full in placed[r]:
        return r, full
  return None


class IncludeEngine(Engine):
  name = 'include'
  imports = 'Model.SelectorMap Model.Parser Model.Stmt Model.StmtEngine'
  run_fn = 'run2'

  def budget(self, tier):
    return 400 if tier == 'quick' else 12000

  def corpus(self):
    return []

  def gen(self, rng, tier):
    nreaders = rng.randint(1, 3)
    prefixes = [''] + rng.sample(['locA', 'locB/', '$TMP/d1', 'locC/sub'], rng.randint(0, 3))
    logical = ['main.gin', 'inc1.gin', 'dir/inc2.gin', 'inc3.gin', '/abs/inc4.gin'][:rng.randint(1, 5)]
    left = list(reversed(logical[1:]))
    contents = {}
    pending = [logical[0]]
    while pending:
      n = pending.pop(0)
      its = gen_file_items(rng, left, len(contents))
      contents[n] = its
      pending += [it[1] for it in its if it[0] == 'include']
    missing = None
    if rng.random() < 0.25:
      cands = [n for n in contents if n != logical[0]] + ['nowhere.gin']
      missing = rng.choice(cands)
    # place each logical file (several variants with different contents!) at (location, reader) pairs
    files = [{} for _ in range(nreaders)]
    variants = {}
    for n, its in contents.items():
      if n == missing:
        continue
      places = []
      for p in ([''] if n.startswith('/') else prefixes):
        for r in range(nreaders):
          if r == 0 and not (p.startswith('$TMP') or n.startswith('$TMP')):
            continue           # the default reader only sees the per-case temp dir
          if rng.random() < 0.5:
            places.append((p, r))
      if not places:
        p = rng.choice([''] if n.startswith('/') else [q for q in prefixes])
        r = nreaders - 1 if nreaders > 1 else 0
        if r == 0:
          continue_missing = not p.startswith('$TMP')
          if continue_missing:
            p = None
        if p is not None:
          places = [(p, r)]
      for i, (p, r) in enumerate(places):
        v = copy.deepcopy(its)
        for it in v:             # a different value in each physical copy: shows which one was read
          if it[0] == 'bind':
            it[4] = str(int(it[4]) + 1000 * (i + 1))
        full = posixpath.join(p, n)
        files[r][full] = render(v)
        variants[(r, full)] = v
    entry = logical[0]
    # skip_unknown in every form, at every entry point: it must mean the same inside included files as at the top
    sk = rng.choice([None, None, None, True, False, ['list', ['nope.q']], ['tuple', ['ghost']], ['list', ['ghost', 'nope.q']],
                     ['set', ['nope.q']], ['list', ['other.name']]])
    r = rng.random()
    if r < 0.6:
      calls = [['file', entry, sk]]
    elif r < 0.8:
      calls = [['text', "f.a = 1\ninclude '%s'\nf.b = 2\n" % entry, sk]]
    else:
      flist = [entry]
      others = [n for n in contents if n != entry and n != missing]
      x = rng.random()
      if x < 0.3 and others:
        flist = [entry, rng.choice(others), entry]        # a file named twice is applied twice, in the order given
      elif x < 0.45:
        flist = [entry, entry]
      elif x < 0.6 and others:
        flist = [rng.choice(others), entry]
      calls = [['fab', flist, ['f.a = 77', 'g.a = 78'], rng.choice([None, True, False]), sk]]
    if rng.random() < 0.35 and calls[0][0] != 'fab':
      calls = calls + [copy.deepcopy(calls[0])]      # parse the same thing again (after a failure: same failure)
    if nreaders == 1 and not any(files):
      files[0] = {}
    return {'regs': c16.REGS, 'consts': [], 'files': files, 'prefixes': prefixes, 'modules': c16.MODULES,
            'calls': calls, 'engine2': True, 'entry': entry, 'missing': missing}

  def to_coq(self, case):
    return textm.case_coq(case)

  def shrink(self, case):
    for r in range(len(case['files'])):
      for path in list(case['files'][r]):
        c = copy.deepcopy(case)
        lines = c['files'][r][path].split('\n')
        for i in range(len(lines) - 1):
          c2 = copy.deepcopy(case)
          c2['files'][r][path] = '\n'.join(lines[:i] + lines[i + 1:])
          yield c2

  def impl(self, case):
    m = textm.TextMachine(case)
    try:
      obs, stable = m.run()
      d = m.dir
      opened = list(m.opened)
    finally:
      m.close()
    fails, tags = [], []
    nreaders = len(case['files'])
    placed = [{textm.subst(p, d): t for p, t in fs.items()} for fs in case['files']]
    prefixes = [textm.subst(p, d) for p in case['prefixes']]
    multi = False

    # flatten with the property's own resolution rule
    class Missing(Exception):
      pass
    expected_opened = []
    unreadable = []

    def flatten(text, depth=0):
      nonlocal multi
      out = []
      for line in text.split('\n'):
        if line.startswith('include '):
          name = line[len("include '"):-1]
          hit = resolve(name, placed, prefixes, nreaders)
          cnt = sum(1 for p in ([''] if name.startswith('/') else prefixes) for r in range(nreaders)
                    if posixpath.join(p, name) in placed[r])
          multi = multi or cnt >= 2
          if hit is None:
            unreadable.append(name)
            out.append(line)        # stays an include nobody can read: the oracle fails at this very point too
            continue
          expected_opened.append([hit[0], hit[1]])
          out.append(flatten(placed[hit[0]][hit[1]], depth + 1))
        else:
          out.append(line)
      return '\n'.join(out)
    call = case['calls'][0]
    try:
      if call[0] == 'file':
        hit = resolve(textm.subst(call[1], d), placed, prefixes, nreaders)
        if hit is None:
          raise Missing(call[1])
        expected_opened.append([hit[0], hit[1]])
        flat = flatten(placed[hit[0]][hit[1]])
        sk = call[2]
      elif call[0] == 'text':
        flat = flatten(call[1])
        sk = call[2]
      else:
        parts = []
        for f in call[1]:
          hit = resolve(textm.subst(f, d), placed, prefixes, nreaders)
          if hit is None:
            unreadable.append(f)
            parts.append("include '%s'" % f)
            continue
          expected_opened.append([hit[0], hit[1]])
          parts.append(flatten(placed[hit[0]][hit[1]]))
        flat = '\n'.join(parts + list(call[2]))
        sk = call[4]
      missing = None
    except Missing as e:
      missing, flat = str(e), None
    res = obs[0]
    tags.append(call[0])
    if missing is not None:
      tags.append('missing')
      if not (isinstance(res, T) and res.tag == 'Err' and res.args[0] == 'OSError'):
        fails.append(('missing-file-not-reported', 'file %r cannot be read by anyone; outcome %r' % (missing, C.jsonable(res))))
    else:
      if unreadable:
        tags.append('missing')
      # the oracle: a fresh gin given the flattened text with the same skip_unknown (an include nobody can read is still
      # an include nobody can read there)
      fm = textm.TextMachine({'regs': case['regs'], 'consts': [], 'files': [{}], 'prefixes': [''],
                              'modules': case['modules'], 'calls': [['text', flat, sk]]})
      try:
        fobs, _ = fm.run()
      finally:
        fm.close()
      fres = fobs[0]
      outcome = lambda x: (x.tag, x.args[0] if x.tag == 'Err' else None) if isinstance(x, T) else ('?', None)
      if outcome(res) != outcome(fres):
        kind = ('missing-file-not-reported' if outcome(fres) == ('Err', 'OSError') else
                'readable-config-rejected' if outcome(fres)[0] == 'Ok' else 'include-changes-outcome')
        fails.append((kind, 'outcome %r; a fresh gin parsing the flattened text %r with skip_unknown=%r: %r (names nobody can '
                      'read: %r)' % (C.jsonable(res), flat, sk, C.jsonable(fres), unreadable)))
      elif len(case['calls']) == 1 and C.jsonable(fobs[1]) != C.jsonable(obs[len(case['calls'])]):
        fails.append(('include-not-in-place', 'store after parsing %r; store after parsing the flattened text %r: %r' %
                      (C.jsonable(obs[len(case['calls'])]), C.jsonable(fobs[1]), flat)))
      elif isinstance(res, T) and res.tag == 'Ok':
        if C.jsonable(fobs[1]) != C.jsonable(obs[len(case['calls'])]):
          fails.append(('include-not-in-place', 'store after parsing %r; store after parsing the flattened text %r: %r' %
                        (C.jsonable(obs[len(case['calls'])]), C.jsonable(fobs[1]), flat)))
        got_opened = [o for o in opened]
        want_opened = [o for o in expected_opened if o[0] != 0] * len(case['calls'])
        if got_opened != want_opened:
          fails.append(('wrong-file-opened', 'readers opened %r, the location-major rule selects %r' % (got_opened, want_opened)))
        if call[0] == 'fab':
          want_lock = True if call[3] is None else call[3]
          if obs[-1] != want_lock:
            fails.append(('entry-point-finalize-default', 'finalize_config=%r: locked=%r' % (call[3], obs[-1])))
    if len(case['calls']) == 2 and call[0] != 'fab':
      if C.jsonable(obs[0]) != C.jsonable(obs[1]) and not (isinstance(obs[0], T) and obs[0].tag == 'Ok'):
        fails.append(('failed-parse-poisons-later-parse', 'first attempt %r, identical second attempt %r' %
                      (C.jsonable(obs[0]), C.jsonable(obs[1]))))
    if not stable:
      fails.append(('parse-left-state-dirty', ''))
    return {'obs': obs, 'fails': fails[:3], 'nontrivial': multi or bool(unreadable) or missing is not None, 'tags': tags}


class PackageNameEngine(Engine):
  """package-relative names ('pkg/sub/file.gin' resolved through the Python path by gin.resource_reader) and names that
  merely LOOK package-relative.  Real directories in a temp dir, real sys.path; implementation only (importlib is not
  modelled).  Expected outcome of each scenario is stated from the property: found in the first location that has it,
  or an IOError naming the locations and nothing applied."""
  name = 'package-names'
  model = False

  def budget(self, tier):
    return 0

  def corpus(self):
    return [{'scenario': s} for s in ('regular-package', 'namespace-dir-missing-file', 'namespace-dir-later-location',
                                      'builtin-module-name', 'frozen-module-name', 'nowhere')]

  def gen(self, rng, tier):
    return self.corpus()[0]

  def impl(self, case):
    import os
    import shutil
    import sys
    import tempfile
    sc = case['scenario']
    d = tempfile.mkdtemp(prefix='ginverif_pkg_')
    old_cwd, old_path = os.getcwd(), list(sys.path)
    fails = []
    try:
      os.chdir(d)
      sys.path.insert(0, d)
      gin = C.fresh_gin()

      @gin.configurable
      def pf(value='unset'):
        return value

      def write(path, text):
        os.makedirs(os.path.dirname(os.path.join(d, path)) or d, exist_ok=True)
        with open(os.path.join(d, path), 'w') as f:
          f.write(text)
      expect = None            # value of pf.value after the parse, or 'IOError'
      name = None
      if sc == 'regular-package':
        write('c14pkg/__init__.py', '')
        write('c14pkg/conf/__init__.py', '')
        write('elsewhere/c14pkg/conf/a.gin', "pf.value = 'wrong place'\n")
        os.makedirs(os.path.join(d, 'run'))
        write('c14pkg/conf/a.gin', "pf.value = 'package'\n")
        os.chdir(os.path.join(d, 'run'))          # not readable relative to the current directory: only through the package
        name, expect = 'c14pkg/conf/a.gin', 'package'
      elif sc == 'namespace-dir-missing-file':
        os.makedirs(os.path.join(d, 'c14confs'))   # a plain directory reachable from sys.path: a namespace package
        name, expect = 'c14confs/typo.gin', 'IOError'
      elif sc == 'namespace-dir-later-location':
        os.makedirs(os.path.join(d, 'c14confs'))
        write('later/c14confs/a.gin', "pf.value = 'later location'\n")
        gin.add_config_file_search_path(os.path.join(d, 'later'))
        name, expect = 'c14confs/a.gin', 'later location'
      elif sc == 'builtin-module-name':
        write('x.gin', "pf.value = 'a file nobody asked for'\n")
        name, expect = 'time/x.gin', 'IOError'
      elif sc == 'frozen-module-name':
        write('x.gin', "pf.value = 'a file nobody asked for'\n")
        name, expect = 'os/x.gin', 'IOError'
      else:
        name, expect = 'c14nowhere/x.gin', 'IOError'
      try:
        gin.parse_config_file(name)
        got = pf()
      except OSError:
        got = 'IOError'
      except Exception as e:  # pylint: disable=broad-except
        got = 'raised %s: %s' % (type(e).__name__, str(e)[:120])
      if got != expect:
        fails.append(('package-relative-name', 'scenario %s: parse_config_file(%r) gave %r, the property requires %r' % (sc, name, got, expect)))
      elif expect == 'IOError' and pf() != 'unset':
        fails.append(('missing-file-applied-something', '%s: pf.value = %r' % (sc, pf())))
    finally:
      os.chdir(old_cwd)
      sys.path[:] = old_path
      for m in [m for m in sys.modules if m.startswith(('c14pkg', 'c14confs', 'c14nowhere'))]:
        del sys.modules[m]
      shutil.rmtree(d, ignore_errors=True)
    return {'obs': T('Done'), 'fails': fails, 'nontrivial': True, 'tags': [sc]}


PP_PARAMS = ['a', 'b', 'c']
PP_FILES = ['f0.gin', 'f1.gin', 'f2.gin', 'f3.gin']
PP_PKGS = [['c14ns'], ['c14ns', 'conf'], ['c14ns', 'conf', 'deep']]
PP_LOC_OFFSET = 9000


def pp_portions(case):
  """The directories that make up the package, in Python-path order, by PEP 420 / the import system's rule, computed
  from the generated layout alone (never from importlib): walking the parent's path in order, the first directory
  holding an __init__.py IS the package (a regular package: one directory); if there is none, every directory of that
  name is a portion of a namespace package.  Returned as indices of the sys.path roots."""
  path = list(range(len(case['roots'])))
  for level in range(len(case['pkg'])):
    cands = [r for r in path if case['roots'][r]['has'] > level]
    regular = [r for r in cands if level in case['roots'][r]['init']]
    if regular:
      path = [regular[0]]
    elif cands:
      path = cands
    else:
      return []
  return path


def pp_physical(case, r, fname):
  return case['roots'][r]['has'] == len(case['pkg']) and r in case['files'].get(fname, {'at': []})['at']


def pp_locate(case, fname):
  """the property's rule for the relative name <pkg>/<fname>: each search location in the order registered, the current
  directory first, and within a location the plain reader before the Python-path reader; through the Python path a file
  of a package is found in the first of the package's directories that has it."""
  if case['cwd'] is not None and pp_physical(case, case['cwd'], fname):
    return ['root', case['cwd']]
  for r in pp_portions(case):
    if pp_physical(case, r, fname):
      return ['root', r]
  if case['loc'] is not None and fname in case['loc']:
    return ['loc']
  return None


def pp_offset(where):
  return PP_LOC_OFFSET if where[0] == 'loc' else 1000 * (where[1] + 1)


class PPUnreadable(Exception):
  pass


def pp_expect(case):
  """the flattened reading of the call, done by the harness: (state of pf's parameters, returned tree(s), the name
  nobody can read or None, physical copies read)."""
  state = {}
  read = []
  prefix = '/'.join(case['pkg']) + '/'

  def run_file(fname):
    where = pp_locate(case, fname)
    if where is None:
      raise PPUnreadable(prefix + fname)
    read.append(where)
    off = pp_offset(where)
    imports, includes = [], []
    for it in case['files'][fname]['items']:
      if it[0] == 'bind':
        state[it[1]] = it[2] + off
      elif it[0] == 'import':
        imports.append(it[1])
      else:
        includes.append(run_file(it[1]))
    return [prefix + fname, imports, includes]
  call = case['call']
  trees, unreadable = [], None
  try:
    if call[0] == 'file':
      trees.append(run_file(call[1]))
    elif call[0] == 'text':
      state['a'] = -1
      trees.append(run_file(call[1]))
      state['b'] = -2
    else:
      for f in call[1]:
        trees.append(run_file(f))
      for p, v in call[2]:
        state[p] = v
  except PPUnreadable as e:
    unreadable = str(e)
  return state, trees, unreadable, read


class PackagePortionsEngine(Engine):
  """package-relative names whose package is spread over several entries of the Python path (PEP 420 namespace packages,
  1-3 levels deep), mixed with regular packages that shadow / are shadowed, with each config file present in any subset
  of the package's directories (every physical copy binds different values, so the copy that was read is observable),
  named directly, through parse_config_files_and_bindings, from a config string, and as the target of includes to depth 3
  with conflicting bindings around them; optionally the current directory is one of the roots and one more search
  location is registered.  Real directories, real sys.path, implementation only (importlib is not modelled)."""
  name = 'package-portions'
  model = False
  rule = ('package-relative names x Python path: 1-4 sys.path roots each holding 0..all levels of the package directory '
          '(with or without __init__.py at each level), config files in any subset of the roots with different values per '
          'copy, includes between them to depth 3, cwd = neutral dir or one of the roots, optional extra search location; '
          'entry points: parse_config_file / parse_config / parse_config_files_and_bindings. Independent oracle: the harness '
          'flattens the include tree with its own resolution (location-major; within the Python path the first directory '
          'of the package, PEP 420 rule computed from the layout) and interprets the bindings itself. non-trivial = some '
          'file is read from a directory of the package other than its first one, or nobody can read a name.')

  def budget(self, tier):
    return 160 if tier == 'quick' else 4000

  def corpus(self):
    ns3 = [{'has': 2, 'init': []}, {'has': 2, 'init': []}, {'has': 2, 'init': []}]
    return [
        # a file in the third portion of a namespace package, named directly
        {'pkg': ['c14ns', 'conf'], 'roots': copy.deepcopy(ns3), 'path_mode': 'back', 'cwd': None, 'loc': None,
         'files': {'f0.gin': {'items': [['bind', 'a', 5]], 'at': [2]}},
         'call': ['file', 'f0.gin']},
        # an include chain first -> second -> third portion through the multi-file entry point, bindings on both sides
        {'pkg': ['c14ns', 'conf'], 'roots': copy.deepcopy(ns3), 'path_mode': 'back', 'cwd': None, 'loc': None,
         'files': {'f0.gin': {'items': [['bind', 'a', 1], ['bind', 'b', 2], ['include', 'f1.gin'], ['bind', 'c', 3]], 'at': [0]},
                   'f1.gin': {'items': [['import', 'time'], ['bind', 'b', 4], ['bind', 'c', 5], ['include', 'f2.gin']], 'at': [1]},
                   'f2.gin': {'items': [['bind', 'a', 6]], 'at': [2]}},
         'call': ['fab', ['f0.gin'], [['b', 77]]]},
        # the file is in the second and third of three portions (second wins), included from a config string; one-level
        # package at the front of the Python path; then a nested name that is in no portion at all
        {'pkg': ['c14ns'], 'roots': [{'has': 1, 'init': []}, {'has': 1, 'init': []}, {'has': 1, 'init': []}, {'has': 0, 'init': []}],
         'path_mode': 'front', 'cwd': None, 'loc': None,
         'files': {'f0.gin': {'items': [['bind', 'c', 9], ['include', 'f1.gin'], ['bind', 'a', 8]], 'at': [1, 2]},
                   'f1.gin': {'items': [['bind', 'c', 10]], 'at': []}},
         'call': ['text', 'f0.gin']},
    ]

  def gen(self, rng, tier):
    pkg = list(rng.choice(PP_PKGS))
    depth = len(pkg)
    nroots = rng.choice([1, 2, 2, 3, 3, 3, 4])
    roots = []
    for _ in range(nroots):
      has = depth if rng.random() < 0.75 else rng.randint(0, depth)
      init = []
      if rng.random() < 0.15:       # mostly namespace packages; sometimes a regular package at some level
        init = sorted(rng.sample(range(has), rng.randint(1, has))) if has else []
      roots.append({'has': has, 'init': init})
    full = [r for r in range(nroots) if roots[r]['has'] == depth]
    nfiles = rng.randint(1, 4)
    names = PP_FILES[:nfiles]
    files = {}
    for i, n in enumerate(names):
      items = []
      for _ in range(rng.randint(1, 4)):
        x = rng.random()
        later = names[i + 1:]
        if x < 0.55 or not later:
          items.append(['bind', rng.choice(PP_PARAMS), rng.randint(0, 99)])
        else:
          items.append(['include', rng.choice(later)])
          if rng.random() < 0.7:
            items.append(['bind', rng.choice(PP_PARAMS), rng.randint(100, 199)])
      if rng.random() < 0.3:
        items.insert(rng.randint(0, len(items)), ['import', rng.choice(['time', 'json', 'os.path'])])
      if not full or rng.random() < 0.12:
        at = []                     # in no directory of the package
      elif rng.random() < 0.4:
        at = [full[-1]]             # only in the last directory
      else:
        at = sorted(r for r in full if rng.random() < 0.5) or [rng.choice(full)]
      files[n] = {'items': items, 'at': at}
    cwd = rng.choice(range(nroots)) if rng.random() < 0.2 else None
    loc = sorted(n for n in names if rng.random() < 0.5) if rng.random() < 0.25 else None
    x = rng.random()
    if x < 0.45:
      call = ['file', names[0]]
    elif x < 0.65:
      call = ['text', names[0]]
    else:
      flist = [names[0]] + ([rng.choice(names)] if rng.random() < 0.5 else [])
      call = ['fab', flist, [[rng.choice(PP_PARAMS), 777]] if rng.random() < 0.7 else []]
    return {'pkg': pkg, 'roots': roots, 'path_mode': rng.choice(['front', 'back', 'split']), 'cwd': cwd, 'loc': loc,
            'files': files, 'call': call}

  def shrink(self, case):
    for n in case['files']:
      for i in range(len(case['files'][n]['items'])):
        c = copy.deepcopy(case)
        del c['files'][n]['items'][i]
        yield c
      for r in case['files'][n]['at']:
        c = copy.deepcopy(case)
        c['files'][n]['at'].remove(r)
        yield c
    if case['loc'] is not None:
      c = copy.deepcopy(case)
      c['loc'] = None
      yield c
    if case['cwd'] is not None:
      c = copy.deepcopy(case)
      c['cwd'] = None
      yield c

  def impl(self, case):
    import importlib
    import os
    import shutil
    import sys
    import tempfile
    d = os.path.realpath(tempfile.mkdtemp(prefix='ginverif_pp_'))
    old_cwd, old_path = os.getcwd(), list(sys.path)
    fails, tags = [], []
    pkg = case['pkg']
    prefix = '/'.join(pkg) + '/'
    rootdir = lambda r: os.path.join(d, 'p%d' % r)
    locdir = os.path.join(d, 'loc')

    def render_copy(fname, off):
      out = []
      for it in case['files'][fname]['items']:
        if it[0] == 'bind':
          out.append('pf.%s = %d' % (it[1], it[2] + off))
        elif it[0] == 'import':
          out.append('import ' + it[1])
        else:
          out.append("include '%s%s'" % (prefix, it[1]))
      return '\n'.join(out) + '\n'

    def write(path, text):
      os.makedirs(os.path.dirname(path), exist_ok=True)
      with open(path, 'w') as f:
        f.write(text)
    try:
      os.makedirs(os.path.join(d, 'run'))
      for r, root in enumerate(case['roots']):
        os.makedirs(rootdir(r))
        for level in range(root['has']):
          os.makedirs(os.path.join(rootdir(r), *pkg[:level + 1]))
          if level in root['init']:
            write(os.path.join(rootdir(r), *(pkg[:level + 1] + ['__init__.py'])), '')
      for n, f in case['files'].items():
        for r in f['at']:
          assert case['roots'][r]['has'] == len(pkg), 'generator: file placed outside a package directory'
          write(os.path.join(rootdir(r), *(pkg + [n])), render_copy(n, pp_offset(['root', r])))
      if case['loc'] is not None:
        os.makedirs(locdir)
        for n in case['loc']:
          write(os.path.join(locdir, *(pkg + [n])), render_copy(n, PP_LOC_OFFSET))
      os.chdir(os.path.join(d, 'run') if case['cwd'] is None else rootdir(case['cwd']))
      rds = [rootdir(r) for r in range(len(case['roots']))]
      if case['path_mode'] == 'front':
        sys.path[0:0] = rds
      elif case['path_mode'] == 'back':
        sys.path.extend(rds)
      else:
        sys.path[0:0] = rds[:1]
        sys.path.extend(rds[1:])
      importlib.invalidate_caches()
      gin = C.fresh_gin()

      @gin.configurable
      def pf(a='unset', b='unset', c='unset'):
        return {'a': a, 'b': b, 'c': c}
      if case['loc'] is not None:
        gin.add_config_file_search_path(locdir)

      want_state, want_trees, unreadable, read = pp_expect(case)
      want = {p: want_state.get(p, 'unset') for p in PP_PARAMS}
      tree = lambda t: [t.filename, list(t.imports), [tree(i) for i in t.includes]]
      call = case['call']
      got_trees, err = None, None
      try:
        if call[0] == 'file':
          got_trees = [tree(gin.parse_config_file(prefix + call[1]))]
        elif call[0] == 'text':
          incs, imps = gin.parse_config("pf.a = -1\ninclude '%s%s'\npf.b = -2\n" % (prefix, call[1]))
          got_trees = [tree(i) for i in incs]
          if list(imps):
            fails.append(('include-tree', 'the config string imports nothing itself, yet its imports are %r' % (list(imps),)))
        else:
          got_trees = [tree(t) for t in gin.parse_config_files_and_bindings(
              [prefix + f for f in call[1]], ['pf.%s = %d' % (p, v) for p, v in call[2]])]
      except OSError as e:
        err = ('OSError', str(e))
      except Exception as e:  # pylint: disable=broad-except
        err = (type(e).__name__, str(e)[:300])
      try:
        got = pf()
      except Exception as e:  # pylint: disable=broad-except
        got = 'pf() raised %s: %s' % (type(e).__name__, str(e)[:200])
      layout = 'package directories in Python-path order: %r; copies read by the property\'s rule: %r' % (
          ['p%d' % r for r in pp_portions(case)], read)
      if unreadable is None:
        if err is not None:
          fails.append(('package-relative-name', 'every name is readable through the Python path, yet %s: %s (%s)' %
                        (err[0], err[1], layout)))
        else:
          if got != want:
            fails.append(('package-relative-name', 'parameters of pf after the parse: %r, the flattened reading gives %r (%s)' %
                          (got, want, layout)))
          if got_trees != want_trees:
            fails.append(('include-tree', 'returned %r, the include tree is %r' % (got_trees, want_trees)))
          if call[0] == 'fab' and not gin.config_is_locked():
            fails.append(('entry-point-finalize-default', 'parse_config_files_and_bindings left the config unlocked'))
      else:
        tags.append('missing')
        if err is None or err[0] != 'OSError':
          fails.append(('missing-file-not-reported', '%r is in no directory anyone searches, outcome %r (%s)' %
                        (unreadable, err or got_trees, layout)))
        else:
          if unreadable not in err[1]:
            fails.append(('missing-file-not-reported', 'the error does not name %r: %s' % (unreadable, err[1])))
          if case['loc'] is not None and locdir not in err[1]:
            fails.append(('missing-file-not-reported', 'the error does not name the searched location %r: %s' % (locdir, err[1])))
          if got != want:
            fails.append(('missing-file-applied-something', 'parameters of pf after the failed parse: %r, the statements before '
                          'the unreadable name give %r (%s)' % (got, want, layout)))
      later = [w for w in read if w[0] == 'root' and pp_portions(case) and w[1] in pp_portions(case)[1:]
               and w[1] != case['cwd']]
      if later:
        tags.append('later-portion')
      if len(pp_portions(case)) >= 2:
        tags.append('multi-portion')
      tags.append(call[0])
    finally:
      os.chdir(old_cwd)
      sys.path[:] = old_path
      for m in [m for m in sys.modules if m == pkg[0] or m.startswith(pkg[0] + '.')]:
        del sys.modules[m]
      for k in [k for k in sys.path_importer_cache if k.startswith(d)]:
        del sys.path_importer_cache[k]
      shutil.rmtree(d, ignore_errors=True)
    return {'obs': T('Done'), 'fails': fails[:3], 'nontrivial': bool(later) or unreadable is not None, 'tags': tags}


ENGINES = [IncludeEngine(), PackageNameEngine(), PackagePortionsEngine()]
