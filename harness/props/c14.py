"""C14 — includes act as in-place inclusion; files resolve through ordered locations."""
import copy
import posixpath

from harness import common as C
from harness import textm
from harness.common import T
from harness.main import Engine
from harness.props import c16

PID = 'C14'
LEVEL = 'proof'
RULE = ('include: 1-4 search locations x 1-3 readers (the default open() over a per-case temp dir + in-memory readers), '
        'files present in random subsets of (location x reader), include trees of depth <= 4 with conflicting bindings '
        'before and after each include, missing files at any position, absolute names, the three entry points called '
        'WITH THEIR DEFAULTS OMITTED; observed: store, returned include/import tree, error class + location chain, '
        'which physical file each reader opened. Independent oracle: a fresh gin parsing the textually flattened '
        'config (flattening done by the harness with its own location-major resolution rule). non-trivial = the same '
        'relative name readable through >= 2 (location, reader) pairs, or an include with conflicting bindings on both sides.')
TRUSTED_BASE = c16.TRUSTED_BASE
ASSUMPTIONS = ['package-relative names (gin/resource_reader.py) are exercised with one generated package in the thorough tier only',
               'finalization inside parse_config_files_and_bindings is modelled as locking only; the generator keeps such configs free of macros and hooks']

BINDS = [('f', 'a'), ('f', 'b'), ('m.f', 'c'), ('g', 'a'), ('k', 'zz')]
UNKNOWN = [('nope.q', 'a'), ('ghost', 'a')]       # configurables nobody registered: an error unless skip_unknown covers them


def gen_file_items(rng, names_left, depth):
  items = []
  for _ in range(rng.randint(1, 5)):
    r = rng.random()
    if r < 0.6:
      sel, p = rng.choice(BINDS if rng.random() < 0.9 else UNKNOWN)
      items.append(['bind', rng.choice(['', '', 's1']), sel, p, str(rng.randint(0, 99))])
    elif r < 0.7:
      items.append(['import', rng.choice(c16.MODULES)])
    elif names_left and depth < 4:
      name = names_left.pop()
      items.append(['include', name])
      if rng.random() < 0.7:
        sel, p = rng.choice(BINDS)
        items.append(['bind', '', sel, p, str(rng.randint(100, 199))])
      if rng.random() < 0.3:      # the same file included again by the same file: it is applied again, at that point
        items.append(['include', name])
    else:
      sel, p = rng.choice(BINDS)
      items.append(['bind', '', sel, p, str(rng.randint(0, 99))])
  return items


def render(items):
  out = []
  for it in items:
    if it[0] == 'bind':
      out.append('%s%s.%s = %s' % (it[1] + '/' if it[1] else '', it[2], it[3], it[4]))
    elif it[0] == 'import':
      out.append('import ' + it[1])
    else:
      out.append("include '%s'" % it[1])
  return '\n'.join(out) + '\n'


def resolve(name, placed, prefixes, nreaders):
  """the property's rule: locations in the order registered, within a location each reader in order;
  absolute names bypass the locations.  placed: {reader: {full path: logical id}}"""
  for p in ([''] if name.startswith('/') else prefixes):
    full = posixpath.join(p, name)
    for r in range(nreaders):
      if full in placed[r]:
        return r, full
  return None


class IncludeEngine(Engine):
  name = 'include'
  imports = 'Model.SelectorMap Model.Parser Model.Stmt Model.StmtEngine'
  run_fn = 'run2'

  def budget(self, tier):
    return 400 if tier == 'quick' else 12000

  def corpus(self):
    return []

  def gen(self, rng, tier):
    nreaders = rng.randint(1, 3)
    prefixes = [''] + rng.sample(['locA', 'locB/', '$TMP/d1', 'locC/sub'], rng.randint(0, 3))
    logical = ['main.gin', 'inc1.gin', 'dir/inc2.gin', 'inc3.gin', '/abs/inc4.gin'][:rng.randint(1, 5)]
    left = list(reversed(logical[1:]))
    contents = {}
    pending = [logical[0]]
    while pending:
      n = pending.pop(0)
      its = gen_file_items(rng, left, len(contents))
      contents[n] = its
      pending += [it[1] for it in its if it[0] == 'include']
    missing = None
    if rng.random() < 0.25:
      cands = [n for n in contents if n != logical[0]] + ['nowhere.gin']
      missing = rng.choice(cands)
    # place each logical file (several variants with different contents!) at (location, reader) pairs
    files = [{} for _ in range(nreaders)]
    variants = {}
    for n, its in contents.items():
      if n == missing:
        continue
      places = []
      for p in ([''] if n.startswith('/') else prefixes):
        for r in range(nreaders):
          if r == 0 and not (p.startswith('$TMP') or n.startswith('$TMP')):
            continue           # the default reader only sees the per-case temp dir
          if rng.random() < 0.5:
            places.append((p, r))
      if not places:
        p = rng.choice([''] if n.startswith('/') else [q for q in prefixes])
        r = nreaders - 1 if nreaders > 1 else 0
        if r == 0:
          continue_missing = not p.startswith('$TMP')
          if continue_missing:
            p = None
        if p is not None:
          places = [(p, r)]
      for i, (p, r) in enumerate(places):
        v = copy.deepcopy(its)
        for it in v:             # a different value in each physical copy: shows which one was read
          if it[0] == 'bind':
            it[4] = str(int(it[4]) + 1000 * (i + 1))
        full = posixpath.join(p, n)
        files[r][full] = render(v)
        variants[(r, full)] = v
    entry = logical[0]
    # skip_unknown in every form, at every entry point: it must mean the same inside included files as at the top
    sk = rng.choice([None, None, None, True, False, ['list', ['nope.q']], ['tuple', ['ghost']], ['list', ['ghost', 'nope.q']],
                     ['set', ['nope.q']], ['list', ['other.name']]])
    r = rng.random()
    if r < 0.6:
      calls = [['file', entry, sk]]
    elif r < 0.8:
      calls = [['text', "f.a = 1\ninclude '%s'\nf.b = 2\n" % entry, sk]]
    else:
      flist = [entry]
      others = [n for n in contents if n != entry and n != missing]
      x = rng.random()
      if x < 0.3 and others:
        flist = [entry, rng.choice(others), entry]        # a file named twice is applied twice, in the order given
      elif x < 0.45:
        flist = [entry, entry]
      elif x < 0.6 and others:
        flist = [rng.choice(others), entry]
      calls = [['fab', flist, ['f.a = 77', 'g.a = 78'], rng.choice([None, True, False]), sk]]
    if rng.random() < 0.35 and calls[0][0] != 'fab':
      calls = calls + [copy.deepcopy(calls[0])]      # parse the same thing again (after a failure: same failure)
    if nreaders == 1 and not any(files):
      files[0] = {}
    return {'regs': c16.REGS, 'consts': [], 'files': files, 'prefixes': prefixes, 'modules': c16.MODULES,
            'calls': calls, 'engine2': True, 'entry': entry, 'missing': missing}

  def to_coq(self, case):
    return textm.case_coq(case)

  def shrink(self, case):
    for r in range(len(case['files'])):
      for path in list(case['files'][r]):
        c = copy.deepcopy(case)
        lines = c['files'][r][path].split('\n')
        for i in range(len(lines) - 1):
          c2 = copy.deepcopy(case)
          c2['files'][r][path] = '\n'.join(lines[:i] + lines[i + 1:])
          yield c2

  def impl(self, case):
    m = textm.TextMachine(case)
    try:
      obs, stable = m.run()
      d = m.dir
      opened = list(m.opened)
    finally:
      m.close()
    fails, tags = [], []
    nreaders = len(case['files'])
    placed = [{textm.subst(p, d): t for p, t in fs.items()} for fs in case['files']]
    prefixes = [textm.subst(p, d) for p in case['prefixes']]
    multi = False

    # flatten with the property's own resolution rule
    class Missing(Exception):
      pass
    expected_opened = []
    unreadable = []

    def flatten(text, depth=0):
      nonlocal multi
      out = []
      for line in text.split('\n'):
        if line.startswith('include '):
          name = line[len("include '"):-1]
          hit = resolve(name, placed, prefixes, nreaders)
          cnt = sum(1 for p in ([''] if name.startswith('/') else prefixes) for r in range(nreaders)
                    if posixpath.join(p, name) in placed[r])
          multi = multi or cnt >= 2
          if hit is None:
            unreadable.append(name)
            out.append(line)        # stays an include nobody can read: the oracle fails at this very point too
            continue
          expected_opened.append([hit[0], hit[1]])
          out.append(flatten(placed[hit[0]][hit[1]], depth + 1))
        else:
          out.append(line)
      return '\n'.join(out)
    call = case['calls'][0]
    try:
      if call[0] == 'file':
        hit = resolve(textm.subst(call[1], d), placed, prefixes, nreaders)
        if hit is None:
          raise Missing(call[1])
        expected_opened.append([hit[0], hit[1]])
        flat = flatten(placed[hit[0]][hit[1]])
        sk = call[2]
      elif call[0] == 'text':
        flat = flatten(call[1])
        sk = call[2]
      else:
        parts = []
        for f in call[1]:
          hit = resolve(textm.subst(f, d), placed, prefixes, nreaders)
          if hit is None:
            unreadable.append(f)
            parts.append("include '%s'" % f)
            continue
          expected_opened.append([hit[0], hit[1]])
          parts.append(flatten(placed[hit[0]][hit[1]]))
        flat = '\n'.join(parts + list(call[2]))
        sk = call[4]
      missing = None
    except Missing as e:
      missing, flat = str(e), None
    res = obs[0]
    tags.append(call[0])
    if missing is not None:
      tags.append('missing')
      if not (isinstance(res, T) and res.tag == 'Err' and res.args[0] == 'OSError'):
        fails.append(('missing-file-not-reported', 'file %r cannot be read by anyone; outcome %r' % (missing, C.jsonable(res))))
    else:
      if unreadable:
        tags.append('missing')
      # the oracle: a fresh gin given the flattened text with the same skip_unknown (an include nobody can read is still
      # an include nobody can read there)
      fm = textm.TextMachine({'regs': case['regs'], 'consts': [], 'files': [{}], 'prefixes': [''],
                              'modules': case['modules'], 'calls': [['text', flat, sk]]})
      try:
        fobs, _ = fm.run()
      finally:
        fm.close()
      fres = fobs[0]
      outcome = lambda x: (x.tag, x.args[0] if x.tag == 'Err' else None) if isinstance(x, T) else ('?', None)
      if outcome(res) != outcome(fres):
        kind = ('missing-file-not-reported' if outcome(fres) == ('Err', 'OSError') else
                'readable-config-rejected' if outcome(fres)[0] == 'Ok' else 'include-changes-outcome')
        fails.append((kind, 'outcome %r; a fresh gin parsing the flattened text %r with skip_unknown=%r: %r (names nobody can '
                      'read: %r)' % (C.jsonable(res), flat, sk, C.jsonable(fres), unreadable)))
      elif len(case['calls']) == 1 and C.jsonable(fobs[1]) != C.jsonable(obs[len(case['calls'])]):
        fails.append(('include-not-in-place', 'store after parsing %r; store after parsing the flattened text %r: %r' %
                      (C.jsonable(obs[len(case['calls'])]), C.jsonable(fobs[1]), flat)))
      elif isinstance(res, T) and res.tag == 'Ok':
        if C.jsonable(fobs[1]) != C.jsonable(obs[len(case['calls'])]):
          fails.append(('include-not-in-place', 'store after parsing %r; store after parsing the flattened text %r: %r' %
                        (C.jsonable(obs[len(case['calls'])]), C.jsonable(fobs[1]), flat)))
        got_opened = [o for o in opened]
        want_opened = [o for o in expected_opened if o[0] != 0] * len(case['calls'])
        if got_opened != want_opened:
          fails.append(('wrong-file-opened', 'readers opened %r, the location-major rule selects %r' % (got_opened, want_opened)))
        if call[0] == 'fab':
          want_lock = True if call[3] is None else call[3]
          if obs[-1] != want_lock:
            fails.append(('entry-point-finalize-default', 'finalize_config=%r: locked=%r' % (call[3], obs[-1])))
    if len(case['calls']) == 2 and call[0] != 'fab':
      if C.jsonable(obs[0]) != C.jsonable(obs[1]) and not (isinstance(obs[0], T) and obs[0].tag == 'Ok'):
        fails.append(('failed-parse-poisons-later-parse', 'first attempt %r, identical second attempt %r' %
                      (C.jsonable(obs[0]), C.jsonable(obs[1]))))
    if not stable:
      fails.append(('parse-left-state-dirty', ''))
    return {'obs': obs, 'fails': fails[:3], 'nontrivial': multi or bool(unreadable) or missing is not None, 'tags': tags}


class PackageNameEngine(Engine):
  """package-relative names ('pkg/sub/file.gin' resolved through the Python path by gin.resource_reader) and names that
  merely LOOK package-relative.  Real directories in a temp dir, real sys.path; implementation only (importlib is not
  modelled).  Expected outcome of each scenario is stated from the property: found in the first location that has it,
  or an IOError naming the locations and nothing applied."""
  name = 'package-names'
  model = False

  def budget(self, tier):
    return 0

  def corpus(self):
    return [{'scenario': s} for s in ('regular-package', 'namespace-dir-missing-file', 'namespace-dir-later-location',
                                      'builtin-module-name', 'frozen-module-name', 'nowhere')]

  def gen(self, rng, tier):
    return self.corpus()[0]

  def impl(self, case):
    import os
    import shutil
    import sys
    import tempfile
    sc = case['scenario']
    d = tempfile.mkdtemp(prefix='ginverif_pkg_')
    old_cwd, old_path = os.getcwd(), list(sys.path)
    fails = []
    try:
      os.chdir(d)
      sys.path.insert(0, d)
      gin = C.fresh_gin()

      @gin.configurable
      def pf(value='unset'):
        return value

      def write(path, text):
        os.makedirs(os.path.dirname(os.path.join(d, path)) or d, exist_ok=True)
        with open(os.path.join(d, path), 'w') as f:
          f.write(text)
      expect = None            # value of pf.value after the parse, or 'IOError'
      name = None
      if sc == 'regular-package':
        write('c14pkg/__init__.py', '')
        write('c14pkg/conf/__init__.py', '')
        write('elsewhere/c14pkg/conf/a.gin', "pf.value = 'wrong place'\n")
        os.makedirs(os.path.join(d, 'run'))
        write('c14pkg/conf/a.gin', "pf.value = 'package'\n")
        os.chdir(os.path.join(d, 'run'))          # not readable relative to the current directory: only through the package
        name, expect = 'c14pkg/conf/a.gin', 'package'
      elif sc == 'namespace-dir-missing-file':
        os.makedirs(os.path.join(d, 'c14confs'))   # a plain directory reachable from sys.path: a namespace package
        name, expect = 'c14confs/typo.gin', 'IOError'
      elif sc == 'namespace-dir-later-location':
        os.makedirs(os.path.join(d, 'c14confs'))
        write('later/c14confs/a.gin', "pf.value = 'later location'\n")
        gin.add_config_file_search_path(os.path.join(d, 'later'))
        name, expect = 'c14confs/a.gin', 'later location'
      elif sc == 'builtin-module-name':
        write('x.gin', "pf.value = 'a file nobody asked for'\n")
        name, expect = 'time/x.gin', 'IOError'
      elif sc == 'frozen-module-name':
        write('x.gin', "pf.value = 'a file nobody asked for'\n")
        name, expect = 'os/x.gin', 'IOError'
      else:
        name, expect = 'c14nowhere/x.gin', 'IOError'
      try:
        gin.parse_config_file(name)
        got = pf()
      except OSError:
        got = 'IOError'
      except Exception as e:  # pylint: disable=broad-except
        got = 'raised %s: %s' % (type(e).__name__, str(e)[:120])
      if got != expect:
        fails.append(('package-relative-name', 'scenario %s: parse_config_file(%r) gave %r, the property requires %r' % (sc, name, got, expect)))
      elif expect == 'IOError' and pf() != 'unset':
        fails.append(('missing-file-applied-something', '%s: pf.value = %r' % (sc, pf())))
    finally:
      os.chdir(old_cwd)
      sys.path[:] = old_path
      for m in [m for m in sys.modules if m.startswith(('c14pkg', 'c14confs', 'c14nowhere'))]:
        del sys.modules[m]
      shutil.rmtree(d, ignore_errors=True)
    return {'obs': T('Done'), 'fails': fails, 'nontrivial': True, 'tags': [sc]}


ENGINES = [IncludeEngine(), PackageNameEngine()]
