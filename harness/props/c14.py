"""C14 — includes act as in-place inclusion; files resolve through ordered locations."""
import copy
import posixpath

from harness import common as C
from harness import textm
from harness.common import T
from harness.main import Engine
from harness.props import c16

PID = 'C14'
LEVEL = 'proof'
RULE = ('include: 1-4 search locations x 1-3 readers (the default open() over a per-case temp dir + in-memory readers), '
        'files present in random subsets of (location x reader), include trees of depth <= 4 with conflicting bindings '
        'before and after each include, missing files at any position, absolute names, the three entry points called '
        'WITH THEIR DEFAULTS OMITTED; observed: store, returned include/import tree, error class + location chain, '
        'which physical file each reader opened. Independent oracle: a fresh gin parsing the textually flattened '
        'config (flattening done by the harness with its own location-major resolution rule). non-trivial = the same '
        'relative name readable through >= 2 (location, reader) pairs, or an include with conflicting bindings on both sides.')
TRUSTED_BASE = c16.TRUSTED_BASE
ASSUMPTIONS = ['package-relative names (gin/resource_reader.py) are exercised on the implementation only (engines package-names, package-portions: real directories and sys.path; importlib is not modelled)',
               'finalization inside parse_config_files_and_bindings is modelled as locking only; the generator keeps such configs free of macros and hooks']

BINDS = [('f', 'a'), ('f', 'b'), ('m.f', 'c'), ('g', 'a'), ('k', 'zz')]
UNKNOWN = [('nope.q', 'a'), ('ghost', 'a')]       # configurables nobody registered: an error unless skip_unknown covers them


def gen_file_items(rng, names_left, depth):
  items = []
  for _ in range(rng.randint(1, 5)):
    r = rng.random()
    if r < 0.6:
      sel, p = rng.choice(BINDS if rng.random() < 0.9 else UNKNOWN)
      items.append(['bind', rng.choice(['', '', 's1']), sel, p, str(rng.randint(0, 99))])
    elif r < 0.7:
      items.append(['import', rng.choice(c16.MODULES)])
    elif names_left and depth < 4:
      name = names_left.pop()
      items.append(['include', name])
      if rng.random() < 0.7:
        sel, p = rng.choice(BINDS)
        items.append(['bind', '', sel, p, str(rng.randint(100, 199))])
      if rng.random() < 0.3:      # the same file included again by the same file: it is applied again, at that point
        items.append(['include', name])
    else:
      sel, p = rng.choice(BINDS)
      items.append(['bind', '', sel, p, str(rng.randint(0, 99))])
  return items


def render(items):
  out = []
  for it in items:
    if it[0] == 'bind':
      out.append('%s%s.%s = %s' % (it[1] + '/' if it[1] else '', it[2], it[3], it[4]))
    elif it[0] == 'import':
      out.append('import ' + it[1])
    else:
      out.append("include '%s'" % it[1])
  return '\n'.join(out) + '\n'


def resolve(name, placed, prefixes, nreaders):
  """the property's rule: locations in the order registered, within a location each reader in order;
  absolute names bypass the locations.  placed: {reader: {full path: logical id}}"""
  for p in ([''] if name.startswith('/') else prefixes):
    full = posixpath.join(p, name)
    for r in range(nreaders):
      if full in placed[r]:
        return r, full
  return None


class IncludeEngine(Engine):
  name = 'include'
  imports = 'Model.SelectorMap Model.Parser Model.Stmt Model.StmtEngine'
  run_fn = 'run2'

  def budget(self, tier):
    return 400 if tier == 'quick' else 12000

  def corpus(self):
    return []

  def gen(self, rng, tier):
    nreaders = rng.randint(1, 3)
    prefixes = [''] + rng.sample(['locA', 'locB/', '$TMP/d1', 'locC/sub'], rng.randint(0, 3))
    logical = ['main.gin', 'inc1.gin', 'dir/inc2.gin', 'inc3.gin', '/abs/inc4.gin'][:rng.randint(1, 5)]
    left = list(reversed(logical[1:]))
    contents = {}
    pending = [logical[0]]
    while pending:
      n = pending.pop(0)
      its = gen_file_items(rng, left, len(contents))
      contents[n] = its
      pending += [it[1] for it in its if it[0] == 'include']
    missing = None
    if rng.random() < 0.25:
      cands = [n for n in contents if n != logical[0]] + ['nowhere.gin']
      missing = rng.choice(cands)
    # place each logical file (several variants with different contents!) at (location, reader) pairs
    files = [{} for _ in range(nreaders)]
    variants = {}
    for n, its in contents.items():
      if n == missing:
        continue
      places = []
      for p in ([''] if n.startswith('/') else prefixes):
        for r in range(nreaders):
          if r == 0 and not (p.startswith('$TMP') or n.startswith('$TMP')):
            continue           # the default reader only sees the per-case temp dir
          if rng.random() < 0.5:
            places.append((p, r))
      if not places:
        p = rng.choice([''] if n.startswith('/') else [q for q in prefixes])
        r = nreaders - 1 if nreaders > 1 else 0
        if r == 0:
          continue_missing = not p.startswith('$TMP')
          if continue_missing:
            p = None
        if p is not None:
          places = [(p, r)]
      for i, (p, r) in enumerate(places):
        v = copy.deepcopy(its)
        for it in v:             # a different value in each physical copy: shows which one was read
          if it[0] == 'bind':
            it[4] = str(int(it[4]) + 1000 * (i + 1))
        full = posixpath.join(p, n)
        files[r][full] = render(v)
        variants[(r, full)] = v
    entry = logical[0]
    # skip_unknown in every form, at every entry point: it must mean the same inside included files as at the top
    sk = rng.choice([None, None, None, True, False, ['list', ['nope.q']], ['tuple', ['ghost']], ['list', ['ghost', 'nope.q']],
                     ['set', ['nope.q']], ['list', ['other.name']]])
    r = rng.random()
    if r < 0.6:
      calls = [['file', entry, sk]]
    elif r < 0.8:
      calls = [['text', "f.a = 1\ninclude '%s'\nf.b = 2\n" % entry, sk]]
    else:
      flist = [entry]
      others = [n for n in contents if n != entry and n != missing]
      x = rng.random()
      if x < 0.3 and others:
        flist = [entry, rng.choice(others), entry]        # a file named twice is applied twice, in the order given
      elif x < 0.45:
        flist = [entry, entry]
      elif x < 0.6 and others:
        flist = [rng.choice(others), entry]
      calls = [['fab', flist, ['f.a = 77', 'g.a = 78'], rng.choice([None, True, False]), sk]]
    if rng.random() < 0.35 and calls[0][0] != 'fab':
      calls = calls + [copy.deepcopy(calls[0])]      # parse the same thing again (after a failure: same failure)
    if nreaders == 1 and not any(files):
      files[0] = {}
    return {'regs': c16.REGS, 'consts': [], 'files': files, 'prefixes': prefixes, 'modules': c16.MODULES,
            'calls': calls, 'engine2': True, 'entry': entry, 'missing': missing}

  def to_coq(self, case):
    return textm.case_coq(case)

  def shrink(self, case):
    for r in range(len(case['files'])):
      for path in list(case['files'][r]):
        c = copy.deepcopy(case)
        lines = c['files'][r][path].split('\n')
        for i in range(len(lines) - 1):
          c2 = copy.deepcopy(case)
          c2['files'][r][path] = '\n'.join(lines[:i] + lines[i + 1:])
          yield c2

  def impl(self, case):
    m = textm.TextMachine(case)
    try:
      obs, stable = m.run()
      d = m.dir
      opened = list(m.opened)
    finally:
      m.close()
    fails, tags = [], []
    nreaders = len(case['files'])
    placed = [{textm.subst(p, d): t for p, t in fs.items()} for fs in case['files']]
    prefixes = [textm.subst(p, d) for p in case['prefixes']]
    multi = False

    # flatten with the property's own resolution rule
    class Missing(Exception):
      pass
    expected_opened = []
    unreadable = []

    def flatten(text, depth=0):
      nonlocal multi
      out = []
      for line in text.split('\n'):
        if line.startswith('include '):
          name = line[len("include '"):-1]
          hit = resolve(name, placed, prefixes, nreaders)
          cnt = sum(1 for p in ([''] if name.startswith('/') else prefixes) for r in range(nreaders)
                    if posixpath.join(p, name) in placed[r])
          multi = multi or cnt >= 2
          if hit is None:
            unreadable.append(name)
            out.append(line)        # stays an include nobody can read: the oracle fails at this very point too
            continue
          expected_opened.append([hit[0], hit[1]])
          out.append(flatten(placed[hit[0]][hit[1]], depth + 1))
        else:
          out.append(line)
      return '\n'.join(out)
    call = case['calls'][0]
    try:
      if call[0] == 'file':
        hit = resolve(textm.subst(call[1], d), placed, prefixes, nreaders)
        if hit is None:
          raise Missing(call[1])
        expected_opened.append([hit[0], hit[1]])
        flat = flatten(placed[hit[0]][hit[1]])
        sk = call[2]
      elif call[0] == 'text':
        flat = flatten(call[1])
        sk = call[2]
      else:
        parts = []
        for f in call[1]:
          hit = resolve(textm.subst(f, d), placed, prefixes, nreaders)
          if hit is None:
            unreadable.append(f)
            parts.append("include '%s'" % f)
            continue
          expected_opened.append([hit[0], hit[1]])
          parts.append(flatten(placed[hit[0]][hit[1]]))
        flat = '\n'.join(parts + list(call[2]))
        sk = call[4]
      missing = None
    except Missing as e:
      missing, flat = str(e), None
    res = obs[0]
    tags.append(call[0])
    if missing is not None:
      tags.append('missing')
      if not (isinstance(res, T) and res.tag == 'Err' and res.args[0] == 'OSError'):
        fails.append(('missing-file-not-reported', 'file %r cannot be read by anyone; outcome %r' % (missing, C.jsonable(res))))
    else:
      if unreadable:
        tags.append('missing')
      # the oracle: a fresh gin given the flattened text with the same skip_unknown (an include nobody can read is still
      # an include nobody can read there)
      fm = textm.TextMachine({'regs': case['regs'], 'consts': [], 'files': [{}], 'prefixes': [''],
                              'modules': case['modules'], 'calls': [['text', flat, sk]]})
      try:
        fobs, _ = fm.run()
      finally:
        fm.close()
      fres = fobs[0]
      outcome = lambda x: (x.tag, x.args[0] if x.tag == 'Err' else None) if isinstance(x, T) else ('?', None)
      if outcome(res) != outcome(fres):
        kind = ('missing-file-not-reported' if outcome(fres) == ('Err', 'OSError') else
                'readable-config-rejected' if outcome(fres)[0] == 'Ok' else 'include-changes-outcome')
        fails.append((kind, 'outcome %r; a fresh gin parsing the flattened text %r with skip_unknown=%r: %r (names nobody can '
                      'read: %r)' % (C.jsonable(res), flat, sk, C.jsonable(fres), unreadable)))
      elif len(case['calls']) == 1 and C.jsonable(fobs[1]) != C.jsonable(obs[len(case['calls'])]):
        fails.append(('include-not-in-place', 'store after parsing %r; store after parsing the flattened text %r: %r' %
                      (C.jsonable(obs[len(case['calls'])]), C.jsonable(fobs[1]), flat)))
      elif isinstance(res, T) and res.tag == 'Ok':
        if C.jsonable(fobs[1]) != C.jsonable(obs[len(case['calls'])]):
          fails.append(('include-not-in-place', 'store after parsing %r; store after parsing the flattened text %r: %r' %
                        (C.jsonable(obs[len(case['calls'])]), C.jsonable(fobs[1]), flat)))
        got_opened = [o for o in opened]
        want_opened = [o for o in expected_opened if o[0] != 0] * len(case['calls'])
        if got_opened != want_opened:
          fails.append(('wrong-file-opened', 'readers opened %r, the location-major rule selects %r' % (got_opened, want_opened)))
        if call[0] == 'fab':
          want_lock = True if call[3] is None else call[3]
          if obs[-1] != want_lock:
            fails.append(('entry-point-finalize-default', 'finalize_config=%r: locked=%r' % (call[3], obs[-1])))
    if len(case['calls']) == 2 and call[0] != 'fab':
      if C.jsonable(obs[0]) != C.jsonable(obs[1]) and not (isinstance(obs[0], T) and obs[0].tag == 'Ok'):
        fails.append(('failed-parse-poisons-later-parse', 'first attempt %r, identical second attempt %r' %
                      (C.jsonable(obs[0]), C.jsonable(obs[1]))))
    if not stable:
      fails.append(('parse-left-state-dirty', ''))
    return {'obs': obs, 'fails': fails[:3], 'nontrivial': multi or bool(unreadable) or missing is not None, 'tags': tags}


class PackageNameEngine(Engine):
  """package-relative names ('pkg/sub/file.gin' resolved through the Python path by gin.resource_reader) and names that
  merely LOOK package-relative.  Real directories in a temp dir, real sys.path; implementation only (importlib is not
  modelled).  Expected outcome of each scenario is stated from the property: found in the first location that has it,
  or an IOError naming the locations and nothing applied."""
  name = 'package-names'
  model = False

  def budget(self, tier):
    return 0

  def corpus(self):
    return [{'scenario': s} for s in ('regular-package', 'namespace-dir-missing-file', 'namespace-dir-later-location',
                                      'builtin-module-name', 'frozen-module-name', 'nowhere')]

  def gen(self, rng, tier):
    return self.corpus()[0]

  def impl(self, case):
    import os
    import shutil
    import sys
    import tempfile
    sc = case['scenario']
    d = tempfile.mkdtemp(prefix='ginverif_pkg_')
    old_cwd, old_path = os.getcwd(), list(sys.path)
    fails = []
    try:
      os.chdir(d)
      sys.path.insert(0, d)
      gin = C.fresh_gin()

      @gin.configurable
      def pf(value='unset'):
        return value

      def write(path, text):
        os.makedirs(os.path.dirname(os.path.join(d, path)) or d, exist_ok=True)
        with open(os.path.join(d, path), 'w') as f:
          f.write(text)
      expect = None            # value of pf.value after the parse, or 'IOError'
      name = None
      if sc == 'regular-package':
        write('c14pkg/__init__.py', '')
        write('c14pkg/conf/__init__.py', '')
        write('elsewhere/c14pkg/conf/a.gin', "pf.value = 'wrong place'\n")
        os.makedirs(os.path.join(d, 'run'))
        write('c14pkg/conf/a.gin', "pf.value = 'package'\n")
        os.chdir(os.path.join(d, 'run'))          # not readable relative to the current directory: only through the package
        name, expect = 'c14pkg/conf/a.gin', 'package'
      elif sc == 'namespace-dir-missing-file':
        os.makedirs(os.path.join(d, 'c14confs'))   # a plain directory reachable from sys.path: a namespace package
        name, expect = 'c14confs/typo.gin', 'IOError'
      elif sc == 'namespace-dir-later-location':
        os.makedirs(os.path.join(d, 'c14confs'))
        write('later/c14confs/a.gin', "pf.value = 'later location'\n")
        gin.add_config_file_search_path(os.path.join(d, 'later'))
        name, expect = 'c14confs/a.gin', 'later location'
      elif sc == 'builtin-module-name':
        write('x.gin', "pf.value = 'a file nobody asked for'\n")
        name, expect = 'time/x.gin', 'IOError'
      elif sc == 'frozen-module-name':
        write('x.gin', "pf.value = 'a file nobody asked for'\n")
        name, expect = 'os/x.gin', 'IOError'
      else:
        name, expect = 'c14nowhere/x.gin', 'IOError'
      try:
        gin.parse_config_file(name)
        got = pf()
      except OSError:
        got = 'IOError'
      except Exception as e:  # pylint: disable=broad-except
        got = 'raised %s: %s' % (type(e).__name__, str(e)[:120])
      if got != expect:
        fails.append(('package-relative-name', 'scenario %s: parse_config_file(%r) gave %r, the property requires %r' % (sc, name, got, expect)))
      elif expect == 'IOError' and pf() != 'unset':
        fails.append(('missing-file-applied-something', '%s: pf.value = %r' % (sc, pf())))
    finally:
      os.chdir(old_cwd)
      sys.path[:] = old_path
      for m in [m for m in sys.modules if m.startswith(('c14pkg', 'c14confs', 'c14nowhere'))]:
        del sys.modules[m]
      shutil.rmtree(d, ignore_errors=True)
    return {'obs': T('Done'), 'fails': fails, 'nontrivial': True, 'tags': [sc]}


PP_PARAMS = ['a', 'b', 'c']
PP_FILES = ['f0.gin', 'f1.gin', 'f2.gin', 'f3.gin']
PP_PKGS = [['c14ns'], ['c14ns', 'conf'], ['c14ns', 'conf', 'deep']]
PP_LOC_OFFSET = 9000


def pp_portions(case):
  """The directories that make up the package, in Python-path order, by PEP 420 / the import system's rule, computed
  from the generated layout alone (never from importlib): walking the parent's path in order, the first directory
  holding an __init__.py IS the package (a regular package: one directory); if there is none, every directory of that
  name is a portion of a namespace package.  Returned as indices of the sys.path roots."""
  path = list(range(len(case['roots'])))
  for level in range(len(case['pkg'])):
    cands = [r for r in path if case['roots'][r]['has'] > level]
    regular = [r for r in cands if level in case['roots'][r]['init']]
    if regular:
      path = [regular[0]]
    elif cands:
      path = cands
    else:
      return []
  return path


def pp_physical(case, r, fname):
  return case['roots'][r]['has'] == len(case['pkg']) and r in case['files'].get(fname, {'at': []})['at']


def pp_locate(case, fname):
  """the property's rule for the relative name <pkg>/<fname>: each search location in the order registered, the current
  directory first, and within a location the plain reader before the Python-path reader; through the Python path a file
  of a package is found in the first of the package's directories that has it."""
  if case['cwd'] is not None and pp_physical(case, case['cwd'], fname):
    return ['root', case['cwd']]
  for r in pp_portions(case):
    if pp_physical(case, r, fname):
      return ['root', r]
  if case['loc'] is not None and fname in case['loc']:
    return ['loc']
  return None


def pp_offset(where):
  return PP_LOC_OFFSET if where[0] == 'loc' else 1000 * (where[1] + 1)


class PPUnreadable(Exception):
  pass


def pp_expect(case):
  """the flattened reading of the call, done by the harness: (state of pf's parameters, returned tree(s), the name
  nobody can read or None, physical copies read)."""
  state = {}
  read = []
  prefix = '/'.join(case['pkg']) + '/'

  def run_file(fname):
    where = pp_locate(case, fname)
    if where is None:
      raise PPUnreadable(prefix + fname)
    read.append(where)
    off = pp_offset(where)
    imports, includes = [], []
    for it in case['files'][fname]['items']:
      if it[0] == 'bind':
        state[it[1]] = it[2] + off
      elif it[0] == 'import':
        imports.append(it[1])
      else:
        includes.append(run_file(it[1]))
    return [prefix + fname, imports, includes]
  call = case['call']
  trees, unreadable = [], None
  try:
    if call[0] == 'file':
      trees.append(run_file(call[1]))
    elif call[0] == 'text':
      state['a'] = -1
      trees.append(run_file(call[1]))
      state['b'] = -2
    else:
      for f in call[1]:
        trees.append(run_file(f))
      for p, v in call[2]:
        state[p] = v
  except PPUnreadable as e:
    unreadable = str(e)
  return state, trees, unreadable, read


class PackagePortionsEngine(Engine):
  """package-relative names whose package is spread over several entries of the Python path (PEP 420 namespace packages,
  1-3 levels deep), mixed with regular packages that shadow / are shadowed, with each config file present in any subset
  of the package's directories (every physical copy binds different values, so the copy that was read is observable),
  named directly, through parse_config_files_and_bindings, from a config string, and as the target of includes to depth 3
  with conflicting bindings around them; optionally the current directory is one of the roots and one more search
  location is registered.  Real directories, real sys.path, implementation only (importlib is not modelled)."""
  name = 'package-portions'
  model = False
  rule = ('package-relative names x Python path: 1-4 sys.path roots each holding 0..all levels of the package directory '
          '(with or without __init__.py at each level), config files in any subset of the roots with different values per '
          'copy, includes between them to depth 3, cwd = neutral dir or one of the roots, optional extra search location; '
          'entry points: parse_config_file / parse_config / parse_config_files_and_bindings. Independent oracle: the harness '
          'flattens the include tree with its own resolution (location-major; within the Python path the first directory '
          'of the package, PEP 420 rule computed from the layout) and interprets the bindings itself. non-trivial = some '
          'file is read from a directory of the package other than its first one, or nobody can read a name.')

  def budget(self, tier):
    return 160 if tier == 'quick' else 4000

  def corpus(self):
    ns3 = [{'has': 2, 'init': []}, {'has': 2, 'init': []}, {'has': 2, 'init': []}]
    return [
        # a file in the third portion of a namespace package, named directly
        {'pkg': ['c14ns', 'conf'], 'roots': copy.deepcopy(ns3), 'path_mode': 'back', 'cwd': None, 'loc': None,
         'files': {'f0.gin': {'items': [['bind', 'a', 5]], 'at': [2]}},
         'call': ['file', 'f0.gin']},
        # an include chain first -> second -> third portion through the multi-file entry point, bindings on both sides
        {'pkg': ['c14ns', 'conf'], 'roots': copy.deepcopy(ns3), 'path_mode': 'back', 'cwd': None, 'loc': None,
         'files': {'f0.gin': {'items': [['bind', 'a', 1], ['bind', 'b', 2], ['include', 'f1.gin'], ['bind', 'c', 3]], 'at': [0]},
                   'f1.gin': {'items': [['import', 'time'], ['bind', 'b', 4], ['bind', 'c', 5], ['include', 'f2.gin']], 'at': [1]},
                   'f2.gin': {'items': [['bind', 'a', 6]], 'at': [2]}},
         'call': ['fab', ['f0.gin'], [['b', 77]]]},
        # the file is in the second and third of three portions (second wins), included from a config string; one-level
        # package at the front of the Python path; then a nested name that is in no portion at all
        {'pkg': ['c14ns'], 'roots': [{'has': 1, 'init': []}, {'has': 1, 'init': []}, {'has': 1, 'init': []}, {'has': 0, 'init': []}],
         'path_mode': 'front', 'cwd': None, 'loc': None,
         'files': {'f0.gin': {'items': [['bind', 'c', 9], ['include', 'f1.gin'], ['bind', 'a', 8]], 'at': [1, 2]},
                   'f1.gin': {'items': [['bind', 'c', 10]], 'at': []}},
         'call': ['text', 'f0.gin']},
    ]

  def gen(self, rng, tier):
    pkg = list(rng.choice(PP_PKGS))
    depth = len(pkg)
    nroots = rng.choice([1, 2, 2, 3, 3, 3, 4])
    roots = []
    for _ in range(nroots):
      has = depth if rng.random() < 0.75 else rng.randint(0, depth)
      init = []
      if rng.random() < 0.15:       # mostly namespace packages; sometimes a regular package at some level
        init = sorted(rng.sample(range(has), rng.randint(1, has))) if has else []
      roots.append({'has': has, 'init': init})
    full = [r for r in range(nroots) if roots[r]['has'] == depth]
    nfiles = rng.randint(1, 4)
    names = PP_FILES[:nfiles]
    files = {}
    for i, n in enumerate(names):
      items = []
      for _ in range(rng.randint(1, 4)):
        x = rng.random()
        later = names[i + 1:]
        if x < 0.55 or not later:
          items.append(['bind', rng.choice(PP_PARAMS), rng.randint(0, 99)])
        else:
          items.append(['include', rng.choice(later)])
          if rng.random() < 0.7:
            items.append(['bind', rng.choice(PP_PARAMS), rng.randint(100, 199)])
      if rng.random() < 0.3:
        items.insert(rng.randint(0, len(items)), ['import', rng.choice(['time', 'json', 'os.path'])])
      if not full or rng.random() < 0.12:
        at = []                     # in no directory of the package
      elif rng.random() < 0.4:
        at = [full[-1]]             # only in the last directory
      else:
        at = sorted(r for r in full if rng.random() < 0.5) or [rng.choice(full)]
      files[n] = {'items': items, 'at': at}
    cwd = rng.choice(range(nroots)) if rng.random() < 0.2 else None
    loc = sorted(n for n in names if rng.random() < 0.5) if rng.random() < 0.25 else None
    x = rng.random()
    if x < 0.45:
      call = ['file', names[0]]
    elif x < 0.65:
      call = ['text', names[0]]
    else:
      flist = [names[0]] + ([rng.choice(names)] if rng.random() < 0.5 else [])
      call = ['fab', flist, [[rng.choice(PP_PARAMS), 777]] if rng.random() < 0.7 else []]
    return {'pkg': pkg, 'roots': roots, 'path_mode': rng.choice(['front', 'back', 'split']), 'cwd': cwd, 'loc': loc,
            'files': files, 'call': call}

  def shrink(self, case):
    for n in case['files']:
      for i in range(len(case['files'][n]['items'])):
        c = copy.deepcopy(case)
        del c['files'][n]['items'][i]
        yield c
      for r in case['files'][n]['at']:
        c = copy.deepcopy(case)
        c['files'][n]['at'].remove(r)
        yield c
    if case['loc'] is not None:
      c = copy.deepcopy(case)
      c['loc'] = None
      yield c
    if case['cwd'] is not None:
      c = copy.deepcopy(case)
      c['cwd'] = None
      yield c

  def impl(self, case):
    import importlib
    import os
    import shutil
    import sys
    import tempfile
    d = os.path.realpath(tempfile.mkdtemp(prefix='ginverif_pp_'))
    old_cwd, old_path = os.getcwd(), list(sys.path)
    fails, tags = [], []
    pkg = case['pkg']
    prefix = '/'.join(pkg) + '/'
    rootdir = lambda r: os.path.join(d, 'p%d' % r)
    locdir = os.path.join(d, 'loc')

    def render_copy(fname, off):
      out = []
      for it in case['files'][fname]['items']:
        if it[0] == 'bind':
          out.append('pf.%s = %d' % (it[1], it[2] + off))
        elif it[0] == 'import':
          out.append('import ' + it[1])
        else:
          out.append("include '%s%s'" % (prefix, it[1]))
      return '\n'.join(out) + '\n'

    def write(path, text):
      os.makedirs(os.path.dirname(path), exist_ok=True)
      with open(path, 'w') as f:
        f.write(text)
    try:
      os.makedirs(os.path.join(d, 'run'))
      for r, root in enumerate(case['roots']):
        os.makedirs(rootdir(r))
        for level in range(root['has']):
          os.makedirs(os.path.join(rootdir(r), *pkg[:level + 1]))
          if level in root['init']:
            write(os.path.join(rootdir(r), *(pkg[:level + 1] + ['__init__.py'])), '')
      for n, f in case['files'].items():
        for r in f['at']:
          assert case['roots'][r]['has'] == len(pkg), 'generator: file placed outside a package directory'
          write(os.path.join(rootdir(r), *(pkg + [n])), render_copy(n, pp_offset(['root', r])))
      if case['loc'] is not None:
        os.makedirs(locdir)
        for n in case['loc']:
          write(os.path.join(locdir, *(pkg + [n])), render_copy(n, PP_LOC_OFFSET))
      os.chdir(os.path.join(d, 'run') if case['cwd'] is None else rootdir(case['cwd']))
      rds = [rootdir(r) for r in range(len(case['roots']))]
      if case['path_mode'] == 'front':
        sys.path[0:0] = rds
      elif case['path_mode'] == 'back':
        sys.path.extend(rds)
      else:
        sys.path[0:0] = rds[:1]
        sys.path.extend(rds[1:])
      importlib.invalidate_caches()
      gin = C.fresh_gin()

      @gin.configurable
      def pf(a='unset', b='unset', c='unset'):
        return {'a': a, 'b': b, 'c': c}
      if case['loc'] is not None:
        gin.add_config_file_search_path(locdir)

      want_state, want_trees, unreadable, read = pp_expect(case)
      want = {p: want_state.get(p, 'unset') for p in PP_PARAMS}
      tree = lambda t: [t.filename, list(t.imports), [tree(i) for i in t.includes]]
      call = case['call']
      got_trees, err = None, None
      try:
        if call[0] == 'file':
          got_trees = [tree(gin.parse_config_file(prefix + call[1]))]
        elif call[0] == 'text':
          incs, imps = gin.parse_config("pf.a = -1\ninclude '%s%s'\npf.b = -2\n" % (prefix, call[1]))
          got_trees = [tree(i) for i in incs]
          if list(imps):
            fails.append(('include-tree', 'the config string imports nothing itself, yet its imports are %r' % (list(imps),)))
        else:
          got_trees = [tree(t) for t in gin.parse_config_files_and_bindings(
              [prefix + f for f in call[1]], ['pf.%s = %d' % (p, v) for p, v in call[2]])]
      except OSError as e:
        err = ('OSError', str(e))
      except Exception as e:  # pylint: disable=broad-except
        err = (type(e).__name__, str(e)[:300])
      try:
        got = pf()
      except Exception as e:  # pylint: disable=broad-except
        got = 'pf() raised %s: %s' % (type(e).__name__, str(e)[:200])
      layout = 'package directories in Python-path order: %r; copies read by the property\'s rule: %r' % (
          ['p%d' % r for r in pp_portions(case)], read)
      if unreadable is None:
        if err is not None:
          fails.append(('package-relative-name', 'every name is readable through the Python path, yet %s: %s (%s)' %
                        (err[0], err[1], layout)))
        else:
          if got != want:
            fails.append(('package-relative-name', 'parameters of pf after the parse: %r, the flattened reading gives %r (%s)' %
                          (got, want, layout)))
          if got_trees != want_trees:
            fails.append(('include-tree', 'returned %r, the include tree is %r' % (got_trees, want_trees)))
          if call[0] == 'fab' and not gin.config_is_locked():
            fails.append(('entry-point-finalize-default', 'parse_config_files_and_bindings left the config unlocked'))
      else:
        tags.append('missing')
        if err is None or err[0] != 'OSError':
          fails.append(('missing-file-not-reported', '%r is in no directory anyone searches, outcome %r (%s)' %
                        (unreadable, err or got_trees, layout)))
        else:
          if unreadable not in err[1]:
            fails.append(('missing-file-not-reported', 'the error does not name %r: %s' % (unreadable, err[1])))
          if case['loc'] is not None and locdir not in err[1]:
            fails.append(('missing-file-not-reported', 'the error does not name the searched location %r: %s' % (locdir, err[1])))
          if got != want:
            fails.append(('missing-file-applied-something', 'parameters of pf after the failed parse: %r, the statements before '
                          'the unreadable name give %r (%s)' % (got, want, layout)))
      later = [w for w in read if w[0] == 'root' and pp_portions(case) and w[1] in pp_portions(case)[1:]
               and w[1] != case['cwd']]
      if later:
        tags.append('later-portion')
      if len(pp_portions(case)) >= 2:
        tags.append('multi-portion')
      tags.append(call[0])
    finally:
      os.chdir(old_cwd)
      sys.path[:] = old_path
      for m in [m for m in sys.modules if m == pkg[0] or m.startswith(pkg[0] + '.')]:
        del sys.modules[m]
      for k in [k for k in sys.path_importer_cache if k.startswith(d)]:
        del sys.path_importer_cache[k]
      shutil.rmtree(d, ignore_errors=True)
    return {'obs': T('Done'), 'fails': fails[:3], 'nontrivial': bool(later) or unreadable is not None, 'tags': tags}


# ---------------------------------------------------------------------------------------------------------------------
# includes x dynamic registration: every file of the include tree resolves names through ITS OWN imports
DI_FUNCS = {'h1': 'c14dyn.alpha', 'h2': 'c14dyn.alpha', 'h3': 'c14dyn.beta', 'h4': 'c14dyn.beta'}
DI_ORDER = ['h1', 'h2', 'h3', 'h4']
# module -> [(import statement, the name it binds, what that name denotes)]
DI_FORMS = {
    'c14dyn.alpha': [('import c14dyn.alpha', 'c14dyn', 'c14dyn'), ('import c14dyn.alpha as a1', 'a1', 'c14dyn.alpha'),
                     ('from c14dyn import alpha', 'alpha', 'c14dyn.alpha'), ('from c14dyn import alpha as a2', 'a2', 'c14dyn.alpha'),
                     ('import c14dyn.alpha as m', 'm', 'c14dyn.alpha')],     # 'm': the same alias, another module, in another file
    'c14dyn.beta': [('import c14dyn.beta', 'c14dyn', 'c14dyn'), ('import c14dyn.beta as b1', 'b1', 'c14dyn.beta'),
                    ('from c14dyn import beta', 'beta', 'c14dyn.beta'), ('from c14dyn import beta as b2', 'b2', 'c14dyn.beta'),
                    ('import c14dyn.beta as m', 'm', 'c14dyn.beta')],
}
DI_HEADER = 'from __gin__ import dynamic_registration'
DI_FILES = ['c14d_main.gin', 'c14d_inc1.gin', 'sub/c14d_inc2.gin', 'c14d_inc3.gin']
DI_LOC = 'c14dloc/'
DI_PARAMS = ['p', 'q']
DI_GHOSTS = ['ghost.h1', 'nowhere.mod.h9']       # first component bound by no import statement of any file
DI_SCOPES = ['', '', '', 's1']


def di_symbols(f):
  """what the file's own import statements bind, in statement order (a later statement rebinds a name): name -> module"""
  table = {}
  for mod, form in f['imports']:
    _, name, denotes = DI_FORMS[mod][form]
    table[name] = denotes
  return table


def di_resolve(f, selector):
  """The function a selector written in file f denotes, or None when the name is unknown there.  A file under dynamic
  registration sees exactly what its own import statements provide (Python attribute access from the bound name on);
  a plain file sees what was registered by decorator (here: pf)."""
  if not f['dyn']:
    return 'pf' if selector == 'pf' else None
  parts = selector.split('.')
  cur = di_symbols(f).get(parts[0])
  for p in parts[1:]:
    if cur == 'c14dyn' and p in ('alpha', 'beta'):      # both submodules are loaded: attributes of the package
      cur = 'c14dyn.' + p
    elif cur in ('c14dyn.alpha', 'c14dyn.beta') and DI_FUNCS.get(p) == cur:
      cur = p
    else:
      return None
  return cur if cur in DI_FUNCS else None


def di_render(f):
  out = [DI_HEADER] if f['dyn'] else []
  out += [DI_FORMS[mod][form][0] for mod, form in f['imports']]
  for it in f['items']:
    if it[0] == 'bind':
      out.append('%s%s.%s = %d' % (it[1] + '/' if it[1] else '', it[2], it[3], it[4]))
    elif it[0] == 'ref':
      out.append('%s.%s = @%s()' % (it[1], it[2], it[3]))
    else:
      out.append("include '%s'" % it[1])
  return out


def di_skipped(sk, selector):
  if sk is None or sk is False:
    return False
  if sk is True:
    return True
  return selector in sk[1]


class DIStop(Exception):
  def __init__(self, kind, what):
    super().__init__(what)
    self.kind, self.what = kind, what


def di_expect(case):
  """The flattened reading, interpreted by the harness: every statement of an included file takes effect at the point of
  the include, then the rest of the including file, each statement's names read through the imports of the file it is
  written in.  Returns (bindings {scope: {fn: {param: int | ['call', fn]}}}, returned value, ('unknown' | 'unreadable',
  name) or None)."""
  state = {'': {}, 's1': {}}
  sk = case['call'][-1]
  files = case['files']

  def run_body(name):
    f = files[name]
    includes = []
    for it in f['items']:
      if it[0] == 'include':
        includes.append(run_file(it[1]))
        continue
      sel = it[2] if it[0] == 'bind' else it[1]
      fn = di_resolve(f, sel)
      if fn is None:
        if di_skipped(sk, sel):
          continue
        raise DIStop('unknown', sel)
      if it[0] == 'bind':
        state[it[1]].setdefault(fn, {})[it[3]] = it[4]
      else:
        target = di_resolve(f, it[3])
        assert target is not None, 'generator: a reference to an unknown name'
        state[''].setdefault(fn, {})[it[2]] = ['call', target]
    # every import statement written in the file, in order (the statement enabling dynamic registration is one of them)
    return includes, (['__gin__.dynamic_registration'] if f['dyn'] else []) + [mod for mod, _ in f['imports']]

  def run_file(name):
    if name not in files or files[name]['at'] is None:
      raise DIStop('unreadable', name)
    includes, imports = run_body(name)
    return [name, imports, includes]
  call = case['call']
  value, stop = None, None
  try:
    if call[0] == 'file':
      value = run_file(call[1])
    elif call[0] == 'text':
      includes, imports = run_body(call[1])
      value = [includes, imports]
    else:
      value = [run_file(n) for n in call[1]]
      if call[2] is not None:
        run_body(call[2])
  except DIStop as e:
    value, stop = None, (e.kind, e.what)
  return state, value, stop


def di_call_result(state, scope, fn, defaults):
  """what calling fn in `scope` returns under `state`, or None when that involves a reference seen from inside a scope"""
  eff = dict(state[''].get(fn, {}))
  if scope:
    eff.update(state[scope].get(fn, {}))
  out = []
  for p in (['a', 'b'] if fn == 'pf' else DI_PARAMS):
    v = eff.get(p, defaults[p])
    if isinstance(v, list):
      if scope:
        return None
      v = di_call_result(state, '', v[1], defaults)
    out.append(v)
  return out


class IncludeDynRegEngine(Engine):
  """Include trees whose files use dynamic registration ('from __gin__ import dynamic_registration' + their own import
  statements, in every spelling: plain, aliased, from-import, the same alias for different modules in different files),
  mixed with plain files; every file has bindings before AND after its includes, written through its own imports, on
  functions other files of the tree bind too (through other spellings), literal values and evaluated references;
  optionally an unknown name (skip_unknown in every form) or an unreadable included file.  Entry points:
  parse_config_file, parse_config (the including 'file' is a string), parse_config_files_and_bindings (the bindings are
  such a 'file' too).  Independent oracle: the harness interprets the flattened statement sequence itself (each name
  through the imports of the file it is written in) and compares what CALLING every function returns afterwards, the
  returned include tree with each file's imports, the outcome class and the lock.  Implementation only: Model/Stmt.v
  registers everything up front and has no per-file symbol table."""
  name = 'include-dynamic-registration'
  model = False
  rule = ('include trees (depth <= 3, repeated includes) of files under dynamic registration with their own import spellings / '
          'aliases (one alias may denote different modules in different files) and plain files, conflicting bindings before and '
          'after every include, literal and @reference() values, unknown names x skip_unknown forms, unreadable included files, '
          'one extra search location; entry points parse_config_file / parse_config / parse_config_files_and_bindings. '
          'Independent oracle: the harness interprets the flattened statements (names through the imports of the file they are '
          'written in) and compares the results of calling every function, the returned tree, the outcome class, the lock. '
          'non-trivial = a file under dynamic registration has a statement after an include that names a function through '
          'its own imports.')

  def budget(self, tier):
    return 150 if tier == 'quick' else 6000

  def corpus(self):
    return [
        # three levels, every file under dynamic registration with another spelling; bindings after each include override
        # the included file's; a function first named after the include; an evaluated reference after the include
        {'files': {
            'c14d_main.gin': {'dyn': True, 'imports': [['c14dyn.alpha', 0]], 'at': 0, 'items': [
                ['bind', '', 'c14dyn.alpha.h1', 'p', 1], ['include', 'c14d_inc1.gin'], ['bind', '', 'c14dyn.alpha.h2', 'p', 3],
                ['bind', '', 'c14dyn.alpha.h1', 'p', 2], ['ref', 'c14dyn.beta.h3', 'q', 'c14dyn.alpha.h2']]},
            'c14d_inc1.gin': {'dyn': True, 'imports': [['c14dyn.alpha', 4]], 'at': 0, 'items': [
                ['bind', '', 'm.h1', 'p', 100], ['include', 'sub/c14d_inc2.gin'], ['bind', '', 'm.h1', 'q', 8]]},
            'sub/c14d_inc2.gin': {'dyn': True, 'imports': [['c14dyn.beta', 4], ['c14dyn.alpha', 1]], 'at': 1, 'items': [
                ['bind', '', 'a1.h1', 'q', 7], ['bind', '', 'm.h3', 'p', 9]]}},
         'call': ['file', 'c14d_main.gin', None]},
        # the same shape with skip_unknown=True: nothing after an include may be dropped silently
        {'files': {
            'c14d_main.gin': {'dyn': True, 'imports': [['c14dyn.alpha', 2], ['c14dyn.beta', 1]], 'at': 0, 'items': [
                ['include', 'c14d_inc1.gin'], ['bind', '', 'alpha.h1', 'q', 8], ['bind', 's1', 'b1.h4', 'p', 5],
                ['bind', '', 'ghost.h1', 'p', 6]]},
            'c14d_inc1.gin': {'dyn': True, 'imports': [['c14dyn.alpha', 3]], 'at': 0, 'items': [['bind', '', 'a2.h1', 'q', 7]]}},
         'call': ['fab', ['c14d_main.gin'], None, None, True]},
        # a config string under dynamic registration including a plain file, then going on; as the bindings of the
        # multi-file entry point after a file that includes as well
        {'files': {
            'c14d_main.gin': {'dyn': True, 'imports': [['c14dyn.beta', 3]], 'at': None, 'items': [
                ['bind', '', 'b2.h3', 'p', 1], ['include', 'c14d_inc1.gin'], ['bind', '', 'b2.h3', 'p', 2], ['bind', '', 'b2.h4', 'q', 3]]},
            'c14d_inc1.gin': {'dyn': False, 'imports': [], 'at': 1, 'items': [['bind', '', 'pf', 'a', 4]]},
            'sub/c14d_inc2.gin': {'dyn': True, 'imports': [['c14dyn.beta', 2]], 'at': 0, 'items': [
                ['include', 'c14d_inc1.gin'], ['bind', '', 'beta.h3', 'p', 0]]}},
         'call': ['fab', ['sub/c14d_inc2.gin'], 'c14d_main.gin', False, None]},
    ]

  def gen(self, rng, tier):
    nfiles = rng.randint(2, 4)
    names = DI_FILES[:nfiles]
    files = {}
    used = {n: set() for n in names}
    for i, n in enumerate(names):
      dyn = rng.random() < 0.8
      imports = []
      for mod in rng.sample(sorted(DI_FORMS), rng.randint(1, 2)) if dyn or rng.random() < 0.3 else []:
        imports.append([mod, rng.randrange(len(DI_FORMS[mod]))])
      if dyn and rng.random() < 0.2:        # a module imported twice under two names
        mod = rng.choice(imports)[0]
        imports.append([mod, rng.randrange(len(DI_FORMS[mod]))])
      f = {'dyn': dyn, 'imports': imports, 'items': [], 'at': rng.choice([0, 0, 1])}
      table = di_symbols(f)

      def spellings():
        """every (selector, fn) this file can write through its own imports"""
        out = []
        for name, denotes in sorted(table.items()):
          for fn, mod in sorted(DI_FUNCS.items()):
            if denotes == 'c14dyn':
              out.append(('%s.%s' % (mod, fn), fn))
            elif denotes == mod:
              out.append(('%s.%s' % (name, fn), fn))
        return out

      def statement(lo):
        if not dyn:
          return ['bind', rng.choice(DI_SCOPES), 'pf', rng.choice(['a', 'b']), rng.randint(lo, lo + 99)]
        sp = spellings()
        sel, fn = rng.choice(sp)
        lower = [(s, g) for s, g in sp if DI_ORDER.index(g) < DI_ORDER.index(fn)]
        if lower and rng.random() < 0.2:    # references only point to functions earlier in DI_ORDER: no cycles
          return ['ref', sel, rng.choice(DI_PARAMS), rng.choice(lower)[0]]
        return ['bind', rng.choice(DI_SCOPES), sel, rng.choice(DI_PARAMS), rng.randint(lo, lo + 99)]
      later = names[i + 1:]
      for _ in range(rng.randint(1, 4)):
        if later and rng.random() < 0.45:
          inc = rng.choice(later)
          f['items'].append(['include', inc])
          used[n].add(inc)
          for _ in range(rng.choice([0, 1, 1, 2])):     # the rest of the including file
            f['items'].append(statement(100))
          if rng.random() < 0.15:
            f['items'].append(['include', inc])          # included again: applied again, at that point
        else:
          f['items'].append(statement(0))
      files[n] = f
    if not used[names[0]]:                   # the entry file always includes something and goes on afterwards
      f = files[names[0]]
      f['items'].insert(rng.randint(0, len(f['items'])), ['include', names[1]])
    x = rng.random()
    if x < 0.25:                             # one unknown name somewhere
      f = files[rng.choice(names)]
      pool = list(DI_GHOSTS) if f['dyn'] else ['nope.q']
      pool += ['%s.nofn' % nm for nm, d in sorted(di_symbols(f).items()) if d != 'c14dyn'] if f['dyn'] else []
      f['items'].insert(rng.randint(0, len(f['items'])), ['bind', '', rng.choice(pool), 'p', rng.randint(0, 9)])
    elif x < 0.35:                           # one file nobody can read
      files[rng.choice(names[1:])]['at'] = None
    sk = rng.choice([None, None, None, False, True, True, ['list', ['ghost.h1']], ['tuple', ['nowhere.mod.h9', 'nope.q']],
                     ['set', ['ghost.h1', 'a1.nofn', 'm.nofn', 'nope.q']], ['list', ['other.name']]])
    y = rng.random()
    if y < 0.5:
      call = ['file', names[0], sk]
    elif y < 0.75:
      call = ['text', names[0], sk]
    else:
      flist = [names[0]] + ([rng.choice(names)] if rng.random() < 0.4 else [])
      call = ['fab', flist, rng.choice([None, names[-1], names[0]]), rng.choice([None, None, True, False]), sk]
    if call[0] == 'text' and rng.random() < 0.5:
      files[names[0]]['at'] = None           # the string is not a file anyone can read as well (nothing includes it)
    return {'files': files, 'call': call}

  def shrink(self, case):
    for n in case['files']:
      for i in range(len(case['files'][n]['items'])):
        c = copy.deepcopy(case)
        del c['files'][n]['items'][i]
        yield c
    if case['call'][-1] is not None:
      c = copy.deepcopy(case)
      c['call'][-1] = None
      yield c
    if case['call'][0] == 'fab':
      if case['call'][2] is not None:
        c = copy.deepcopy(case)
        c['call'][2] = None
        yield c
      if len(case['call'][1]) > 1:
        c = copy.deepcopy(case)
        c['call'][1] = c['call'][1][:1]
        yield c
      if len(case['call'][1]) == 1 and case['call'][2] is None and case['files'][case['call'][1][0]]['at'] is not None:
        yield dict(copy.deepcopy(case), call=['file', case['call'][1][0], case['call'][-1]])
    if case['call'][0] == 'text' and case['files'][case['call'][1]]['at'] is not None:
      yield dict(copy.deepcopy(case), call=['file', case['call'][1], case['call'][-1]])

  def impl(self, case):
    import os
    import sys
    import types
    files = case['files']
    call = case['call']
    sk = call[-1]
    want_state, want_value, stop = di_expect(case)
    gin = C.fresh_gin()
    mods, fns = {}, {}
    for name in ['c14dyn', 'c14dyn.alpha', 'c14dyn.beta']:
      mod = types.ModuleType(name)
      mod.__path__ = []
      mods[name] = mod
      if '.' in name:
        setattr(mods['c14dyn'], name.split('.')[1], mod)
    defaults = {'p': -1, 'q': -2, 'a': -3, 'b': -4}
    for fn, modname in DI_FUNCS.items():
      env = {'__name__': modname}
      exec('def %s(p=-1, q=-2):\n  return [p, q]\n' % fn, env)  # pylint: disable=exec-used
      setattr(mods[modname], fn, env[fn])
      fns[fn] = env[fn]

    @gin.configurable
    def pf(a=-3, b=-4):
      return [a, b]
    placed = {os.path.join(DI_LOC if f['at'] else '', n): '\n'.join(di_render(f)) + '\n'
              for n, f in files.items() if f['at'] is not None}
    gin.config.register_file_reader(lambda path: textm.NamedStringIO(placed[path], path), lambda path: path in placed)
    gin.add_config_file_search_path(DI_LOC)
    saved = {k: sys.modules.get(k) for k in mods}
    sys.modules.update(mods)
    fails, tags = [], [call[0]]
    kw = {} if sk is None else {'skip_unknown': textm.sk_py(sk)}
    tree = lambda t: [t.filename, list(t.imports), [tree(i) for i in t.includes]]
    try:
      got_value, err = None, None
      try:
        if call[0] == 'file':
          got_value = tree(gin.parse_config_file(call[1], **kw))
        elif call[0] == 'text':
          incs, imps = gin.parse_config('\n'.join(di_render(files[call[1]])) + '\n', **kw)
          got_value = [[tree(i) for i in incs], list(imps)]
        else:
          if call[3] is not None:
            kw['finalize_config'] = call[3]
          got_value = [tree(t) for t in gin.parse_config_files_and_bindings(
              list(call[1]), di_render(files[call[2]]) if call[2] is not None else None, **kw)]
      except Exception as e:  # pylint: disable=broad-except
        err = (type(e).__name__, isinstance(e, OSError), str(e)[:400])
      # what every function of the universe returns now, at top level and inside scope s1
      got, want = {}, {}
      for scope in ('', 's1'):
        for fn in DI_ORDER + ['pf']:
          w = di_call_result(want_state, scope, fn, defaults)
          if w is None:
            continue
          key = (scope + '/' if scope else '') + fn
          want[key] = w
          try:
            try:
              cfn = pf if fn == 'pf' else gin.get_configurable(fns[fn])
            except (ValueError, KeyError):
              cfn = fns[fn]        # nothing ever named it: it is not a configurable, calling it gives its defaults
            if scope:
              with gin.config_scope(scope):
                got[key] = cfn()
            else:
              got[key] = cfn()
          except Exception as e:  # pylint: disable=broad-except
            got[key] = 'raised %s: %s' % (type(e).__name__, str(e)[:200])
      text = {n: di_render(f) for n, f in files.items()}
      if stop is None:
        if err is not None:
          fails.append(('readable-config-rejected', 'every name of every file is provided by that file\'s own imports (or '
                        'skipped by skip_unknown=%r) and every included file is readable, yet %s: %s; files: %r' %
                        (sk, err[0], err[2], text)))
        else:
          if got != want:
            diff = {k: (got[k], want[k]) for k in want if got[k] != want[k]}
            fails.append(('include-not-in-place', 'calling the functions after the parse, (returned, the flattened reading '
                          'gives): %r; files: %r' % (diff, text)))
          if got_value != want_value:
            fails.append(('include-tree', 'returned %r, the include tree with each file\'s imports is %r' % (got_value, want_value)))
          if call[0] == 'fab':
            want_lock = True if call[3] is None else call[3]
            if gin.config_is_locked() != want_lock:
              fails.append(('entry-point-finalize-default', 'finalize_config=%r: locked=%r' % (call[3], gin.config_is_locked())))
      else:
        tags.append(stop[0])
        if stop[0] == 'unreadable' and (err is None or not err[1]):
          fails.append(('missing-file-not-reported', 'nobody can read %r, outcome %r' % (stop[1], err or got_value)))
        elif stop[0] == 'unknown' and (err is None or err[1]):
          fails.append(('unknown-name-not-an-error', '%r is provided by no import of the file naming it and skip_unknown=%r '
                        'does not cover it, outcome %r; files: %r' % (stop[1], sk, err or got_value, text)))
        elif got != want:
          diff = {k: (got[k], want[k]) for k in want if got[k] != want[k]}
          fails.append(('include-not-in-place', 'calling the functions after the parse stopped at %r, (returned, the '
                        'statements before that point give): %r; files: %r' % (stop, diff, text)))
        if call[0] == 'fab' and gin.config_is_locked():
          fails.append(('entry-point-finalize-default', 'the parse failed, yet the config is locked'))
    finally:
      for k, v in saved.items():
        if v is None:
          sys.modules.pop(k, None)
        else:
          sys.modules[k] = v
    nontrivial = False
    for f in files.values():
      seen_include = False
      for it in f['items']:
        if it[0] == 'include':
          seen_include = True
        elif seen_include and f['dyn'] and di_resolve(f, it[2] if it[0] == 'bind' else it[1]) is not None:
          nontrivial = True
    if nontrivial:
      tags.append('dyn-after-include')
    return {'obs': T('Done'), 'fails': fails[:3], 'nontrivial': nontrivial, 'tags': tags}


ENGINES = [IncludeEngine(), PackageNameEngine(), PackagePortionsEngine(), IncludeDynRegEngine()]
