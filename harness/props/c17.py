"""C17 — exceptions from configurables keep their type, data and traceback."""
import builtins
import inspect

from harness import common as C
from harness.common import T
from harness.main import Engine

PID = 'C17'
LEVEL = 'translation_validation'
RULE = ('excproxy: EVERY builtin exception class (enumerated from builtins at run time, constructed with class-appropriate '
        'arguments) plus generated user classes (required constructor arguments in __init__ / __new__, extra attributes, '
        '__slots__, custom __str__, properties, exception groups), raised at nesting depth 1-3 of configurable calls and '
        'inside reference evaluation; the slot table given to the model is measured (getset / member descriptors over the '
        'MRO). Observed on the caught object: type relation, isinstance, every public attribute of the original, args, '
        'traceback identity, str(). non-trivial = a class with C-slot-backed attributes or required constructor arguments, '
        'raised at depth >= 2. Generated: exception-group TREES over Exception and non-Exception leaves (a group with a '
        'non-Exception leaf, a BaseExceptionGroup subclass and user BaseException classes are not Exceptions: they must reach '
        'the caller as the very object raised, with str / args / notes as before the call). Engine served-attrs '
        '(implementation only): classes that SERVE their public fields through the attribute protocol (__getattr__ over an '
        'instance payload, a __slots__ payload, a mixin, the args or a class table; __getattribute__; non-data descriptors). '
        'Engine new-state (implementation only): classes whose own __new__ writes per-instance attributes, with .args that are '
        'not what __new__ was given (formatted / empty / reversed) and state filled or reassigned before the raise.')
TRUSTED_BASE = [
    'Coq 8.16.1 kernel; vm_compute in the correspondence run',
    'hand-written model coq/Model/ExcProxy.v of gin/utils.py:21-60 (attribute resolution: type-level data descriptor, instance dict, __getattr__ forwarding); tied to /repo by harness/props/c17.py',
    "NOT modelled: CPython's per-class __new__/__init__ argument parsing and the C layout of exception structs (measured per class and handed to the model)",
]
ASSUMPTIONS = ['partial: the model decides, per (class, attribute), what the caller reads given the measured slot table; it does not model constructors']


def builtin_exception_classes():
  out = []
  for name in sorted(dir(builtins)):
    obj = getattr(builtins, name)
    if isinstance(obj, type) and issubclass(obj, BaseException):
      out.append(name)
  return out


ARGS = {
    'UnicodeDecodeError': "('utf-8', b'ab', 0, 1, 'bad')", 'UnicodeEncodeError': "('utf-8', 'ab', 0, 1, 'bad')",
    'UnicodeTranslateError': "('ab', 0, 1, 'bad')", 'OSError': "(2, 'No such file', 'f.txt')",
    'FileNotFoundError': "(2, 'No such file', 'f.txt')", 'StopIteration': "(42,)", 'StopAsyncIteration': "(42,)",
    'SyntaxError': "('bad syntax', ('f.py', 3, 5, 'x = 1 +'))", 'IndentationError': "('bad indent', ('f.py', 3, 5, ' x'))",
    'TabError': "('bad tab', ('f.py', 3, 5, ' x'))", 'ImportError': "('no mod',)", 'KeyError': "('k',)",
    'ExceptionGroup': "('grp', [ValueError(1), KeyError('k')])", 'BaseExceptionGroup': "('grp', [ValueError(1)])",
    'SystemExit': "(3,)", 'AttributeError': "('no attr',)", 'NameError': "('no name',)",
}

USER_CLASSES = '''
class NeedsArgs(Exception):
  def __init__(self, code, detail):
    super().__init__('%s: %s' % (code, detail))
    self.code = code
    self.detail = detail

class NeedsNewArgs(Exception):
  def __new__(cls, a, b):
    self = super().__new__(cls, a, b)
    self.a = a
    return self
  def __init__(self, a, b):
    super().__init__(a, b)
    self.b = b

class Slotted(Exception):
  __slots__ = ('payload',)
  def __init__(self, payload):
    super().__init__('slotted')
    self.payload = payload

class CustomStr(ValueError):
  def __str__(self):
    return 'custom<%s>' % (self.args,)

class WithProperty(RuntimeError):
  def __init__(self, x):
    super().__init__(x)
    self._x = x
  @property
  def doubled(self):
    return self._x * 2

class OsChild(OSError):
  pass

class KwOnly(Exception):
  def __init__(self, *, reason):
    super().__init__(reason)
    self.reason = reason

class ClassDefault(Exception):
  """an instance attribute shadowing a class-level default of the same name"""
  code = 0
  retries = 3
  def __init__(self, code):
    super().__init__('class default')
    self.code = code

class NewNeedsArg(Exception):
  """__new__ requires an argument that .args does not carry"""
  def __new__(cls, a):
    return super().__new__(cls)
  def __init__(self, a):
    super().__init__()
    self.a = a

class NewValidates(Exception):
  """__new__ validates its argument; .args carries a formatted message, so rebuilding from .args raises ValueError"""
  def __new__(cls, code):
    int(code)
    return super().__new__(cls)
  def __init__(self, code):
    super().__init__('code %s' % code)
    self.code = code

class TaskErrors(ExceptionGroup):
  """an exception group whose .args is only the message"""
  def __init__(self, message, excs):
    super().__init__(message)
    self.count = len(excs)

class ApiError(Exception):
  """subclasses must give a class keyword"""
  def __init_subclass__(cls, status, **kw):
    super().__init_subclass__(**kw)
    cls.status = status

class NotFound(ApiError, status=404):
  pass

class Abort(BaseException):
  """a user control-flow exception: not an Exception"""
  def __init__(self, reason, code=0):
    super().__init__(reason)
    self.code = code

class Cancelled(BaseException):
  __slots__ = ('token',)
  def __init__(self, token=None):
    super().__init__()
    self.token = token

class Nursery(BaseExceptionGroup):
  """a BaseExceptionGroup subclass: not an Exception even when every leaf is one"""
  def derive(self, excs):
    return Nursery(self.message, excs)

class Unsupported(TypeError):
  def __init__(self, *payload):
    super().__init__(*payload)
    self.payload = payload


class NewDerives(Exception):
  """__new__ accepts .args and derives an attribute from its first argument; .args is a formatted message"""
  def __new__(cls, limit, *rest, **kw):
    self = super().__new__(cls, limit, *rest)
    self.limit = limit
    return self
  def __init__(self, limit, used=0):
    super().__init__('limit of %d exceeded (used %d)' % (limit, used))
    self.used = used

class NewJournal(RuntimeError):
  """__new__ creates per-instance state that is filled in before the raise"""
  def __new__(cls, *args):
    self = super().__new__(cls, *args)
    self.events = []
    self.phase = 'new'
    return self
  def __init__(self, what):
    super().__init__(what)
    self.events.append(('failed', what))
    self.phase = 'initialised'

class ZeroOrCode(Exception):
  """constructible with no argument or with (code, detail), but NOT from its own .args (a 3-tuple)"""
  def __new__(cls, code=None, detail=''):
    return super().__new__(cls)
  def __init__(self, code=None, detail=''):
    super().__init__()
    self.args = (code, detail, 'extra')
    self.code = code
'''
# same names (hence same __module__ / __qualname__), different classes: raised FIRST when a case says 'prior'
ALT_CLASSES = '''
class OsChild(Exception):
  pass

class Slotted(Exception):
  pass

class NeedsArgs(ValueError):
  pass
'''
USER_ARGS = {'NeedsArgs': "(7, 'boom')", 'NeedsNewArgs': "(1, 2)", 'Slotted': "([1, 2],)", 'CustomStr': "('v',)",
             'WithProperty': "(21,)", 'OsChild': "(13, 'denied')", 'KwOnly': "(reason='why')", 'ZeroOrCode': "(5, 'boom')",
             'ClassDefault': "(5,)", 'NewNeedsArg': "(7,)",
             'Abort': "('stop', 4)", 'Cancelled': "('tok',)", 'Nursery': "('nursery', [ValueError(1), KeyError('k')])",
             'NewValidates': "(5,)", 'NewDerives': "(5, 7)", 'NewJournal': "('flush',)", 'TaskErrors': "('tasks failed', [ValueError(1), KeyError('k')])", 'NotFound': "('gone',)"}


def public_attrs(e):
  out = {}
  for n in dir(e):
    if n.startswith('_') or n in ('with_traceback', 'add_note'):
      continue
    try:
      v = getattr(e, n)
    except Exception:  # pylint: disable=broad-except
      continue
    if callable(v):
      continue
    out[n] = v
  return out


def snapshot(e):
  """what 'untouched' is judged on, besides identity: class, message, args, notes, public attributes"""
  return {'class': type(e).__qualname__, 'str': str(e), 'args': repr(getattr(e, 'args', None)),
          'notes': repr(getattr(e, '__notes__', None)), 'attrs': repr(sorted(public_attrs(e).items(), key=lambda kv: kv[0]))}


def slot_attrs(cls):
  """attribute names backed by C slots / __slots__ somewhere in the MRO (data descriptors on the type)"""
  out = []
  for k in cls.__mro__:
    for n, a in vars(k).items():
      if (inspect.isgetsetdescriptor(a) or inspect.ismemberdescriptor(a)) and not n.startswith('__'):
        out.append(n)
  return sorted(set(out))


class ExcEngine(Engine):
  name = 'excproxy'
  imports = 'Model.ExcProxy'
  run_fn = 'ExcProxy.run'

  def budget(self, tier):
    return 60 if tier == 'quick' else 1500

  # leaves of generated exception-group trees (python source, evaluated next to USER_CLASSES)
  EXC_LEAVES = ("ValueError(1)", "KeyError('k')", "OSError(5, 'io')", "NeedsArgs(7, 'boom')", "TypeError('t')",
                "StopIteration(4)", "CustomStr('v')")
  BASE_LEAVES = ("KeyboardInterrupt()", "SystemExit(3)", "GeneratorExit()", "Abort('stop', 4)", "Cancelled('tok')",
                 "BaseException('b')")

  def group_tree(self, rng, base_leaf, depth=0):
    """source of a group; base_leaf: the tree holds at least one non-Exception leaf (then it is not an Exception)"""
    n = rng.randint(1, 3)
    where = rng.randrange(n) if base_leaf else -1
    kids = []
    for i in range(n):
      if depth < 2 and rng.random() < 0.35:
        kids.append(self.group_tree(rng, i == where, depth + 1))
      elif i == where:
        kids.append(rng.choice(self.BASE_LEAVES))
      else:
        kids.append(rng.choice(self.EXC_LEAVES))
    ctor = 'BaseExceptionGroup' if base_leaf or rng.random() < 0.5 else 'ExceptionGroup'
    return "%s('g%d', [%s])" % (ctor, depth, ', '.join(kids))

  def corpus(self):
    cases = []
    # groups that are NOT Exceptions (a non-Exception leaf, directly or nested), as a task runner raises them
    for args in ("('unhandled errors in a TaskGroup', [ValueError('worker 1 failed'), KeyboardInterrupt()])",
                 "('tg', [ExceptionGroup('inner', [OSError(5, 'io')]), Abort('stop')])",
                 "('tg', [BaseExceptionGroup('inner', [SystemExit(3)])])"):
      for depth, via_ref in ((1, False), (2, False), (3, True)):
        cases.append({'cls': 'BaseExceptionGroup', 'user': False, 'depth': depth, 'via_ref': via_ref, 'args': args})
    for name in builtin_exception_classes():
      for depth, via_ref in ((1, False), (2, False), (3, True)):
        cases.append({'cls': name, 'user': False, 'depth': depth, 'via_ref': via_ref})
    for name in USER_ARGS:
      for depth, via_ref in ((1, False), (3, True)):
        cases.append({'cls': name, 'user': True, 'depth': depth, 'via_ref': via_ref})
    for name in ('OsChild', 'Slotted', 'NeedsArgs'):
      for depth in (1, 2):
        cases.append({'cls': name, 'user': True, 'depth': depth, 'via_ref': depth == 2, 'prior': True})
    for name in ('FileNotFoundError', 'KeyError', 'NeedsArgs'):
      for depth in (1, 2):
        cases.append({'cls': name, 'user': name == 'NeedsArgs', 'depth': depth, 'via_ref': False, 'brace_repr': True})
    # exceptions whose .args is empty or starts with something that is not a string (the wrapper inspects TypeErrors)
    for name, user, args in (('TypeError', False, '()'), ('TypeError', False, "(42, 'x')"), ('TypeError', False, "(None,)"),
                             ('ValueError', False, '()'), ('KeyError', False, '((1, 2),)'), ('Unsupported', True, "(42, 'x')"),
                             ('Unsupported', True, '()')):
      for depth in (1, 2):
        cases.append({'cls': name, 'user': user, 'depth': depth, 'via_ref': depth == 2, 'args': args})
    # an intermediate configurable catches the exception, annotates that object and re-raises it with a bare raise
    for name, user in (('ValueError', False), ('FileNotFoundError', False), ('KeyError', False), ('TypeError', False),
                       ('NeedsArgs', True), ('Slotted', True), ('ClassDefault', True), ('ZeroOrCode', True), ('NewValidates', True),
                       ('NewDerives', True), ('NewJournal', True)):
      for depth in (2, 3):
        cases.append({'cls': name, 'user': user, 'depth': depth, 'via_ref': False, 'annotate': True})
    return cases

  def gen(self, rng, tier):
    case = {'depth': rng.randint(1, 3), 'via_ref': rng.random() < 0.5}
    r = rng.random()
    if r < 0.6:
      # an exception-group tree; with a non-Exception leaf anywhere the group is not an Exception
      src = self.group_tree(rng, rng.random() < 0.6)
      ctor, args = src.split('(', 1)
      case.update(cls=ctor, user=False, args='(' + args)
      if rng.random() < 0.15:
        case.update(cls='Nursery', user=True)
    elif r < 0.8:
      name = rng.choice(sorted(USER_ARGS))
      case.update(cls=name, user=True)
    else:
      case.update(cls=rng.choice(builtin_exception_classes()), user=False)
    if case['depth'] >= 2 and not case['via_ref'] and rng.random() < 0.2:
      case['annotate'] = True
    return case

  def shrink(self, case):
    for k in ('annotate', 'prior', 'brace_repr'):
      if case.get(k):
        yield {a: b for a, b in case.items() if a != k}
    if case['via_ref']:
      yield dict(case, via_ref=False)
    if case['depth'] > 1:
      yield dict(case, depth=case['depth'] - 1)

  def make(self, case):
    env = {}
    exec(USER_CLASSES, env)  # pylint: disable=exec-used
    cls = env[case['cls']] if case['user'] else getattr(builtins, case['cls'])
    args = case.get('args') or (USER_ARGS if case['user'] else ARGS).get(case['cls'], "('msg', 5)")
    env['cls'] = cls
    return cls, (lambda: eval('cls' + args, env))  # pylint: disable=eval-used

  def observe(self, case):
    gin = C.fresh_gin()
    cls, mk = self.make(case)
    original = mk()
    cls = type(original)        # e.g. OSError(2, ...) constructs FileNotFoundError
    try:
      original.extra_attribute = {'x': 1}
    except AttributeError:
      pass
    self.before = snapshot(original)

    if case.get('prior'):
      # another class with the same module and qualified name went through a configurable before
      alt = {}
      exec(ALT_CLASSES, alt)  # pylint: disable=exec-used

      @gin.configurable
      def prior_raiser():
        raise alt[case['cls']]('earlier')
      try:
        prior_raiser()
      except Exception:  # pylint: disable=broad-except
        pass

    if case.get('brace_repr'):
      import functools

      def _raise(opts):
        raise original
      # a callable whose repr contains braces (a partial carrying a dict argument)
      raiser = gin.external_configurable(functools.partial(_raise, {'sep': ',', 'n': 1}), 'raiser')
    else:
      @gin.configurable
      def raiser():
        raise original

    @gin.configurable
    def level2(a=None):
      if not case.get('annotate'):
        return raiser()
      try:
        return raiser()
      except Exception as e:  # pylint: disable=broad-except
        e.shard = 3
        e.add_note('seen by level2')
        raise

    @gin.configurable
    def level3(b=None):
      return level2()
    if case['via_ref']:
      gin.parse_config('level3.b = @raiser()')
    fn = {1: raiser, 2: level2, 3: level3}[case['depth']]
    caught = None
    try:
      fn()
    except BaseException as e:  # pylint: disable=broad-except
      caught = e
    return cls, original, caught

  def to_coq(self, case):
    cls, original, _ = self.observe(case)
    is_exc = isinstance(original, Exception)
    slots = slot_attrs(cls)
    pub = public_attrs(original)
    args = getattr(original, 'args', ())

    try:
      P_cls = type('P', (cls,), {'__init__': lambda self, *x: None})
      subclassable = True
    except Exception:  # pylint: disable=broad-except
      P_cls, subclassable = None, False

    outcome = {}

    def build(a, tag):
      if P_cls is None:
        outcome[tag] = 'AOtherError'
        return None
      try:
        r = P_cls(*a)
        outcome[tag] = 'AOk'
        return r
      except TypeError:
        outcome[tag] = 'ATypeError'
      except Exception:  # pylint: disable=broad-except
        outcome[tag] = 'AOtherError'
      return None
    from_args, from_nothing = build(args, 'args'), build((), 'nothing')
    from_base = None
    if P_cls is not None:
      try:
        new = next(k.__new__ for k in cls.__mro__ if inspect.isbuiltin(k.__new__))
        from_base = new(P_cls)
      except Exception:  # pylint: disable=broad-except
        from_base = None
    bare = from_args if from_args is not None else from_nothing if from_nothing is not None else from_base
    bare_vals = {n: getattr(bare, n, '<raises>') for n in slots} if bare is not None else {}
    inst = getattr(original, '__dict__', {})

    def class_level(n):
      for k in cls.__mro__:
        if n in vars(k):
          return True, vars(k)[n]
      return False, None

    def kind(n):
      if n in slots:
        return '(ASlot %s)' % C.cbool(bool(n in bare_vals and self.same(bare_vals[n], pub[n])))
      has, cv = class_level(n)
      if n in inst:
        return 'ADictShadow' if (has and not self.same(cv, inst[n])) else 'ADict'
      return 'AClass'
    attrs = C.clist(['(%s, %s)' % (C.cstr(n), kind(n)) for n in sorted(pub)]) if pub else '(@nil (string * akind))'
    return '(%s, (%s, %s, %s, %s), %s)' % (C.cbool(is_exc), C.cbool(subclassable), outcome['args'],
                                         outcome['nothing'], C.cbool(from_base is not None), attrs)

  @staticmethod
  def same(a, b):
    try:
      return a is b or (type(a) is type(b) and a == b)
    except Exception:  # pylint: disable=broad-except
      return False

  def impl(self, case):
    cls, original, caught = self.observe(case)
    fails, tags = [], []
    pub = public_attrs(original)
    obs_attrs = []
    if caught is None:
      return {'obs': T('NotRaised'), 'fails': [('exception-swallowed', case['cls'])], 'nontrivial': False, 'tags': []}
    if not isinstance(original, Exception):
      tags.append('non-Exception')
      if caught is not original:
        fails.append(('base-exception-not-passed-through', '%s %s is not an Exception but reached the caller as another object: '
                      '%r with message %r' % (case['cls'], case.get('args', ''), caught, str(caught)[:200])))
      else:
        after = snapshot(caught)
        for k in sorted(after):
          if after[k] != self.before[k]:
            fails.append(('base-exception-touched', '%s %s is not an Exception; its %s was %s before the call and is %s on what '
                          'the caller catches' % (case['cls'], case.get('args', ''), k, self.before[k], after[k])))
        tb, frames = caught.__traceback__, []
        while tb is not None:
          frames.append(tb.tb_frame.f_code.co_name)
          tb = tb.tb_next
        if 'raiser' not in frames and '_raise' not in frames:
          fails.append(('traceback-lost', repr(frames)))
      obs = T('PassThrough')
    else:
      same_class = isinstance(caught, cls)
      if not same_class:
        fails.append(('exception-class-lost', '%s raised, caller caught %s: %s' % (case['cls'], type(caught).__name__, str(caught)[:120])))
        obs = T('ClassLost')
      else:
        if type(caught).__name__ != cls.__name__ or type(caught).__module__ != cls.__module__:
          fails.append(('exception-name-changed', '%s.%s' % (type(caught).__module__, type(caught).__name__)))
        tb = caught.__traceback__
        frames = []
        while tb is not None:
          frames.append(tb.tb_frame.f_code.co_name)
          tb = tb.tb_next
        if 'raiser' not in frames and '_raise' not in frames:
          fails.append(('traceback-lost', repr(frames)))
        if str(original) not in str(caught):
          fails.append(('message-not-extended', '%r vs %r' % (str(original), str(caught))))
        for n in sorted(pub):
          try:
            got = getattr(caught, n)
            ok = self.same(got, pub[n])
          except Exception as e:  # pylint: disable=broad-except
            got, ok = 'raises ' + type(e).__name__, False
          obs_attrs.append([n, ok])
          if not ok:
            fails.append(('attribute-differs', '%s.%s: original %r, caught %r' % (case['cls'], n, pub[n], got)))
        if case.get('annotate'):
          # what the intermediate level put on the exception it caught is still there one and two levels up
          if getattr(caught, 'shard', None) != 3 or 'seen by level2' not in getattr(caught, '__notes__', []):
            fails.append(('annotation-lost', '%s annotated by an intermediate configurable (shard=3, a note) and re-raised: the '
                          'caller reads shard=%r notes=%r' % (case['cls'], getattr(caught, 'shard', None),
                                                              getattr(caught, '__notes__', None))))
        obs = T('Original') if caught is original else T('Proxy', obs_attrs)
    slots = slot_attrs(cls)
    return {'obs': obs, 'fails': fails[:4], 'nontrivial': case['depth'] >= 2 and (bool(slots) or case['user']),
            'tags': tags + ['depth%d' % case['depth']]}


# ---------------------------------------------------------------------------------------------------------------------
# classes that SERVE public fields through the attribute protocol
# ---------------------------------------------------------------------------------------------------------------------
SERVED_BASES = {'Exception': "('backend unavailable',)", 'ValueError': "('bad value', 3)", 'KeyError': "('k',)",
                'OSError': "(5, 'io failed')", 'RuntimeError': "()",
                'ExceptionGroup': "('tasks failed', [ValueError(1), KeyError('k')])"}
SERVED_HOOKS = ('getattr-dict', 'getattr-slots', 'getattr-mixin', 'getattr-args', 'getattr-table', 'getattribute', 'descriptor')
FIELD_NAMES = ('status', 'retry_after', 'endpoint', 'code', 'details', 'request_id', 'headers', 'fatal', 'value2')
FIELD_VALUES = ('503', '1.5', "'/v1/items'", 'None', '[1, 2]', "{'k': ('v', 1)}", 'True', "('a', 'b')", '0', "''", '-7',
                "b'raw'", 'frozenset([3])')


def served_source(case):
  """python source of the exception class `Served` described by the case, and of the expression constructing it"""
  base, hook, fields = case['base'], case['hook'], case['fields']
  names = [n for n, _ in fields]
  payload = ', '.join('%s=%s' % (n, v) for n, v in fields)
  base_args = SERVED_BASES[base][1:-1].rstrip(',')
  group = base == 'ExceptionGroup'
  L = []
  body = []
  bases = base
  new = ['  def __new__(cls, *args, **payload):', '    return super().__new__(cls, *args)'] if group else []
  init_payload = ['  def __init__(self, *args, **payload):', '    super().__init__(%s)' % ('' if group else '*args'),
                  '    self.%s = dict(payload)']
  unknown = ['    raise AttributeError(%r %% (type(self).__name__, name))' % "'%s' object has no attribute '%s'"]
  ctor = 'Served(%s)' % ', '.join(x for x in (base_args, payload) if x)
  if hook == 'getattr-dict':
    body = new + [l % '_payload' if '%s' in l and 'self.' in l else l for l in init_payload] + [
        '  def __getattr__(self, name):', "    if name.startswith('_'):", '      raise AttributeError(name)',
        '    try:', '      return self._payload[name]', '    except KeyError:'] + ['  ' + unknown[0] + ' from None']
  elif hook == 'getattr-slots':
    body = ["  __slots__ = ('_fields',)"] + new + [l % '_fields' if '%s' in l and 'self.' in l else l for l in init_payload] + [
        '  def __getattr__(self, name):', "    fields = object.__getattribute__(self, '_fields')",
        '    if name in fields:', '      return fields[name]'] + unknown
  elif hook == 'getattr-mixin':
    L += ['class Record:', '  """served fields for any class mixing this in"""', '  def __getattr__(self, name):',
          "    payload = self.__dict__.get('_payload', {})", '    if name in payload:', '      return payload[name]'] + unknown + ['']
    bases = 'Record, ' + base
    body = new + [l % '_payload' if '%s' in l and 'self.' in l else l for l in init_payload]
  elif hook == 'getattr-args':
    # the fields ARE the constructor arguments, read back out of .args by position
    body = ['  _NAMES = %r' % (tuple(names),), '  def __getattr__(self, name):', '    if name in self._NAMES:',
            '      return self.args[self._NAMES.index(name)]'] + unknown
    ctor = 'Served(%s)' % ', '.join(v for _, v in fields)
  elif hook == 'getattr-table':
    body = ['  _TABLE = {%s}' % ', '.join('%r: %s' % (n, v) for n, v in fields), '  def __getattr__(self, name):',
            '    table = type(self)._TABLE', '    if name in table:', '      return table[name]'] + unknown
    ctor = 'Served(%s)' % base_args
  elif hook == 'getattribute':
    body = new + [l % '_payload' if '%s' in l and 'self.' in l else l for l in init_payload] + [
        '  def __getattribute__(self, name):', "    if not name.startswith('_'):",
        "      payload = object.__getattribute__(self, '__dict__').get('_payload', {})",
        '      if name in payload:', '        return payload[name]', '    return super().__getattribute__(name)']
  elif hook == 'descriptor':
    L += ['class Field:', '  """a non-data descriptor reading the instance payload"""', '  def __init__(self, key):', '    self.key = key',
          '  def __get__(self, obj, owner=None):', '    if obj is None:', '      return self', '    return obj._payload[self.key]', '']
    body = ['  %s = Field(%r)' % (n, n) for n in names] + new + [l % '_payload' if '%s' in l and 'self.' in l else l for l in init_payload]
  else:
    raise ValueError(hook)
  if group:
    body += ['  def derive(self, excs):', '    return ExceptionGroup(self.message, excs)']
  if case.get('dir'):
    body += ['  def __dir__(self):', '    return sorted(set(super().__dir__()) | %r)' % (set(names),)]
  if case.get('custom_str'):
    first = 'self.%s' % names[0] if names else 'None'
    body += ['  def __str__(self):', "    return 'request failed %%r [%%r]' %% (self.args[:1], %s)" % first]
  L += ['class Served(%s):' % bases, '  """fields served through the attribute protocol (%s)"""' % hook] + body
  return '\n'.join(L) + '\n', ctor


class ServedEngine(Engine):
  """exception classes whose public fields are not stored as plain instance attributes but SERVED by the class through
  Python's attribute protocol (payload / record style errors of HTTP and RPC clients): readable on the original with
  getattr, so -- property text -- reading the same on what the caller catches.  The field names come from the case (the
  harness knows what it put in), not from dir().  Implementation only: Model/ExcProxy.v's attribute kinds are the ones a
  type or an instance dict holds."""
  name = 'served-attrs'
  model = False
  rule = ('served-attrs: a class (bases Exception / ValueError / KeyError / OSError / RuntimeError / ExceptionGroup) serving 0-4 '
          'fields through __getattr__ (over an instance payload, a __slots__ payload, a mixin, its args, a class table), '
          '__getattribute__ or non-data descriptors, optionally with __dir__ / a __str__ that reads a served field; raised at '
          'depth 1-3, directly or in reference evaluation, in a scope or not; same class, traceback, message extended with '
          'configurable and scope, args and every served field equal')

  def budget(self, tier):
    return 60 if tier == 'quick' else 1500

  def corpus(self):
    rpc = [['status', '503'], ['retry_after', '1.5'], ['endpoint', "'/v1/items'"]]
    cases = []
    for hook in SERVED_HOOKS:
      cases.append({'base': 'Exception', 'hook': hook, 'fields': rpc, 'dir': False, 'custom_str': False, 'depth': 1,
                    'via_ref': False, 'scope': 'train'})
      cases.append({'base': 'OSError' if hook != 'getattr-args' else 'ValueError', 'hook': hook, 'fields': rpc[:2], 'dir': True,
                    'custom_str': True, 'depth': 3, 'via_ref': True, 'scope': 'eval'})
    cases.append({'base': 'ExceptionGroup', 'hook': 'getattr-dict', 'fields': rpc, 'dir': False, 'custom_str': False, 'depth': 2,
                  'via_ref': False, 'scope': ''})
    return cases

  def gen(self, rng, tier):
    base = rng.choice(sorted(SERVED_BASES))
    # fields read back out of .args: not for groups (args is fixed) nor OSError (which drops the filename out of its args)
    hooks = [h for h in SERVED_HOOKS if not (base in ('ExceptionGroup', 'OSError') and h == 'getattr-args')]
    names = rng.sample(FIELD_NAMES, rng.randint(0, 4))
    return {'base': base, 'hook': rng.choice(hooks), 'fields': [[n, rng.choice(FIELD_VALUES)] for n in names],
            'dir': rng.random() < 0.3, 'custom_str': rng.random() < 0.3, 'depth': rng.randint(1, 3),
            'via_ref': rng.random() < 0.5, 'scope': rng.choice(('', '', 'train', 'a/b'))}

  def shrink(self, case):
    for i in range(len(case['fields'])):
      yield dict(case, fields=case['fields'][:i] + case['fields'][i + 1:])
    for k in ('dir', 'custom_str', 'via_ref'):
      if case[k]:
        yield dict(case, **{k: False})
    if case['scope']:
      yield dict(case, scope='')
    if case['depth'] > 1:
      yield dict(case, depth=case['depth'] - 1)
    if case['base'] != 'Exception' and case['hook'] != 'getattr-args':
      yield dict(case, base='Exception')

  def impl(self, case):
    gin = C.fresh_gin()
    src, ctor = served_source(case)
    env = {'__name__': 'c17served'}
    exec(src, env)  # pylint: disable=exec-used
    cls = env['Served']
    original = eval(ctor, env)  # pylint: disable=eval-used
    names = [n for n, _ in case['fields']]
    # measured on the original through the attribute protocol, before Gin sees it
    expected = {n: getattr(original, n) for n in names}
    expected['args'] = original.args
    for n, v in public_attrs(original).items():
      expected.setdefault(n, v)
    text = str(original)

    @gin.configurable
    def raiser():
      raise original

    @gin.configurable
    def level2(a=None):
      return raiser()

    @gin.configurable
    def level3(b=None):
      return level2()
    scope = case['scope']
    ref = '@%s%sraiser()' % (scope, '/' if scope else '')
    if case['via_ref']:
      gin.parse_config({1: '', 2: 'level2.a = %s' % ref, 3: 'level2.a = %s\nlevel3.b = @level2()' % ref}[case['depth']])
    fn = {1: raiser, 2: level2, 3: level3}[case['depth']]
    evaluated = case['via_ref'] and case['depth'] >= 2      # raised while Gin evaluates the (scoped) reference
    caught = None
    try:
      if scope and not evaluated:
        with gin.config_scope(scope):
          fn()
      else:
        fn()
    except cls as e:      # the except clause that catches the original
      caught = e
    except BaseException as e:  # pylint: disable=broad-except
      return {'obs': T('ClassLost'), 'nontrivial': False, 'tags': [case['hook']],
              'fails': [('exception-class-lost', 'Served(%s) [%s] raised, "except Served" does not catch what reaches the caller: %r\n%s'
                         % (case['base'], case['hook'], e, src))]}
    if caught is None:
      return {'obs': T('NotRaised'), 'fails': [('exception-swallowed', src)], 'nontrivial': False, 'tags': []}
    fails = []
    if type(caught).__name__ != cls.__name__ or type(caught).__module__ != cls.__module__ or type(caught).__qualname__ != cls.__qualname__:
      fails.append(('exception-name-changed', '%s.%s' % (type(caught).__module__, type(caught).__qualname__)))
    tb, frames = caught.__traceback__, []
    while tb is not None:
      frames.append(tb.tb_frame.f_code.co_name)
      tb = tb.tb_next
    if 'raiser' not in frames:
      fails.append(('traceback-lost', repr(frames)))
    got_text = str(caught)
    if not got_text.startswith(text):
      fails.append(('message-not-extended', '%r vs %r' % (text, got_text)))
    else:
      added = got_text[len(text):]
      if caught is not original and ("'raiser'" not in added or (scope and "'%s'" % scope not in added)):
        fails.append(('message-names-no-configurable-or-scope', 'scope %r, added text %r' % (scope, added)))
    obs_attrs = []
    for n in sorted(expected):
      try:
        got = getattr(caught, n)
        ok = ExcEngine.same(got, expected[n])
      except BaseException as e:  # pylint: disable=broad-except
        got, ok = 'raises %s(%s)' % (type(e).__name__, e), False
      obs_attrs.append([n, ok])
      if not ok:
        fails.append(('served-attribute-differs' if n in names else 'attribute-differs',
                      '%s: readable on the original (a %s serving its fields by %s) as %r, on what the caller catches: %s\n%s%s'
                      % (n, case['base'], case['hook'], expected[n], got if isinstance(got, str) else repr(got), src, ctor)))
    for n in names:
      if hasattr(caught, n) != hasattr(original, n):
        fails.append(('served-attribute-differs', 'hasattr(%s) differs' % n))
    fails.sort(key=lambda f: not f[0].startswith('served'))
    return {'obs': T('Original') if caught is original else T('Proxy', obs_attrs), 'fails': fails[:4],
            'nontrivial': bool(names) and case['depth'] >= 2, 'tags': [case['hook'], 'depth%d' % case['depth']] +
            (['evaluated-ref'] if evaluated else []) + (['scoped'] if scope else [])}


# ---------------------------------------------------------------------------------------------------------------------
# classes whose own __new__ keeps per-instance state
# ---------------------------------------------------------------------------------------------------------------------
NEWSTATE_BASES = ('Exception', 'ValueError', 'RuntimeError', 'KeyError', 'LookupError', 'ArithmeticError')
# how __new__ takes its arguments: source lines binding `self`, `first` and the tuple `args`
NEWSTATE_SIGS = {
    'star': ['  def __new__(cls, *args, **kw):', '    self = super().__new__(cls, *args)', '    first = args[0] if args else None'],
    'first': ['  def __new__(cls, first, *rest, **kw):', '    self = super().__new__(cls, first, *rest)', '    args = (first,) + rest'],
    'default': ['  def __new__(cls, first=None, second=0, **kw):', '    self = super().__new__(cls)', '    args = (first, second)'],
    'two': ['  def __new__(cls, first, second, **kw):', '    self = super().__new__(cls, first, second)', '    args = (first, second)'],
}
# when __new__ stores the attributes a case lists as 'conditional': only if it was GIVEN something beyond the minimum
NEWSTATE_GIVEN = {'star': 'bool(args)', 'first': 'bool(rest)', 'default': 'first is not None', 'two': 'second is not None'}
NEWSTATE_ARITY = {'star': (0, 3), 'first': (1, 3), 'default': (0, 2), 'two': (2, 2)}
# what __new__ stores
NEWSTATE_HOW = {'first': 'first', 'count': 'len(args)', 'argtuple': 'tuple(args)', 'typename': 'type(first).__name__',
                'list': '[]', 'dict': '{}', 'set': 'set()', 'const': "'pending'", 'serial': 'next(cls._serials)'}
NEWSTATE_MUTATIONS = {'list': 'append', 'dict': 'setitem', 'set': 'add'}
NEWSTATE_INITS = ('none', 'same', 'formatted', 'empty', 'reversed')
NEWSTATE_NAMES = ('limit', 'history', 'context', 'state', 'serial', 'kind', 'seen', 'count', 'origin')
NEWSTATE_VALUES = ('5', "'disk'", '2.5', "('a', 1)", 'None', '[1]', "'%s'", '0')


def newstate_source(case):
  """python source of the exception class `Stateful` described by the case, and of the expression constructing it"""
  L = ['import itertools', '', 'class Stateful(%s):' % case['base'],
       '  """per-instance state written by __new__ (%s), __init__: %s"""' % (case['sig'], case['init'])]
  L += ['  %s = %s' % (n, "'class default'") for n in case['shadow']]
  if any(how == 'serial' for _, how in case['fields']):
    L.append('  _serials = itertools.count(1)')
  L += NEWSTATE_SIGS[case['sig']]
  conditional = case.get('conditional', [])
  L += ['    self.%s = %s' % (n, NEWSTATE_HOW[how]) for n, how in case['fields'] if n not in conditional]
  if conditional:
    L.append('    if %s:' % NEWSTATE_GIVEN[case['sig']])
    L += ['      self.%s = %s' % (n, NEWSTATE_HOW[how]) for n, how in case['fields'] if n in conditional]
  L.append('    return self')
  init = case['init']
  if init != 'none':
    L.append('  def __init__(self, *args, **kw):')
    L.append({'same': '    super().__init__(*args)',
              'formatted': "    super().__init__('%s exceeded: %s' % (type(self).__name__, ', '.join(map(repr, args))))",
              'empty': '    super().__init__()',
              'reversed': '    super().__init__(*reversed(args))'}[init])
    L.append("    self.used = kw.get('used', 0)")
  if case.get('custom_str'):
    L += ['  def __str__(self):', "    return '%s<%s>' % (type(self).__name__, '; '.join(map(repr, self.args)))"]
  ctor = list(case['ctor'])
  if init != 'none' and case.get('used') is not None:
    ctor.append('used=%s' % case['used'])
  return '\n'.join(L) + '\n', 'Stateful(%s)' % ', '.join(ctor)


class NewStateEngine(Engine):
  """exception classes whose own __new__ (user classes with constructor arguments in __new__ -- property text) writes
  per-instance attributes: derived from its arguments, fresh containers, constants, a per-class serial number.  What the
  original carries when it is raised is what __new__ AND everything after it made of these attributes: __init__ may hand
  other arguments to BaseException (.args is then a formatted message, empty, or reordered -- not what __new__ saw), and
  the code that raises fills the containers or reassigns the attributes first.  __new__ may store an attribute only when
  it is given an argument, the raising code may delete one from the instance: the original then reads the class-level
  default of that name (if there is one; otherwise the name is not readable on the original and nothing is claimed).
  Every name that is readable on the original reads -- property text -- the same on what the caller catches.  Names come from the case.  Implementation
  only: Model/ExcProxy.v does not model constructors (it is handed their measured outcomes)."""
  name = 'new-state'
  model = False
  rule = ('new-state: a class (bases Exception / ValueError / RuntimeError / KeyError / LookupError / ArithmeticError) whose '
          '__new__ (signatures *args / first, *rest / two defaults / two required) stores 1-4 instance attributes (first '
          'argument, argument count / tuple / type name, a fresh list / dict / set, a constant, a per-class serial), some '
          'shadowing class-level defaults, some stored only when __new__ is given an (extra) argument; __init__ absent, passing the arguments on, passing a formatted message, nothing, '
          'or the reversed arguments to BaseException; containers filled / attributes reassigned / deleted from the instance '
          'between construction and raise; optional __str__; depth 1-3, directly or in reference evaluation, in a scope or not; same class, traceback, '
          'message extended with configurable and scope, args and every attribute equal')

  def budget(self, tier):
    return 80 if tier == 'quick' else 2000

  def corpus(self):
    return [
        # a formatted message in .args, state filled before the raise
        {'base': 'Exception', 'sig': 'first', 'fields': [['limit', 'first'], ['history', 'list']], 'shadow': [], 'init': 'formatted',
         'ctor': ['5'], 'used': '7', 'mutate': [['history', 'append']], 'custom_str': True, 'depth': 2, 'via_ref': False,
         'scope': 'nightly'},
        # .args empty: __new__ runs again without arguments
        {'base': 'ValueError', 'sig': 'star', 'fields': [['state', 'const'], ['serial', 'serial'], ['seen', 'set'], ['origin', 'first']],
         'shadow': [], 'init': 'empty', 'ctor': ["'disk'", '2.5'], 'used': None, 'mutate': [['state', 'assign']], 'custom_str': False,
         'depth': 1, 'via_ref': False, 'scope': ''},
        # no __init__ at all, .args are the constructor arguments; one attribute shadows a class-level default
        {'base': 'KeyError', 'sig': 'default', 'fields': [['kind', 'typename'], ['context', 'dict']], 'shadow': ['kind'],
         'init': 'none', 'ctor': ["'disk'", '5'], 'used': None, 'mutate': [['context', 'setitem']], 'custom_str': False,
         'depth': 3, 'via_ref': True, 'scope': 'a/b'},
        # `detail` is stored only when an argument is given; built without one, the original reads the class-level default,
        # and .args (a formatted message) is not empty
        {'base': 'Exception', 'sig': 'star', 'fields': [['detail', 'first'], ['state', 'const']], 'shadow': ['detail'],
         'conditional': ['detail'], 'init': 'formatted', 'ctor': [], 'used': None, 'mutate': [], 'custom_str': False,
         'depth': 1, 'via_ref': False, 'scope': ''},
        # the raising code deletes the per-instance value again: the class-level default shows through on the original
        {'base': 'RuntimeError', 'sig': 'first', 'fields': [['kind', 'typename'], ['history', 'list']], 'shadow': ['kind'],
         'conditional': [], 'init': 'same', 'ctor': ["'disk'"], 'used': '7', 'mutate': [['kind', 'delete'], ['history', 'append']],
         'custom_str': False, 'depth': 2, 'via_ref': True, 'scope': 'train'},
    ]

  def gen(self, rng, tier):
    sig = rng.choice(sorted(NEWSTATE_SIGS))
    lo, hi = NEWSTATE_ARITY[sig]
    names = rng.sample(NEWSTATE_NAMES, rng.randint(1, 4))
    fields = [[n, rng.choice(sorted(NEWSTATE_HOW))] for n in names]
    mutate = []
    for n, how in fields:
      r = rng.random()
      if how in NEWSTATE_MUTATIONS and r < 0.5:
        mutate.append([n, NEWSTATE_MUTATIONS[how]])
      elif r > 0.85:
        mutate.append([n, 'assign'])
      elif r > 0.75:
        mutate.append([n, 'delete'])
    conditional = [n for n in names if rng.random() < 0.2]
    lacking = set(conditional) | {n for n, op in mutate if op == 'delete'}
    init = rng.choice(NEWSTATE_INITS)
    return {'base': rng.choice(NEWSTATE_BASES), 'sig': sig, 'fields': fields,
            'shadow': [n for n in names if rng.random() < (0.7 if n in lacking else 0.25)], 'conditional': conditional,
            'init': init,
            'ctor': [rng.choice(NEWSTATE_VALUES) for _ in range(rng.randint(lo, hi))],
            'used': rng.choice((None, '7', "'all'")) if init != 'none' else None, 'mutate': mutate,
            'custom_str': rng.random() < 0.3, 'depth': rng.randint(1, 3), 'via_ref': rng.random() < 0.5,
            'scope': rng.choice(('', '', 'train', 'a/b'))}

  def shrink(self, case):
    mutated = {n for n, _ in case['mutate']}
    for i, (n, _) in enumerate(case['fields']):
      if n not in mutated and len(case['fields']) > 1:
        yield dict(case, fields=case['fields'][:i] + case['fields'][i + 1:], shadow=[s for s in case['shadow'] if s != n],
                   conditional=[s for s in case.get('conditional', []) if s != n])
    for i in range(len(case['mutate'])):
      yield dict(case, mutate=case['mutate'][:i] + case['mutate'][i + 1:])
    for i in range(len(case['shadow'])):
      yield dict(case, shadow=case['shadow'][:i] + case['shadow'][i + 1:])
    cond = case.get('conditional', [])
    for i in range(len(cond)):
      yield dict(case, conditional=cond[:i] + cond[i + 1:])
    for k in ('custom_str', 'via_ref'):
      if case[k]:
        yield dict(case, **{k: False})
    if case['used'] is not None:
      yield dict(case, used=None)
    if case['scope']:
      yield dict(case, scope='')
    if case['depth'] > 1:
      yield dict(case, depth=case['depth'] - 1)
    if case['base'] != 'Exception':
      yield dict(case, base='Exception')

  def impl(self, case):
    gin = C.fresh_gin()
    src, ctor = newstate_source(case)
    env = {'__name__': 'c17newstate'}
    exec(src, env)  # pylint: disable=exec-used
    cls = env['Stateful']
    original = eval(ctor, env)  # pylint: disable=eval-used
    # what the raising code does with the state __new__ created, before it raises
    for n, op in case['mutate']:
      if n not in vars(original):
        continue      # __new__ was not given what makes it store this one
      if op == 'append':
        getattr(original, n).append(('step', 7))
      elif op == 'setitem':
        getattr(original, n)['attempt'] = 2
      elif op == 'add':
        getattr(original, n).add('worker-3')
      elif op == 'assign':
        setattr(original, n, 'reassigned')
      elif op == 'delete':
        delattr(original, n)
      else:
        raise ValueError(op)
    names = [n for n, _ in case['fields']] + (['used'] if case['init'] != 'none' else [])
    # measured on the original, before Gin sees it
    # (a name __new__ did not store / the raising code deleted is readable only through a class-level default)
    expected = {n: getattr(original, n) for n in names if hasattr(original, n)}
    expected['args'] = original.args
    for n, v in public_attrs(original).items():
      expected.setdefault(n, v)
    lacks = [n for n in names if n not in vars(original)]
    shown = {n: repr(v) for n, v in expected.items()}
    text = str(original)

    @gin.configurable
    def raiser():
      raise original

    @gin.configurable
    def level2(a=None):
      return raiser()

    @gin.configurable
    def level3(b=None):
      return level2()
    scope = case['scope']
    ref = '@%s%sraiser()' % (scope, '/' if scope else '')
    if case['via_ref']:
      gin.parse_config({1: '', 2: 'level2.a = %s' % ref, 3: 'level2.a = %s\nlevel3.b = @level2()' % ref}[case['depth']])
    fn = {1: raiser, 2: level2, 3: level3}[case['depth']]
    evaluated = case['via_ref'] and case['depth'] >= 2      # raised while Gin evaluates the (scoped) reference
    tags = ['new:' + case['sig'], 'init:' + case['init'], 'depth%d' % case['depth']] + (['mutated'] if case['mutate'] else [])
    caught = None
    try:
      if scope and not evaluated:
        with gin.config_scope(scope):
          fn()
      else:
        fn()
    except cls as e:      # the except clause that catches the original
      caught = e
    except BaseException as e:  # pylint: disable=broad-except
      return {'obs': T('ClassLost'), 'nontrivial': False, 'tags': tags,
              'fails': [('exception-class-lost', '%s raised, "except Stateful" does not catch what reaches the caller: %r\n%s'
                         % (ctor, e, src))]}
    if caught is None:
      return {'obs': T('NotRaised'), 'fails': [('exception-swallowed', src)], 'nontrivial': False, 'tags': tags}
    fails = []
    if type(caught).__name__ != cls.__name__ or type(caught).__module__ != cls.__module__ or type(caught).__qualname__ != cls.__qualname__:
      fails.append(('exception-name-changed', '%s.%s' % (type(caught).__module__, type(caught).__qualname__)))
    tb, frames = caught.__traceback__, []
    while tb is not None:
      frames.append(tb.tb_frame.f_code.co_name)
      tb = tb.tb_next
    if 'raiser' not in frames:
      fails.append(('traceback-lost', repr(frames)))
    got_text = str(caught)
    if not got_text.startswith(text):
      fails.append(('message-not-extended', '%r vs %r' % (text, got_text)))
    else:
      added = got_text[len(text):]
      if caught is not original and ("'raiser'" not in added or (scope and "'%s'" % scope not in added)):
        fails.append(('message-names-no-configurable-or-scope', 'scope %r, added text %r' % (scope, added)))
    obs_attrs = []
    for n in sorted(expected):
      try:
        got = getattr(caught, n)
        ok = ExcEngine.same(got, expected[n])
      except BaseException as e:  # pylint: disable=broad-except
        got, ok = 'raises %s(%s)' % (type(e).__name__, e), False
      obs_attrs.append([n, ok])
      if not ok:
        fails.append(('new-state-attribute-differs' if n in names else 'attribute-differs',
                      '%s: readable on the original as %s when it was raised, on what the caller catches: %s\n%s%s%s'
                      % (n, shown[n], got if isinstance(got, str) and got.startswith('raises ') else repr(got), src, ctor,
                         ''.join('\n  then %s on .%s' % (op, m) for m, op in case['mutate']))))
    fails.sort(key=lambda f: not f[0].startswith('new-state'))
    # .args is not what __new__ was given, or the state moved on after __new__
    moved = case['init'] in ('formatted', 'empty', 'reversed') or bool(case['mutate']) or bool(lacks)
    return {'obs': T('Original') if caught is original else T('Proxy', obs_attrs), 'fails': fails[:4],
            'nontrivial': moved and case['depth'] >= 2, 'tags': tags + (['evaluated-ref'] if evaluated else []) +
            (['scoped'] if scope else []) + (['original-lacks'] if lacks else [])}


class KeywordNamesEngine(Engine):
  """A TypeError (or any other exception) raised by a configurable that was called with keyword NAMES, scope names or
  configurable names Gin then mentions in the text it adds (the "Caller supplied values for: [...]" line): names are data,
  whatever characters they hold -- `{x}`, `{}`, `{0.__class__}`, `%s` -- the caller must receive an exception of the
  original class whose message begins with the original message.  Implementation only (the model has no message text)."""
  name = 'keyword-names'
  model = False
  NAMES = ['{x}', '{}', '{0}', '{0.__class__}', 'a{b', '}{', '{name}', '{gin_bound_args}', '%s', '%(a)s', 'plain', '{{x}}', '{', '}']

  def budget(self, tier):
    return 40 if tier == 'quick' else 800

  def corpus(self):
    return [{'kw': ['{x}'], 'missing': True, 'exc': 'TypeError', 'scope': '', 'bound': False},
            {'kw': ['{}', 'plain'], 'missing': True, 'exc': 'TypeError', 'scope': 's1/s2', 'bound': True},
            {'kw': ['{0.__class__}'], 'missing': False, 'exc': 'TypeError', 'scope': '', 'bound': True},
            {'kw': ['{gin_bound_args}'], 'missing': True, 'exc': 'Unsupported', 'scope': 's1', 'bound': False}]

  def gen(self, rng, tier):
    return {'kw': rng.sample(self.NAMES, rng.randint(1, 3)), 'missing': rng.random() < 0.7,
            'exc': rng.choice(['TypeError', 'TypeError', 'Unsupported', 'ValueError', 'KeyError']),
            'scope': rng.choice(['', 's1', 's1/s2']), 'bound': rng.random() < 0.5}

  def shrink(self, case):
    for i in range(len(case['kw'])):
      if len(case['kw']) > 1:
        yield dict(case, kw=case['kw'][:i] + case['kw'][i + 1:])
    if case['scope']:
      yield dict(case, scope='')
    if case['bound']:
      yield dict(case, bound=False)

  def impl(self, case):
    gin = C.fresh_gin()
    class Unsupported(TypeError):      # a user subclass of TypeError
      pass
    exc_cls = {'TypeError': TypeError, 'Unsupported': Unsupported, 'ValueError': ValueError, 'KeyError': KeyError}[case['exc']]
    raised = []

    def body(a, b=2, **kw):
      e = exc_cls('original message')
      raised.append(e)
      raise e
    body.__module__ = None
    probe = gin.configurable('probe', module='c17kw')(body)
    if case['bound']:
      gin.bind_parameter('c17kw.probe.b', 5)
    kwargs = {k: 1 for k in case['kw']}
    if not case['missing']:
      kwargs['a'] = 0
    fails = []
    caught = None
    try:
      with gin.config_scope(case['scope'] or None):
        probe(**kwargs)
    except BaseException as e:  # pylint: disable=broad-except
      caught = e
    if caught is None:
      fails.append(('no-exception', 'the call returned'))
    elif case['missing']:
      # Python itself refuses the call: a TypeError naming the missing argument
      if not isinstance(caught, TypeError):
        fails.append(('exception-class-lost', 'probe(**%r) lacks the positional argument `a`: Python raises TypeError, the caller '
                      'received %s: %r' % (kwargs, type(caught).__name__, caught)))
      elif "'a'" not in str(caught):
        fails.append(('exception-message-lost', 'the TypeError no longer names the missing argument: %r' % (str(caught),)))
    else:
      if not isinstance(caught, exc_cls):
        fails.append(('exception-class-lost', 'the configurable raised %s, the caller received %s: %r (keyword names %r)' %
                      (exc_cls.__name__, type(caught).__name__, caught, case['kw'])))
      elif 'original message' not in str(caught) and 'original message' not in repr(getattr(caught, 'args', '')):
        fails.append(('exception-message-lost', repr(str(caught))))
    return {'obs': T('Done'), 'fails': fails, 'nontrivial': any('{' in k or '%' in k for k in case['kw']),
            'tags': ['missing' if case['missing'] else 'raised:' + case['exc']]}


ENGINES = [ExcEngine(), ServedEngine(), NewStateEngine(), KeywordNamesEngine()]
