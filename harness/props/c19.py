"""C19 — dynamic registration resolves names through the file's own imports."""
import sys
import types

from harness import common as C
from harness.common import T
from harness.main import Engine

PID = 'C19'
LEVEL = 'proof'
RULE = ('dynreg: a generated universe of packages / modules / classes (with methods and nested classes) / functions, the '
        'same leaf names occurring in different modules; 1-3 config texts (each its own parse call) with '
        '"from __gin__ import dynamic_registration" and random import forms and aliases (incl. colliding bound names across '
        'files, the reserved name gin, late / aliased / unknown __gin__ features), bindings, blocks and references through '
        'dotted names in every order of first use. Independent predicates: the registered object is the very object the '
        'attribute chain denotes, different spellings reach one configurable, names not provided by the file itself are '
        'NameErrors, and config_str() re-parsed in a fresh gin configures the same objects with the same values; the emitted '
        'text is also read by the harness\'s own reader and resolver (Python\'s binding rules on its import lines, attributes '
        'followed in the universe): its imports bind distinct names and every emitted selector / reference denotes the very '
        'object. Family plain-import-loses-its-name (18% of the cases + 3 corpus cases): a plain "import a.b" and 1-2 rivals '
        'binding the name a in other texts through "as" or "from x import a", sorting before or after it, with look-alike '
        'attribute paths below the rival. '
        'non-trivial = two texts binding one object through different import spellings, or a method configured after its '
        'class was referenced. Second engine scoped-refs (implementation only): references - scoped or not, evaluated or not, '
        'bare or in containers - written before / after the statements that configure methods of their target class (each '
        're-registers it) are CALLED under every scope of the file; what the constructor, the function and the methods of the '
        'delivered object receive must be the longest-prefix bindings of the file, also after config_str() is re-parsed.')
TRUSTED_BASE = [
    'Coq 8.16.1 kernel; vm_compute in the correspondence run',
    'hand-written model coq/Model/DynReg.v of gin/config.py:152-334, 2024-2099 and config_parser.py:86-117; tied to /repo by harness/props/c19.py',
    'NOT modelled: __import__ / getattr / inspect (the universe is given to the model as a tree and realised as real module objects in sys.modules)',
]
ASSUMPTIONS = ['values are integers or one reference; the literal / layout grammar is covered by C02/C03']

# universe spec: dotted module -> {'funcs': [...], 'classes': {name: {'methods': [...], 'nested': [...]}}}
UNIVERSE = {
    'pkga': {}, 'pkga.util': {'funcs': ['f', 'g'], 'classes': {'C': {'methods': ['meth'], 'nested': ['Inner']}}},
    'pkgb': {}, 'pkgb.util': {'funcs': ['f'], 'classes': {'C': {'methods': ['meth', 'meth2'], 'nested': []}}},
    'pkgc': {}, 'pkgc.util': {'funcs': ['f'], 'classes': {}},
    'top': {'funcs': ['g', 'h'], 'classes': {}, 'wraps': {'tg': 'g'}},      # tg = functools.wraps(g)(...): another object
    'pkga.v1': {}, 'pkga.v1.models': {'funcs': ['build'], 'classes': {}},
    'pkga.v2': {}, 'pkga.v2.models': {'funcs': ['build'], 'classes': {}},
    'pkga.deep': {}, 'pkga.deep.mod': {'funcs': ['f'], 'classes': {}},
    'Zmod': {'funcs': ['zq', 'g'], 'classes': {}},    # an upper-case module name sorts before '__gin__' (g: a look-alike of top.g)
    'Pkg': {}, 'Pkg.dynamic_registration': {'funcs': ['pf'], 'classes': {}},     # binds the NAME dynamic_registration
    'zeta': {'funcs': ['zf'], 'classes': {}}, 'alpha': {}, 'alpha.tools': {'funcs': ['af'], 'classes': {}},
    'beta': {}, 'beta.tools': {'funcs': ['bf'], 'classes': {}},
    # modules whose LAST component is the name of a top-level package / module of the universe: 'from Pkg import pkgb' and
    # 'from alpha import top' bind the very name a plain 'import pkgb.util' / 'import top' binds, and sort before it; each
    # carries look-alikes (same attribute path below the bound name, another object) and a leaf of its own
    'Pkg.pkgb': {'funcs': ['pq']}, 'Pkg.pkgb.util': {'funcs': ['f', 'pu'], 'classes': {}},
    'alpha.top': {'funcs': ['g', 'aq'], 'classes': {}},
}
PRE = ['zeta.zf', 'alpha.tools.af', 'beta.tools.bf']      # registered from Python (gin.register), never imported by a config


class World:
  """real module objects + ids for the model"""

  def __init__(self):
    self.ids = {}
    self.objs = {}
    self.created = []
    for name in sorted(UNIVERSE):
      m = types.ModuleType(name)
      m.__path__ = []
      sys.modules[name] = m
      self.created.append(name)
      if '.' in name:
        setattr(sys.modules[name.rpartition('.')[0]], name.rpartition('.')[2], m)
      spec = UNIVERSE[name]
      for f in spec.get('funcs', []):
        self._func(m, name, f, name + '.' + f)
      for wname, target in spec.get('wraps', {}).items():
        import functools
        inner = getattr(m, target)

        def wrapper(*args, _inner=inner, **kw):
          return ('wrapped', _inner(*args, **kw))
        w = functools.wraps(inner)(wrapper)          # __wrapped__ = inner, same __name__ / __module__
        setattr(m, wname, w)
        self._reg(name + '.' + wname, w)
      for cn, cs in spec.get('classes', {}).items():
        cls = type(cn, (object,), {'__init__': self._init(), '__module__': name, '__qualname__': cn})
        setattr(m, cn, cls)
        self._reg(name + '.' + cn, cls)
        for meth in cs['methods']:
          fn = self._mkfn(meth)
          fn.__module__ = name
          fn.__qualname__ = cn + '.' + meth
          setattr(cls, meth, fn)
          self._reg(name + '.' + cn + '.' + meth, fn)
        for nested in cs['nested']:
          ncls = type(nested, (object,), {'__init__': self._init(), '__module__': name, '__qualname__': cn + '.' + nested})
          setattr(cls, nested, ncls)
          self._reg(name + '.' + cn + '.' + nested, ncls)

  def _init(self):
    def __init__(self, **kw):
      self.kw = kw
    return __init__

  def _mkfn(self, name):
    env = {}
    exec('def %s(*args, **kw):\n  return kw\n' % name, env)  # pylint: disable=exec-used
    return env[name]

  def _func(self, m, modname, f, path):
    fn = self._mkfn(f)
    fn.__module__ = modname
    setattr(m, f, fn)
    self._reg(path, fn)

  def _reg(self, path, obj):
    self.ids[path] = len(self.ids)
    self.objs[path] = obj

  def close(self):
    for n in self.created:
      sys.modules.pop(n, None)

  def coq_universe(self):
    def mod(name):
      spec = UNIVERSE[name]
      attrs = []
      for f in spec.get('funcs', []) + list(spec.get('wraps', {})):
        attrs.append('(%s, PFunc %d)' % (C.cstr(f), self.ids[name + '.' + f]))
      for cn, cs in spec.get('classes', {}).items():
        ca = ['(%s, PFunc %d)' % (C.cstr(mm), self.ids[name + '.' + cn + '.' + mm]) for mm in cs['methods']]
        ca += ['(%s, PClass %d [])' % (C.cstr(nn), self.ids[name + '.' + cn + '.' + nn]) for nn in cs['nested']]
        attrs.append('(%s, PClass %d %s)' % (C.cstr(cn), self.ids[name + '.' + cn], C.clist(ca) if ca else '[]'))
      for sub in sorted(UNIVERSE):
        if sub.rpartition('.')[0] == name:
          attrs.append('(%s, %s)' % (C.cstr(sub.rpartition('.')[2]), mod(sub)))
      return '(PMod %s)' % (C.clist(attrs) if attrs else '[]')
    tops = [n for n in sorted(UNIVERSE) if '.' not in n]
    return C.clist(['(%s, %s)' % (C.cstr(n), mod(n)) for n in tops] + ['("gin", PMod [("config", PMod [])])'])


DYN = ['import', '__gin__.dynamic_registration', True, None]
IMPORTS = [
    ['import', 'pkga.util', False, None], ['import', 'pkga.util', False, 'u'], ['import', 'pkga.util', True, None],
    ['import', 'pkga.util', True, 'u'], ['import', 'pkgb.util', True, None], ['import', 'pkgb.util', False, 'u'],
    ['import', 'pkgb.util', False, None], ['import', 'top', False, None], ['import', 'top', False, 't'],
    ['import', 'pkga.deep.mod', False, None], ['import', 'pkga.deep.mod', True, None], ['import', 'pkga.deep.mod', False, 'dm'],
    ['import', 'pkga', False, None], ['import', 'nosuch.mod', False, None], ['import', 'top', False, 'gin'],
    ['import', 'pkgc.util', True, None], ['import', 'top', False, 'util2'], ['import', 'pkgc.util', False, 'util3'],
    ['import', 'pkga.v1.models', False, None], ['import', 'pkga.v2.models', True, None], ['import', 'pkga.v2.models', False, 'm2'],
    ['import', 'Zmod', False, None], ['import', 'Zmod', False, 'zm'],
    ['import', 'Pkg.dynamic_registration', True, None], ['import', 'Pkg.dynamic_registration', True, 'pdr'],
    # bound names that are the top-level name a PLAIN import of another module binds (through 'from' and through 'as')
    ['import', 'Pkg.pkgb', True, None], ['import', 'alpha.top', True, None], ['import', 'Zmod', False, 'top'],
    ['import', 'Zmod', False, 'pkga'], ['import', 'pkga.deep.mod', True, 'pkgb'], ['import', 'pkgc.util', False, 'pkga'],
]
GIN_IMPORT = ['import', 'gin.config', False, None]     # legal in a file WITHOUT the feature; binds the name gin
LEAVES = {'pkga.util': ['f', 'g', 'C', 'C.meth', 'C.Inner', 'nope'], 'pkgb.util': ['f', 'C', 'C.meth', 'C.meth2'], 'top': ['g', 'h', 'tg', 'g', 'tg'],
          # '^...': an absolute dotted name through the package root, reachable only through a plain 'import a.b.c'
          'pkga.v1.models': ['build', '^pkga.v2.models.build', '^pkga.v1.models.build'], 'pkga.v2.models': ['build'],
          'pkgc.util': ['f'], 'Zmod': ['zq', 'g'], 'Pkg.dynamic_registration': ['pf'],
          'Pkg.pkgb': ['pq', 'util.f', 'util.pu'], 'alpha.top': ['g', 'aq'],
          'pkga.deep.mod': ['f'], 'pkga': ['util.f', 'util.C', 'deep.mod.f']}


def bound(imp):
  _, module, is_from, alias = imp
  if alias:
    return alias
  parts = module.split('.')
  return parts[-1] if is_from else parts[0]


def selector_for(imp, leaf):
  """a dotted name reaching module.leaf through the import's bound name"""
  _, module, is_from, alias = imp
  if leaf.startswith('^'):
    if not (alias or is_from):
      return leaf[1:]
    leaf = leaf[1:].rpartition('.')[2]
  if alias or is_from:
    return bound(imp) + '.' + leaf
  return module + '.' + leaf


def reg_names(imp, sel):
  """(universe path, selector gin registers it under) of the dotted name `sel` spelled through the import `imp`: the path
  follows Python's binding rule, the registered selector is the import's module path with the alias as its last component"""
  _, module, is_from, alias = imp
  first, _, rest = sel.partition('.')
  base = module if (is_from or alias) else module.split('.')[0]
  part = '.'.join(module.split('.')[:-1] + [alias]) if alias else base
  return base + ('.' + rest if rest else ''), part + ('.' + rest if rest else '')


def drop_selector_clashes(calls, pre=()):
  """removes the statements that would register an object under a selector another object of the case is (or may be)
  registered under - 'import Zmod as top' registers Zmod.g as 'top.g', the selector of the module top's own g; the
  ValueError of the second registration is not what this engine judges (findings/r5/C19-alias-selector-clash.py)"""
  owner = {}
  taken = [p.partition('@')[2] for p in pre if '@' in p]      # registered from Python under a chosen selector
  out = []
  for stmts in calls:
    table, keep = {}, []
    for st in stmts:
      if st[0] == 'import':
        table[bound(st)] = st
        keep.append(st)
        continue
      names = [st[2]] + ([st[4][1]] if st[0] == 'bind' and not isinstance(st[4], int) else [])
      clash = False
      for n in names:
        imp = table.get(n.partition('.')[0])
        if imp is None:
          continue
        path, regsel = reg_names(imp, n)
        if owner.setdefault(regsel, path) != path or (regsel != path and any((regsel + '.').startswith(t + '.') for t in taken)):
          clash = True
      if not clash:
        keep.append(st)
    out.append(keep)
  return out


# the family "a PLAIN import loses its bound name": module of the plain import -> leaves that exist
PLAIN = {'pkga.util': ['f', 'g', 'C', 'C.meth', 'C.Inner'], 'pkgb.util': ['f', 'C', 'C.meth', 'C.meth2'], 'top': ['g', 'h', 'tg'],
         'pkga.deep.mod': ['f'], 'pkga': ['util.f', 'util.C', 'deep.mod.f'], 'pkgc.util': ['f'],
         'pkga.v1.models': ['build', '^pkga.v2.models.build'], 'alpha.top': ['g', 'aq'], 'Pkg.pkgb': ['pq', 'util.f', 'util.pu']}
# modules whose last component is a top-level name: 'from <parent> import <name>' binds it without an alias
NATURAL = {'top': ['alpha.top'], 'pkgb': ['Pkg.pkgb']}
RIVALS = ['Zmod', 'Pkg.dynamic_registration', 'Pkg.pkgb', 'Pkg.pkgb.util', 'alpha.top', 'pkga.deep.mod', 'pkga.util', 'pkgb.util',
          'pkgc.util', 'pkga.v2.models', 'top']
RIVAL_LEAVES = dict(LEAVES, **{'Pkg.pkgb.util': ['f', 'pu'], 'pkga.util': ['f', 'g', 'C', 'C.meth', 'C.Inner'],
                               'pkga.v2.models': ['build'], 'top': ['g', 'h', 'tg']})


def render(stmts):
  out = []
  for st in stmts:
    if st[0] == 'import':
      _, module, is_from, alias = st
      if is_from:
        a, _, b = module.rpartition('.')
        s = 'from %s import %s' % (a, b)
      else:
        s = 'import ' + module
      out.append(s + (' as ' + alias if alias else ''))
    elif st[0] == 'bind':
      v = st[4]
      vt = str(v) if isinstance(v, int) else '@' + '/'.join(v[0] + [v[1]])
      out.append('%s%s.%s = %s' % (st[1] + '/' if st[1] else '', st[2], st[3], vt))
    else:
      out.append('%s%s:\n  blockparam = 1' % (st[1] + '/' if st[1] else '', st[2]))
  return '\n'.join(out) + '\n'


class DynEngine(Engine):
  name = 'dynreg'
  imports = 'Model.Serial Model.DynReg'
  run_fn = 'DynReg.run'

  def budget(self, tier):
    return 700 if tier == 'quick' else 12000

  def corpus(self):
    a1 = ['import', 'pkga.util', False, None]
    a2 = ['import', 'pkga.util', True, 'u']
    return [
        {'pre': ['zeta.zf', 'beta.tools.bf', 'alpha.tools.af'],
         'calls': [[DYN, a1, ['bind', '', 'pkga.util.f', 'x', 1]], [['bind', '', 'zeta.zf', 'x', 1]], [['bind', '', 'beta.tools.bf', 'x', 2]],
                   [['bind', 's1', 'alpha.tools.af', 'x', 3]]]},
        [[DYN, ['import', 'Zmod', False, None], ['bind', '', 'Zmod.zq', 'x', 1]]],
        [[GIN_IMPORT], [DYN, ['import', 'top', False, None], ['bind', '', 'top.g', 'x', 1]]],
        [[DYN, ['import', 'Pkg.dynamic_registration', True, 'pdr'], ['bind', '', 'pdr.pf', 'x', 1]],
         [DYN, ['import', 'Pkg.dynamic_registration', True, None]]],
        {'pre': [], 'sk': [True], 'calls': [[DYN, a1, ['bind', '', 'pkga.util.f', 'x', 1], ['bind', '', 'nosuch.fn', 'x', 2],
                                             ['import', 'missing.mod', False, None], ['bind', 's1', 'pkga.util.g', 'r', [[], 'pkga.util.C']]]]},
        {'pre': [], 'sk': [['list', ['nosuch.fn']], None], 'calls': [[DYN, a2, ['bind', '', 'u.f', 'x', 1], ['bind', '', 'nosuch.fn', 'x', 2]],
                                                                      [DYN, a1, ['bind', '', 'pkga.util.f', 'y', 3]]]},
        {'pre': ['zeta.zf@pkga.util.C.meth'], 'calls': [[DYN, a1, ['bind', '', 'pkga.util.C.meth', 'x', 1]], [DYN, a1, ['bind', '', 'pkga.util.f', 'x', 1]]]},
        {'pre': ['zeta.zf@pkga.util.C'], 'calls': [[DYN, a1, ['bind', '', 'pkga.util.C', 'x', 1]]]},
        {'pre': ['zeta.zf@pkga.util.f'], 'calls': [[DYN, a2, ['bind', '', 'u.f', 'x', 1]], [DYN, a2, ['bind', '', 'u.g', 'x', 1]]]},
        [[DYN, a1, ['bind', '', 'pkga.util.f', 'x', 1], ['bind', 's', 'pkga.util.g', 'y', [[], 'pkga.util.C']]],
         [DYN, a2, ['bind', '', 'u.f', 'z', 2], ['bind', '', 'u.C.meth', 'q', 3], ['bind', '', 'pkga.util.f', 'w', 4]]],
        [[a1, DYN], [['import', '__gin__.dynamic_registration', True, 'dr']], [['import', '__gin__.nosuch', True, None]],
         [DYN, ['import', 'top', False, 'gin']], [DYN, ['bind', '', 'top.g', 'x', 1]]],
        [[DYN, ['import', 'pkga.util', True, None], ['import', 'pkgb.util', True, None], ['bind', '', 'util.f', 'x', 1]],
         [DYN, ['import', 'pkga.util', True, None], ['bind', '', 'util.f', 'y', 2]]],
        # imports that took effect are recorded (_IMPORTS, observed after every call) although a later statement fails;
        # a failing import statement itself is not; under skip_unknown the import of a missing module is dropped
        [[DYN, a1, ['import', 'pkgb.util', False, 'u2'], ['bind', '', 'nosuch.fn', 'x', 1], ['import', 'top', False, None]],
         [DYN, ['import', 'top', False, None], ['import', 'missing.mod', False, None], ['import', 'zeta', False, None]],
         [DYN, a2, ['bind', '', 'u.f', 'x', 1]]],
        {'pre': [], 'sk': [True, None], 'calls': [[DYN, ['import', 'missing.mod', False, None], a1, ['bind', '', 'pkga.util.nosuch', 'x', 1],
                                                   ['bind', '', 'pkga.util.f', 'zz', [[], 'pkga.util.C']]],
                                                  [a1, ['import', 'top', False, 'gin'], ['bind', '', 'nosuch', 'x', 1]]]},
        # a plain dotted import reaches a sibling submodule that was never imported by name (pkga.v2 through 'import pkga.v1.models')
        [[DYN, ['import', 'pkga.v1.models', False, None], ['bind', 's1', 'pkga.v2.models.build', 'x', 8],
          ['bind', '', 'pkga.v1.models.build', 'y', 2]]],
        [[DYN, ['import', 'pkga.v2.models', False, None], ['import', 'pkga.v1.models', False, None], ['bind', '', 'pkga.v1.models.build', 'x', 1],
          ['bind', '', 'pkga.v2.models.build', 'x', 2], ['bind', '', 'pkga.util.f', 'r', [[], 'pkga.deep.mod.f']]]],
        # one module recorded under two aliases and without one
        [[DYN, ['import', 'pkgb.util', False, 'u'], ['import', 'pkgb.util', False, 'u2'], ['import', 'pkgb.util', False, None],
          ['bind', '', 'u2.f', 'x', 1], ['bind', '', 'pkgb.util.f', 'y', 2], ['bind', 's1', 'u.f', 'x', 3]]],
        # a PLAIN import loses its bound name to an import of another text that sorts before it: 'from Pkg import pkgb'
        # keeps pkgb, 'import pkgb.util' is emitted with an alias and everything reached through it is spelled through that
        # alias (Pkg.pkgb.util.f is a look-alike: the same attribute path below the other text's pkgb, another function)
        [[DYN, ['import', 'Pkg.pkgb', True, None], ['bind', '', 'pkgb.pq', 'x', 1]],
         [DYN, ['import', 'pkgb.util', False, None], ['bind', '', 'pkgb.util.f', 'x', 2]],
         [DYN, ['import', 'pkgb.util', False, None], ['bind', 's1', 'pkgb.util.f', 'y', 3]]],
        # ... to an alias of another text ('import Zmod as top' sorts before 'import top'; Zmod.g is a look-alike of top.g)
        [[DYN, ['import', 'top', False, None], ['bind', '', 'top.g', 'x', 2], ['bind', 's1', 'top.h', 'r', [[], 'top.g']]],
         [DYN, ['import', 'Zmod', False, 'top'], ['bind', '', 'top.zq', 'x', 1]]],
        # ... a method and its class reached through the plain import that loses; the plain import of a dotted module two
        # rivals bind the top-level name of (one sorts before, one after it)
        [[DYN, ['import', 'pkga.deep.mod', True, 'pkgb'], ['bind', '', 'pkgb.f', 'x', 1]],
         [DYN, ['import', 'pkgb.util', False, None], ['bind', '', 'pkgb.util.C.meth', 'y', 3], ['bind', 's1', 'pkgb.util.C', 'x', 2]],
         [DYN, ['import', 'top', False, 'pkgb'], ['bind', '', 'pkgb.h', 'r', [[], 'pkgb.g']]]],
    ]

  def gen(self, rng, tier):
    case = self.gen_plain_loses(rng) if rng.random() < 0.18 else self.gen_mixed(rng, tier)
    if isinstance(case, dict):
      return dict(case, calls=drop_selector_clashes(case['calls'], case.get('pre', [])))
    return drop_selector_clashes(case)

  def gen_plain_loses(self, rng):
    """Two to four texts (each its own parse call) whose imports bind ONE name: a PLAIN 'import a.b' (it binds the
    top-level name a) and 1-2 rivals binding the same name through 'as' or through a 'from' import of a module called a;
    whichever module sorts later loses the name in the config string.  Every text configures objects through its own
    spelling (integers, references among its own objects, blocks, methods)."""
    module = rng.choice(sorted(PLAIN))
    plain = ['import', module, False, None]
    name = module.split('.')[0]
    rivals = []
    for _ in range(rng.choice([1, 1, 1, 2])):
      if name in NATURAL and rng.random() < 0.5:
        rv = ['import', rng.choice(NATURAL[name]), True, None]
      else:
        m = rng.choice([r for r in RIVALS if r != module])
        rv = ['import', m, '.' in m and rng.random() < 0.5, name]
      if rv[1] != module and rv not in rivals:
        rivals.append(rv)

    def body(imp, leaves, n):
      out = []
      for _ in range(n):
        sel = selector_for(imp, rng.choice(leaves))
        scope = rng.choice(['', '', 's1'])
        r = rng.random()
        if r < 0.6:
          out.append(['bind', scope, sel, rng.choice(['x', 'y']), rng.randint(1, 9)])
        elif r < 0.85:
          out.append(['bind', scope, sel, 'r', [[], selector_for(imp, rng.choice(leaves))]])
        else:
          out.append(['block', scope, sel])
      return out
    calls = [[DYN, plain] + body(plain, PLAIN[module], rng.randint(1, 3))]
    for rv in rivals:
      calls.append([DYN, rv] + body(rv, RIVAL_LEAVES[rv[1]], rng.randint(0, 2)))
    if rng.random() < 0.35:           # the plain import once more, in another text (a reference to what the first configured)
      calls.append([DYN, plain] + body(plain, PLAIN[module], rng.randint(1, 2)))
    if rng.random() < 0.3:            # ... and the same module through a spelling that keeps / gets another name
      other = ['import', module, '.' in module and rng.random() < 0.5, rng.choice([None, 'u', name])]
      if other[2] or other[3]:
        calls.append([DYN, other] + body(other, PLAIN[module], rng.randint(1, 2)))
    rng.shuffle(calls)
    return calls

  def gen_mixed(self, rng, tier):
    calls = []
    used = []
    for _ in range(rng.randint(1, 3)):
      stmts = []
      if rng.random() < 0.92:
        stmts.append(DYN)
      imps = []
      pool = IMPORTS if rng.random() < 0.7 else [i for i in IMPORTS if i[1].endswith('util') or i[3] in ('util2', 'util3')]
      for imp in rng.sample(pool, min(len(pool), rng.randint(1, 4))):
        # (one module may be recorded several times in one form under different aliases: the header keeps the
        # statement with the smallest alias, whatever order the set _IMPORTS yields them in)
        imps.append(imp)
        used.append(imp)
      stmts += imps
      if rng.random() < 0.05:
        stmts.append(DYN)       # late enabling
      usable = [i for i in imps if i[1] in LEAVES]
      for _ in range(rng.randint(1, 5)):
        if not usable:
          break
        imp = rng.choice(usable) if rng.random() < 0.9 else rng.choice(IMPORTS[:12])
        leaf = rng.choice(LEAVES.get(imp[1], ['f']))
        sel = selector_for(imp, leaf)
        scope = rng.choice(['', '', 's1'])
        r = rng.random()
        if r < 0.65:
          stmts.append(['bind', scope, sel, rng.choice(['x', 'y']), rng.randint(1, 9)])
        elif r < 0.85:
          imp2 = rng.choice(usable)
          stmts.append(['bind', scope, sel, 'r', [[], selector_for(imp2, rng.choice(LEAVES[imp2[1]][:3]))]])
        else:
          stmts.append(['block', scope, sel])
      calls.append(stmts)
    if rng.random() < 0.25:
      # skip_unknown: names the file's own imports provide are KNOWN (registered on first use) and must be applied;
      # names nobody provides are dropped when covered, imports of missing modules are dropped
      sks = []
      for stmts in calls:
        sk = rng.choice([True, True, ['list', ['nosuch.fn']], ['list', ['nosuch.fn', 'nosuch2.g', 'pkga.util.f']], ['list', []], None])
        sks.append(sk)
        for _ in range(rng.randint(0, 2)):
          extra = rng.choice([['bind', '', 'nosuch.fn', 'x', 1], ['block', 's1', 'nosuch2.g'], ['import', 'missing.mod', False, None],
                              ['bind', 's1', 'nosuch.fn', 'y', 2]])
          pos = rng.randint(1, len(stmts)) if stmts else 0
          stmts.insert(pos, extra)
      return {'pre': [], 'calls': calls, 'sk': sks}
    if rng.random() < 0.1:
      calls.insert(rng.randint(0, len(calls)), [GIN_IMPORT])      # a file without the feature may import gin.*
    if rng.random() < 0.08:
      tgt = rng.choice(['pkga.util.C.meth', 'pkga.util.f', 'pkga.util.C', 'pkgb.util.C.meth2', 'pkga.util.C.Inner', 'top.g'])
      return {'pre': [rng.choice(PRE) + '@' + tgt], 'calls': calls}
    if rng.random() < 0.3:
      pre = rng.sample(PRE, rng.randint(1, 3))
      rng.shuffle(pre)
      for p in pre:                       # bound from Python, in a random order: an import-free 'file'
        calls.append([['bind', rng.choice(['', 's1']), p, 'x', rng.randint(1, 9)]])
      return {'pre': pre, 'calls': calls}
    return calls

  @staticmethod
  def read_emitted(lines):
    """(import statements, [(scope, dotted name, parameter, int | ('ref', dotted name))]) of a config string, or None when a
    line is none of: blank, comment, import, a one-line binding of an integer or of one reference"""
    import re  # pylint: disable=g-import-not-at-top
    imps, binds = [], []
    for l in lines:
      if not l.strip() or l.startswith('#'):
        continue
      m = re.match(r'^(?:from ([\w.]+) )?import ([\w.]+)(?: as (\w+))?$', l)
      if m:
        if m.group(1) == '__gin__':
          continue
        imps.append(['import', (m.group(1) + '.' if m.group(1) else '') + m.group(2), bool(m.group(1)), m.group(3)])
        continue
      m = re.match(r'^((?:[\w.]+/)*)([\w.]+)\.(\w+) = (?:(-?\d+)|@((?:[\w.]+/)*)([\w.]+)(\(\))?)$', l)
      if not m:
        return None
      binds.append((m.group(1).rstrip('/'), m.group(2), m.group(3),
                    int(m.group(4)) if m.group(4) is not None else ('ref', m.group(6))))
    return imps, binds

  @staticmethod
  def norm(case):
    if isinstance(case, dict):
      return case.get('pre', []), case['calls']
    return [], case

  @staticmethod
  def sks(case):
    """skip_unknown per call: None (omitted) | True | ['list', names]"""
    n = len(case['calls']) if isinstance(case, dict) else len(case)
    sk = (case.get('sk') if isinstance(case, dict) else None) or []
    return list(sk) + [None] * (n - len(sk))

  def to_coq(self, case):
    sks = self.sks(case)
    pre, case = self.norm(case)
    w = World()
    try:
      univ = w.coq_universe()
    finally:
      w.close()

    def st(s):
      if s[0] == 'import':
        return '(DImport {| d_module := %s; d_from := %s; d_alias := %s |})' % (C.cstr(s[1]), C.cbool(s[2]), C.copt(s[3], C.cstr))
      if s[0] == 'bind':
        v = s[4]
        vv = '(DVal %s)' % C.cz(v) if isinstance(v, int) else '(DRef %s %s)' % (C.cstrs(v[0]), C.cstr(v[1]))
        return '(DBind %s %s %s %s)' % (C.cstr(s[1]), C.cstr(s[2]), C.cstr(s[3]), vv)
      return '(DBlock %s %s)' % (C.cstr(s[1]), C.cstr(s[2]))

    def block_expand(stmts):
      out = []
      for s in stmts:
        if s[0] == 'block':
          out.append(s)
          out.append(['bind', s[1], s[2], 'blockparam', 1])
        else:
          out.append(s)
      return out
    def skc(k):
      if k is None or k is False:
        return 'DSkFalse'
      if k is True:
        return 'DSkTrue'
      return '(DSkList %s)' % C.cstrs(k[1])
    calls = C.clist(['(%s, %s)' % (skc(k), C.clist([st(s) for s in block_expand(c)]) if c else '(@nil dstmt)')
                     for c, k in zip(case, sks)])
    w2 = World()
    try:
      pre_c = C.clist(['{| ce_sel := %s; ce_obj := %d; ce_method := false; ce_src := None; ce_home := (%s, %s) |}' %
                       (C.cstr(p.rpartition('@')[2]), w2.ids[p.partition('@')[0]], C.cstr(p.rpartition('@')[2].rpartition('.')[0]),
                        C.cstr(p.rpartition('.')[2])) for p in pre]) if pre else '(@nil centry)'
    finally:
      w2.close()
    return '(%s, %s, %s)' % (univ, pre_c, calls)

  def shrink(self, case):
    if isinstance(case, dict):
      sk = self.sks(case)
      for i in range(len(case['calls'])):
        for j in range(len(case['calls'][i])):
          c = [list(x) for x in case['calls']]
          del c[i][j]
          yield dict(case, calls=c, sk=sk)
      for i in range(len(case['calls'])):
        yield dict(case, calls=case['calls'][:i] + case['calls'][i + 1:], sk=sk[:i] + sk[i + 1:])
      return
    for i in range(len(case)):
      for j in range(len(case[i])):
        c = [list(x) for x in case]
        del c[i][j]
        yield c
    for i in range(len(case)):
      yield case[:i] + case[i + 1:]

  def impl(self, case):
    sks = self.sks(case)
    pre, case = self.norm(case)
    w = World()
    fails, tags = [], []
    try:
      gin = C.fresh_gin()
      cfg = gin.config
      builtin = {k for k, _ in cfg._REGISTRY.items()}  # pylint: disable=protected-access
      for p in pre:
        if '@' in p:          # obj@selector: registered from Python under a chosen (colliding) selector
          o, _, tgt = p.partition('@')
          gin.register(tgt.rpartition('.')[2], module=tgt.rpartition('.')[0])(w.objs[o])
        else:
          gin.register(w.objs[p])
      obs = []
      snaps = []     # gin.config._IMPORTS (a set of statements) after EVERY parse call, failed or not: sorted texts
      for stmts, sk in zip(case, sks):
        try:
          if sk is None:
            gin.parse_config(render(stmts))
          else:
            gin.parse_config(render(stmts), skip_unknown=(True if sk is True else list(sk[1])))
          obs.append(None)
        except Exception as e:  # pylint: disable=broad-except
          obs.append(T('Err', type(e).__name__))
        snaps.append(sorted(set(i.format() for i in cfg._IMPORTS)))  # pylint: disable=protected-access
      store, refs = [], []
      # entries in key order: the position of an entry in the store dict is not part of any property (a re-registered
      # class re-inserts the entries of its methods)
      for (s, q), d in sorted(cfg._CONFIG.items(), key=lambda kv: kv[0]):  # pylint: disable=protected-access
        ps = []
        for p, v in d.items():
          if isinstance(v, cfg._UnknownConfigurableReference):  # pylint: disable=protected-access
            ps.append([p, 0])          # a placeholder: opaque, refers to nothing
          elif isinstance(v, cfg.ConfigurableReference):
            ps.append([p, 0])
            refs.append([s, q, p, v.configurable.selector])
          else:
            ps.append([p, v])
        store.append([s, q, ps])
      obs.append(store)
      obs.append(sorted(k for k, _ in cfg._REGISTRY.items() if k not in builtin))  # pylint: disable=protected-access
      obs.append(refs)
      all_ok = not any(isinstance(o, T) for o in obs[:len(case)])
      text = ''
      if all_ok:
        try:
          text = gin.config_str()
        except Exception as e:  # pylint: disable=broad-except
          text = ''
          fails.append(('config-str-raised', '%s: %s' % (type(e).__name__, str(e)[:200])))
        lines = text.split('\n')
        imps = []
        for l in lines:
          if l.startswith(('import ', 'from ')):
            imps.append(l)
        heads = sorted(l[len('# Parameters for '):-1] for l in lines if l.startswith('# Parameters for '))
        obs.append([imps, heads])
      else:
        obs.append([])
      obs.append(snaps)
      # ---- independent predicates
      # (1) the very object: resolve every successfully applied binding with the harness's own resolver
      spell = {}
      for stmts in case:
        table = {}
        dyn = False
        for st in stmts:
          if st[0] == 'import':
            if st[1] == '__gin__.dynamic_registration':
              dyn = True
            elif st[1] in UNIVERSE or st[1].rpartition('.')[0] in UNIVERSE:
              if st[1] in UNIVERSE:
                table[bound(st)] = st[1] if (st[2] or st[3]) else st[1].split('.')[0]
          elif st[0] in ('bind', 'block') and dyn:
            first, _, rest = st[2].partition('.')
            if first in table:
              path = table[first] + ('.' + rest if rest else '')
              if path in w.objs:
                spell.setdefault(path, set()).add(st[2])
      reg = {k: v for k, v in cfg._REGISTRY.items() if k not in builtin}  # pylint: disable=protected-access
      for (s, q), d in cfg._CONFIG.items():  # pylint: disable=protected-access
        if q in builtin:
          continue
        wrapped = reg[q].wrapped
        paths = [p for p, o in w.objs.items() if o is wrapped]
        if not paths:
          fails.append(('configured-object-not-in-universe', q))
      for path, obj in w.objs.items():
        sels = [k for k, v in reg.items() if v.wrapped is obj]
        if len(sels) > 1:        # functions, methods and classes alike (a class reached through a second spelling keeps its selector)
          fails.append(('one-object-two-configurables', '%s registered as %r' % (path, sels)))
      # (4) config_str re-parsed in a fresh gin configures the same objects with the same values
      ok_store = {}
      for (s, q), d in cfg._CONFIG.items():  # pylint: disable=protected-access
        if q in builtin:
          continue
        for p, v in d.items():
          ok_store[(s, id(reg[q].wrapped), p)] = v if isinstance(v, int) else ('ref', id(v.configurable.wrapped)) if hasattr(v, 'configurable') else ('placeholder', v.selector)
      any_dyn = any(st[0] == 'import' and st[1] == '__gin__.dynamic_registration' for stmts in case for st in stmts)
      if ok_store and any_dyn and all_ok:     # judged after successful parses only (a failed text is not a configuration to restore)
        g2 = C.fresh_gin()
        try:
          g2.parse_config(text)
          c2 = g2.config
          b2 = {k for k, _ in c2._REGISTRY.items() if k.startswith('gin.')}  # pylint: disable=protected-access
          st2 = {}
          for (s, q), d in c2._CONFIG.items():  # pylint: disable=protected-access
            if q in b2:
              continue
            for p, v in d.items():
              st2[(s, id(c2._REGISTRY[q].wrapped), p)] = v if isinstance(v, int) else ('ref', id(v.configurable.wrapped)) if hasattr(v, 'configurable') else ('placeholder', v.selector)  # pylint: disable=protected-access
          if st2 != {k: v for k, v in ok_store.items() if not (isinstance(v, tuple) and v[0] == 'placeholder')}:   # placeholders have no literal form
            fails.append(('config-str-selectors-resolve-elsewhere', 'text %r: original %r, re-parsed %r' % (text, sorted(map(str, ok_store.items())), sorted(map(str, st2.items())))))
        except Exception as e:  # pylint: disable=broad-except
          fails.append(('config-str-does-not-parse', '%s: %s; text %r' % (type(e).__name__, str(e)[:200], text)))
      # (7) the emitted text read by the harness's OWN reader and resolver (Python's binding rules on the text's import
      # lines, attributes followed in the universe; gin's parser and resolver take no part): the imports bind distinct
      # names, never 'gin', and every selector - of a binding and of a reference - denotes the very object that binding /
      # reference belongs to in the configuration
      if all_ok and text and any_dyn and 'from __gin__ import dynamic_registration' in lines:
        emitted = self.read_emitted(lines)
        if emitted is None:
          tags.append('emitted-not-read')
        else:
          e_imps, e_binds = emitted
          names = [bound(i) for i in e_imps]
          dup = sorted({n for n in names if names.count(n) > 1})
          if dup or 'gin' in names:
            fails.append(('config-str-imports-collide', 'the emitted imports bind %r more than once / bind gin: %r' % (dup, imps)))
          table = {bound(i): i for i in e_imps}

          def denotes(sel):
            imp = table.get(sel.partition('.')[0])
            return w.objs.get(reg_names(imp, sel)[0]) if imp else None
          got, bad = {}, []
          for scope, sel, param, val in e_binds:
            o = denotes(sel)
            if o is None:
              bad.append(sel)
              continue
            if isinstance(val, int):
              got[(scope, id(o), param)] = val
            else:
              ro = denotes(val[1])
              if ro is None:
                bad.append(val[1])
                continue
              got[(scope, id(o), param)] = ('ref', id(ro))
          want = {k: v for k, v in ok_store.items() if not (isinstance(v, tuple) and v[0] == 'placeholder')}
          if bad:
            fails.append(('config-str-selector-denotes-nothing', 'under the emitted imports %r the emitted names %r denote no object '
                          'of the universe; text %r' % (imps, sorted(set(bad)), text)))
          elif got != want:
            name_of = {id(o): p for p, o in w.objs.items()}
            show = lambda d: sorted((k[0], name_of.get(k[1], '?'), k[2], v if isinstance(v, int) else name_of.get(v[1], '?')) for k, v in d.items())
            fails.append(('config-str-selector-denotes-other-object', 'read through its own imports the emitted text configures %r, '
                          'the configuration is %r; text %r' % (show(got), show(want), text)))
      # (3) a text whose every name is provided by its own imports and exists in the universe is accepted
      from harness import findings  # pylint: disable=g-import-not-at-top
      for ci, stmts in enumerate(case):
        table, dyn, valid = {}, False, True
        taken = [p.partition('@')[2] for p in pre if '@' in p]
        seen_import = False
        first_bad = None          # the error class the FIRST invalid statement must raise, when that is determined
        for st in stmts:
          if not valid:
            break
          if st[0] == 'import':
            if st[1] == '__gin__.dynamic_registration':
              if seen_import or st[3]:
                valid = False
              dyn = True
            elif st[1].startswith('__gin__'):
              valid = False
            else:
              if st[1] == 'gin.config' and not dyn:
                seen_import = True
                continue             # a real module; binds nothing in a file without the feature
              if st[1] not in UNIVERSE and (sks[ci] is True or (isinstance(sks[ci], list) and len(sks[ci][1]) > 0)):
                seen_import = True
                continue             # the import of a missing module is dropped under any truthy skip_unknown
              if st[1] not in UNIVERSE or findings._bound(st) == 'gin':
                valid = False
              table[findings._bound(st)] = st
            seen_import = True
          else:
            if not dyn:
              valid = False      # static lookups depend on what is registered: not judged here
              break
            # the value is parsed before the target
            for n in ([st[4][1]] if st[0] == 'bind' and not isinstance(st[4], int) else []) + [st[2]]:
              r = findings._resolve(table, n)
              if not r:
                if sks[ci] is True or (isinstance(sks[ci], list) and n in sks[ci][1]):
                  # not provided by this text's imports and covered by skip_unknown: the statement is dropped / the
                  # reference becomes a placeholder -- also when something else (an earlier text, a decorator) registered
                  # that spelling: "known" means resolvable through the file's imports, independent of what was parsed before
                  continue
                valid, first_bad = False, ('NameError' if not sks[ci] or sks[ci] == ['list', []] else None)
                break
              if r[0] not in w.objs and (sks[ci] is True or (isinstance(sks[ci], list) and n in sks[ci][1])):
                # a missing attribute is an unknown name too: covered by skip_unknown (again whatever is registered
                # under a selector this dotted name is a suffix of)
                continue
              if r[0] not in w.objs:
                valid, first_bad = False, ('AttributeError' if r[0].rpartition('.')[0] in w.objs or r[0].rpartition('.')[0] in UNIVERSE else None)
                break
              if any(r[0] == t or r[0].startswith(t + '.') for t in taken):
                valid = False    # a selector already taken by another object is a legitimate ValueError
                break
        if valid and isinstance(obs[ci], T):
          fails.append(('valid-statement-rejected', 'call %d raised %s although every name is provided by the text\'s own imports: %r' %
                        (ci, obs[ci].args[0], render(stmts))))
        elif first_bad and isinstance(obs[ci], T) and obs[ci].args[0] == 'ValueError':
          # every statement before the first invalid one is valid, and that one must raise first_bad: a ValueError
          # therefore comes from a VALID statement
          fails.append(('valid-statement-rejected', 'call %d raised ValueError before its first invalid statement (which raises %s): %r' %
                        (ci, first_bad, render(stmts))))
      # (6) skip_unknown never drops a binding whose target the file's own imports provide
      for ci, stmts in enumerate(case):
        if not sks[ci] or isinstance(obs[ci], T):
          continue
        table, dyn = {}, False
        for st in stmts:
          if st[0] == 'import':
            if st[1] == '__gin__.dynamic_registration':
              dyn = True
            elif st[1] in UNIVERSE:
              table[findings._bound(st)] = st
          elif st[0] == 'bind' and dyn and isinstance(st[4], int):
            r = findings._resolve(table, st[2])
            if r and r[0] in w.objs and (st[1], id(w.objs[r[0]]), st[3]) not in ok_store:
              fails.append(('provided-binding-dropped', 'skip_unknown=%r dropped %r although %r is provided by the text\'s own imports: %r' %
                            (sks[ci], st[1:4], st[2], render(stmts))))
      # (5) a configured method receives its bindings when called on an instance built through the registry
      if all_ok:
        for (sc, q), d in list(cfg._CONFIG.items()):  # pylint: disable=protected-access
          if q in builtin or not reg[q].is_method:
            continue
          mpaths = [p for p, o in w.objs.items() if o is reg[q].wrapped]
          if not mpaths:
            continue
          cls_obj = w.objs[mpaths[0].rpartition('.')[0]]
          mname = mpaths[0].rpartition('.')[2]
          try:
            with gin.config_scope(sc or None):
              inst = gin.get_configurable(cls_obj)()
              got = getattr(inst, mname)()
            for pname, v in d.items():
              if isinstance(v, int) and got.get(pname) != v:
                fails.append(('configured-method-not-injected', '%s/%s.%s = %r, the method received %r' % (sc, q, pname, v, got)))
          except Exception as e:  # pylint: disable=broad-except
            if any(sks) and 'No configurable matching reference' in str(e):
              continue      # a placeholder kept under skip_unknown raises on use: by design (C15)
            fails.append(('configured-method-call-raised', '%s: %s' % (type(e).__name__, str(e)[:200])))
      multi = any(len(v) >= 2 for v in spell.values())
    finally:
      w.close()
    return {'obs': obs, 'fails': fails[:3], 'nontrivial': multi or any('meth' in str(st) for c in case for st in c),
            'tags': ['calls%d' % len(case)] + ['err' if isinstance(o, T) else 'ok' for o in obs[:len(case)]] + tags}


# ----------------------------------------------------------------------------------------------------------------------
# references (scoped and not, evaluated and not) made BEFORE a later statement re-registers their target, then CALLED
SR_LEVEL = {'top.g': 0, 'top.h': 0, 'pkga.util.g': 1, 'pkga.util.f': 1, 'pkga.util.C': 2, 'pkgb.util.C': 2,
            'pkga.util.C.Inner': 3, 'pkgb.util.f': 3}       # a reference goes from a lower to a strictly higher level: no cycles
SR_METHODS = {'pkga.util.C': ['meth'], 'pkgb.util.C': ['meth', 'meth2']}
SR_SPELL = {'pkga.util': [['import', 'pkga.util', False, None], ['import', 'pkga.util', False, 'ua'], ['import', 'pkga.util', True, None],
                          ['import', 'pkga.util', True, 'ua']],
            'pkgb.util': [['import', 'pkgb.util', False, None], ['import', 'pkgb.util', False, 'ub'], ['import', 'pkgb.util', True, None],
                          ['import', 'pkgb.util', True, 'ub']],
            'top': [['import', 'top', False, None], ['import', 'top', False, 't']]}
SR_BIND_SCOPES = ['', '', 'ev', 'tr', 'ev/inner', 'tr/ev']
SR_REF_SCOPES = [[], ['ev'], ['ev'], ['tr'], ['ev', 'inner'], ['tr', 'ev'], ['zz', 'ev']]


def sr_module(path):
  return max((m for m in SR_SPELL if path.startswith(m + '.')), key=len)


def sr_val(v):
  if isinstance(v, int):
    return str(v)
  if v[0] == 'ref':
    return '@' + '/'.join(list(v[1]) + [v[2]]) + ('()' if v[3] else '')
  if v[0] == 'list':
    return '[' + ', '.join(sr_val(x) for x in v[1]) + ']'
  return '{' + ', '.join('%r: %s' % (k, sr_val(x)) for k, x in v[1]) + '}'


def sr_render(stmts):
  out = []
  for st in stmts:
    if st[0] == 'import':
      out.append(render([st]).rstrip('\n'))
    else:
      out.append('%s%s.%s = %s' % (st[1] + '/' if st[1] else '', st[2], st[3], sr_val(st[4])))
  return '\n'.join(out) + '\n'


def sr_refs(v):
  if isinstance(v, int):
    return
  if v[0] == 'ref':
    yield v
  else:
    for x in v[1]:
      for r in sr_refs(x[1] if v[0] == 'dict' else x):
        yield r


class ScopedRefEngine(Engine):
  """Implementation only (the model records references but has no calls).  A file's statements alone determine what a call
  THROUGH a reference receives: the target runs under the reference's own scope when it has one (else under the scope
  active at the call), and every parameter takes the binding whose scope is the longest prefix of that scope - whatever
  was written first, the reference or the bindings, and however often the target class was re-registered in between
  because a method of it got configured."""
  name = 'scoped-refs'
  model = False
  rule = ('scoped-refs: 1-2 config texts with dynamic registration (one import spelling per module, random among plain / as / '
          'from / from-as) whose statements, in random order, bind holder parameters to references - scoped (@ev/…, @tr/ev/…) '
          'or not, evaluated or not, bare or inside a list / dict, one or two levels deep - to classes, a nested class and '
          'functions, bind integer parameters of those targets under the root and under scopes, and configure 1-2 methods of '
          'the referenced classes (each re-registers the class). Every configured holder is then called under every scope of '
          'the file; independent predicate: each object reached through a reference is an instance of the very class, its '
          'constructor / the function / its methods received exactly the longest-prefix bindings of the file, and the same '
          'holds after config_str() is re-parsed in a fresh gin. non-trivial = a scoped reference to a class precedes the '
          'configuration of one of its methods.')

  def budget(self, tier):
    return 300 if tier == 'quick' else 6000

  def corpus(self):
    pa, pb, tp = SR_SPELL['pkga.util'][0], SR_SPELL['pkgb.util'][3], SR_SPELL['top'][0]
    fa = SR_SPELL['pkga.util'][2]
    return [
        # a scoped and an unscoped evaluated reference, then the class parameter, then the method
        {'files': [[DYN, pa,
                    ['bind', 'ev', 'pkga.util.g', 'r', ['ref', ['ev'], 'pkga.util.C', True]],
                    ['bind', '', 'pkga.util.g', 'r', ['ref', [], 'pkga.util.C', True]],
                    ['bind', '', 'pkga.util.C', 'w', 3],
                    ['bind', '', 'pkga.util.C.meth', 'x', 7]]]},
        # not evaluated, two-component scope, inside a list, two methods configured one after the other (two
        # re-registrations), class and method parameters under 'tr', 'tr/ev', the root and (not a prefix) 'ev'
        {'files': [[DYN, pb, tp,
                    ['bind', '', 'top.h', 'r', ['list', [['ref', ['tr', 'ev'], 'ub.C', False], ['ref', ['tr', 'ev'], 'ub.f', False],
                                                          ['ref', [], 'ub.C', False]]]],
                    ['bind', 'tr', 'ub.C', 'w', 4], ['bind', '', 'ub.C', 'w', 1], ['bind', 'ev', 'ub.C', 'w', 9],
                    ['bind', '', 'ub.C.meth2', 'x', 5],
                    ['bind', 'tr/ev', 'ub.f', 'v', 6],
                    ['bind', 'tr', 'ub.C.meth', 'y', 8], ['bind', 'ev', 'ub.C.meth', 'y', 2], ['bind', 'tr/ev', 'ub.C.meth2', 'y', 3]]]},
        # the references in one text (two levels deep; a class parameter referring to the nested class), the methods
        # configured by a second text
        {'files': [[DYN, fa, tp,
                    ['bind', '', 'top.g', 'r', ['ref', ['ev'], 'util.g', True]],
                    ['bind', '', 'util.g', 'r', ['dict', [['k', ['ref', [], 'util.C', True]], ['s', ['ref', ['tr'], 'util.C', True]]]]],
                    ['bind', '', 'util.C', 'v', ['ref', ['inner'], 'util.C.Inner', True]],
                    ['bind', 'inner', 'util.C.Inner', 'w', 2]],
                   [DYN, fa,
                    ['bind', 'ev', 'util.C.meth', 'y', 4], ['bind', '', 'util.C.meth', 'y', 2], ['bind', 'tr', 'util.C.meth', 'x', 6],
                    ['bind', 'ev', 'util.C', 'w', 5]]]},
    ]

  def gen(self, rng, tier):
    while True:
      spell = {m: rng.choice(v) for m, v in SR_SPELL.items()}
      if len({bound(i) for i in spell.values()}) == len(spell):
        break

    def sp(path):
      m = sr_module(path)
      return selector_for(spell[m], path[len(m) + 1:])
    classes = rng.sample(sorted(SR_METHODS), rng.choice([1, 1, 2]))
    targets = classes + rng.sample(['pkga.util.C.Inner', 'pkgb.util.f', 'pkga.util.f', 'pkga.util.g'], rng.randint(0, 2))
    fav = rng.choice(SR_REF_SCOPES[1:])            # the scopes of one case overlap
    def ref_scope():
      return list(fav) if rng.random() < 0.5 else list(rng.choice(SR_REF_SCOPES))
    def bind_scope():
      r = rng.random()
      if r < 0.35:
        return ''
      if r < 0.7:
        return '/'.join(fav[:rng.randint(1, len(fav))])
      return rng.choice(SR_BIND_SCOPES)
    def ref(holder):
      cands = [t for t in targets if SR_LEVEL[t] > SR_LEVEL[holder]] or [c for c in sorted(SR_METHODS) if SR_LEVEL[c] > SR_LEVEL[holder]]
      return ['ref', ref_scope(), sp(rng.choice(cands)), rng.random() < 0.6]
    refs, ints, meths = [], [], []
    for _ in range(rng.randint(1, 4)):
      holder = rng.choice([h for h in SR_LEVEL if SR_LEVEL[h] < 2] + [c for c in classes if c == 'pkga.util.C'])
      if holder == 'pkga.util.C':
        v = ['ref', ref_scope(), sp('pkga.util.C.Inner'), rng.random() < 0.6]
      else:
        r = rng.random()
        v = ref(holder) if r < 0.7 else ['list', [ref(holder) for _ in range(rng.randint(1, 3))]] if r < 0.85 else \
            ['dict', [[k, ref(holder)] for k in rng.sample(['k', 's', 'q'], rng.randint(1, 2))]]
      refs.append(['bind', bind_scope() if rng.random() < 0.4 else '', sp(holder), rng.choice(['r', 'r', 'r2']), v])
    for _ in range(rng.randint(0, 4)):
      ints.append(['bind', bind_scope(), sp(rng.choice(targets)), rng.choice(['w', 'v']), rng.randint(1, 9)])
    for _ in range(rng.randint(1, 3)):
      c = rng.choice(classes)
      meths.append(['bind', bind_scope(), sp(c + '.' + rng.choice(SR_METHODS[c])), rng.choice(['x', 'y']), rng.randint(1, 9)])
    if rng.random() < 0.6:
      body = refs + ints
      rng.shuffle(body)
      tail = list(meths)
      for _ in range(rng.randint(0, 2)):           # some of the other statements follow the methods
        if body and len(body) > 1:
          tail.insert(rng.randint(0, len(tail)), body.pop(rng.randrange(1, len(body))))
      body += tail
    else:
      body = refs + ints + meths
      rng.shuffle(body)
    cuts = [len(body)] if rng.random() < 0.7 or len(body) < 2 else [rng.randint(1, len(body) - 1), len(body)]
    files, a = [], 0
    for b in cuts:
      part = body[a:b]
      a = b
      need = []
      for st in part:
        for n in [st[2]] + [r[2] for r in sr_refs(st[4])]:
          imp = [i for i in spell.values() if bound(i) == n.split('.')[0]][0]
          if imp not in need:
            need.append(imp)
      rng.shuffle(need)
      files.append([DYN] + need + part)
    return {'files': files}

  def shrink(self, case):
    files = case['files']
    for i in range(len(files)):
      for j in range(len(files[i])):
        if files[i][j][0] != 'import':
          yield {'files': [f[:j] + f[j + 1:] if k == i else f for k, f in enumerate(files)]}
    if len(files) > 1:
      yield {'files': [files[0] + [s for s in files[1] if s[0] != 'import' or s not in files[0]]] + files[2:]}
    for i in range(len(files)):
      for j in range(len(files[i])):
        st = files[i][j]
        if st[0] == 'bind' and not isinstance(st[4], int) and st[4][0] in ('list', 'dict') and len(st[4][1]) >= 1:
          for k in range(len(st[4][1])):
            x = st[4][1][k]
            nv = x[1] if st[4][0] == 'dict' else x
            yield {'files': [[s[:4] + [nv] if (a, b) == (i, j) else s for b, s in enumerate(f)] for a, f in enumerate(files)]}

  def impl(self, case):
    files = case['files']
    w = World()
    fails = []
    try:
      # ---- what the statements say, by the harness's own resolver
      store = {}           # (scope, universe path, param) -> value with references resolved to universe paths
      order = []           # ('ref', class path, scoped?) / ('meth', class path) in statement order
      ok = True
      for stmts in files:
        table, dyn = {}, False
        for st in stmts:
          if st[0] == 'import':
            if st[1] == '__gin__.dynamic_registration':
              dyn = not table
            elif st[1] in UNIVERSE:
              table[bound(st)] = st[1] if (st[2] or st[3]) else st[1].split('.')[0]
            continue

          def res(name):
            first, _, rest = name.partition('.')
            p = table[first] + ('.' + rest if rest else '') if dyn and first in table else None
            return p if p in w.objs else None

          def conv(v):
            if isinstance(v, int):
              return v
            if v[0] == 'ref':
              p = res(v[2])
              if p is None or p.rpartition('.')[0] in SR_METHODS and not isinstance(w.objs[p], type):
                raise KeyError(v[2])
              order.append(('ref', p, bool(v[1])))
              return ('ref', tuple(v[1]), p, bool(v[3]))
            if v[0] == 'list':
              return ('list', tuple(conv(x) for x in v[1]))
            return ('dict', tuple((k, conv(x)) for k, x in v[1]))
          try:
            val = conv(st[4])            # the value is parsed (and its references registered) before the target
          except KeyError:
            ok = False
            break
          tgt = res(st[2])
          if tgt is None:
            ok = False
            break
          if tgt.rpartition('.')[0] in SR_METHODS and not isinstance(w.objs[tgt], type):
            if not isinstance(val, int):
              ok = False
              break
            order.append(('meth', tgt.rpartition('.')[0]))
          store[(st[1], tgt, st[3])] = val
        if not ok:
          break
      if not ok:            # (a shrink candidate that lost an import, …): not a case of this family
        return {'obs': T('NotApplicable'), 'fails': [], 'nontrivial': False, 'tags': ['n/a']}
      nontrivial = any(o[0] == 'meth' and any(p[0] == 'ref' and p[1] == o[1] and p[2] for p in order[:i]) for i, o in enumerate(order))
      scopes = [[]]
      for (s, _, _), v in store.items():
        for sc in [s.split('/') if s else []] + [list(r[1]) for r in self._refs(v)]:
          for k in range(1, len(sc) + 1):
            if sc[:k] not in scopes:
              scopes.append(sc[:k])
      scopes = scopes[:8]

      def expected(path, active):
        out, best = {}, {}
        for (s, o, p), v in store.items():
          sc = s.split('/') if s else []
          if o == path and list(active[:len(sc)]) == sc and (p not in best or len(sc) > best[p]):
            best[p], out[p] = len(sc), v
        return out

      # ---- the implementation
      gin = C.fresh_gin()
      for i, stmts in enumerate(files):
        try:
          gin.parse_config(sr_render(stmts))
        except Exception as e:  # pylint: disable=broad-except
          fails.append(('valid-statement-rejected', 'text %d raised %s (%s) although every name is provided by its own imports: %r' %
                        (i, type(e).__name__, str(e)[:160], sr_render(stmts))))
          return {'obs': T('Err', type(e).__name__), 'fails': fails, 'nontrivial': nontrivial, 'tags': ['err']}
      ncalls = self._probe(gin, w, store, scopes, expected, fails, 'after parsing')
      if not fails:
        try:
          text = gin.config_str()
          g2 = C.fresh_gin()
          g2.parse_config(text)
        except Exception as e:  # pylint: disable=broad-except
          fails.append(('config-str-does-not-parse', '%s: %s' % (type(e).__name__, str(e)[:300])))
        else:
          self._probe(g2, w, store, scopes, expected, fails, 'after re-parsing config_str() %r in a fresh gin' % text)
    finally:
      w.close()
    return {'obs': T('Done', ncalls), 'fails': fails[:3], 'nontrivial': nontrivial,
            'tags': ['files%d' % len(files), 'ref-then-meth' if nontrivial else 'other']}

  @staticmethod
  def _refs(v):
    if isinstance(v, tuple):
      if v[0] == 'ref':
        yield v
      else:
        for x in v[1]:
          for r in ScopedRefEngine._refs(x[1] if v[0] == 'dict' else x):
            yield r

  def _probe(self, gin, w, store, scopes, expected, fails, when):
    """calls every configured function / class under every scope and follows the references; returns the number of calls"""
    count = [0]

    def under(active):
      return gin.config_scope('/'.join(active) or None)

    def fail(kind, msg):
      if len(fails) < 6:
        fails.append((kind, msg + ' [' + when + ']'))

    def check(got, path, active, via):
      """`got` is what calling `path` under the scope `active` returned"""
      obj = w.objs[path]
      want = expected(path, active)
      if isinstance(obj, type):
        if not isinstance(got, obj):
          fail('reference-wrong-object', '%s under scope %r: expected an instance of %s, got %r' % (via, '/'.join(active), path, got))
          return
        recv = getattr(got, 'kw', None)
      else:
        recv = got
      if not isinstance(recv, dict) or sorted(recv) != sorted(want):
        fail('reference-call-wrong-argument', '%s under scope %r: %s received the parameters %r, the statements bind %r' %
             (via, '/'.join(active), path, sorted(recv) if isinstance(recv, dict) else recv, sorted(want)))
        return
      for p, v in want.items():
        value(recv[p], v, active, '%s -> %s.%s' % (via, path, p))
      if isinstance(obj, type):
        for m in SR_METHODS.get(path, []):
          wm = expected(path + '.' + m, active)
          try:
            count[0] += 1
            with under(active):
              r = getattr(got, m)()
          except Exception as e:  # pylint: disable=broad-except
            fail('reference-call-raised', '%s under scope %r: calling %s.%s on the object raised %s: %s' %
                 (via, '/'.join(active), path, m, type(e).__name__, str(e)[:160]))
            continue
          if r != wm:
            fail('reference-method-wrong-argument', '%s under scope %r: the method %s.%s of the object received %r, the statements '
                 'bind %r' % (via, '/'.join(active), path, m, r, wm))

    def value(got, v, active, via):
      if isinstance(v, int):
        if got != v or isinstance(got, bool):
          fail('reference-call-wrong-argument', '%s under scope %r: received %r, bound %r' % (via, '/'.join(active), got, v))
      elif v[0] == 'ref':
        _, rsc, path, ev = v
        spelled = '@' + '/'.join(list(rsc) + [path]) + ('()' if ev else '')
        if ev:
          check(got, path, list(rsc) or list(active), via + ' = ' + spelled)
          return
        if not callable(got):
          fail('reference-wrong-object', '%s under scope %r: %s delivered %r' % (via, '/'.join(active), spelled, got))
          return
        for outer in ([list(active)] + ([[]] if active else [['ev']])):
          try:
            count[0] += 1
            with under(outer):
              r = got()
          except Exception as e:  # pylint: disable=broad-except
            fail('reference-call-raised', '%s = %s called under scope %r raised %s: %s' %
                 (via, spelled, '/'.join(outer), type(e).__name__, str(e)[:160]))
            continue
          check(r, path, list(rsc) or outer, '%s = %s called under %r' % (via, spelled, '/'.join(outer)))
      elif v[0] == 'list':
        if not isinstance(got, (list, tuple)) or len(got) != len(v[1]):
          fail('reference-call-wrong-argument', '%s: received %r for a list of %d references' % (via, got, len(v[1])))
          return
        for i, (g, x) in enumerate(zip(got, v[1])):
          value(g, x, active, '%s[%d]' % (via, i))
      else:
        if not isinstance(got, dict) or sorted(got) != sorted(k for k, _ in v[1]):
          fail('reference-call-wrong-argument', '%s: received %r for a dict with keys %r' % (via, got, [k for k, _ in v[1]]))
          return
        for k, x in v[1]:
          value(got[k], x, active, '%s[%r]' % (via, k))

    tops = sorted({o for (_, o, _) in store if o in SR_LEVEL})
    for path in tops:
      for active in scopes:
        try:
          count[0] += 1
          with under(active):
            got = gin.get_configurable(w.objs[path])()
        except Exception as e:  # pylint: disable=broad-except
          fail('reference-call-raised', 'calling %s under scope %r raised %s: %s' % (path, '/'.join(active), type(e).__name__, str(e)[:200]))
          continue
        check(got, path, active, 'get_configurable(%s)()' % path)
    return count[0]


ENGINES = [DynEngine(), ScopedRefEngine()]
